# -*- coding: utf-8 -*-
"""C15 -- introspection reports exactly the schema."""
import asyncio
import copy
import json
import logging
import re
from concurrent.futures import Future
from inspect import isawaitable

from py_gql import process_graphql_query
from py_gql.execution import BlockingExecutor, Executor, execute
from py_gql.execution.runtime import AsyncIORuntime, BlockingRuntime, ThreadPoolRuntime
from py_gql.lang import parse, parse_value
from py_gql.schema import (EnumType, InputObjectType, InterfaceType, ListType, NonNullType, ObjectType,
                           ScalarType)
from py_gql.utilities import value_from_ast

from .. import common
from .. import gen_introspect as G
from .. import ser

# the thread-pool runtime logs "exception calling callback" (InvalidStateError in gather_futures:
# C08/C09 territory); the results are unaffected
logging.getLogger("concurrent.futures").setLevel(logging.CRITICAL)

PROP = "C15"
THEOREMS = ["C15_deprecated_filter", "C15_order", "C15_sorted", "C15_exact_partial", "C15_guard_decidable",
            "C15_defaults_refuted", "C15_wrapper_depth_refuted", "C15_typename", "C15_disabled",
            "C15_typename_exec", "C15_default_value_exact", "C15_complete", "C15_deprecated_law",
            "C15_disabled_exec"]
AXIOMS_OK = []
RUN_MODULE = "Run.C15run Schema.IntrospectModel Spec.IntrospectSpec"
AGREE = "agree_C15"
CASE_TYPE = "case_C15"
SHARD = 6
LEVEL_NOTE = ("Theorems are about the Gallina model Schema/IntrospectModel.v of schema/introspection.py, "
              "utilities/introspection_query.py (fixed selection shape) and "
              "ResolutionContext.field_definition; the model computes the answer tree directly from a "
              "by-name dump of the live Schema object and is tied to /repo by comparing full ordered "
              "response trees on generated schemas on every run. Default values are JSON-like Python "
              "values (finite floats); __schema/__type below a non-query parent (rejected by validation) "
              "is outside the quantifier.")
RULE = ("valid-by-construction schemas over all six kinds (SDL-built and code-built with shuffled "
        "registry order; defaults of Int/Float/String/Boolean/ID/enum/list/input-object type incl. strings "
        "needing escapes; deprecations with default/explicit/empty reasons; custom directives; "
        "interfaces/unions; descriptions; wrappers deeper than 7), each queried with introspection_query() "
        "for includeDeprecated true/false/omitted and description on/off, __type(name:) queries, and probe "
        "queries (__typename at composite positions, ordinary fields, root meta-fields) with "
        "disable_introspection on and off, under BlockingExecutor, Executor+BlockingRuntime, AsyncIORuntime "
        "and ThreadPoolRuntime; non-trivial = the schema has a default value, a deprecated member and an "
        "abstract type or custom directive; distinct = distinct (build description, mode, operations)")

FINDINGS = {
    "enum": "enum-typed-default",
    "input": "input-object-typed-default",
    "string": "string-default-needing-escapes",
    "astral": "astral-string-in-list-default",
    "deep": "type-ref-deeper-than-7-wrappers",
}


# --------------------------------------------------------------------------
def _ops_for(rng, case, tier):
    """operations for a generated schema; needs the dump, so built here"""
    schema = G.build(case)
    dump = G.dump_schema(schema)
    ops = [{"op": "intro", "incl": True, "desc": True}]
    ops.append({"op": "intro", "incl": rng.choice([False, False, "omit"]), "desc": rng.random() < 0.5})
    user = [t["name"] for t in dump["types"] if not t["name"].startswith("__")]
    interesting = [t["name"] for t in dump["types"]
                   if any(f["deprecated"] for f in t.get("fields", []))
                   or any(v["deprecated"] for v in t.get("values", []))]
    for _ in range(1 if tier == "quick" else 4):
        pool = interesting * 3 + user + ["__Type", "__Schema", "NoSuchType"]
        ops.append({"op": "type", "name": rng.choice(pool), "incl": rng.choice([True, False, False, "omit"]),
                    "desc": rng.random() < 0.7})
    for _ in range(1 if tier == "quick" else 4):
        p = G.gen_probe(rng, dump, mutation=False)
        ops.append(dict(p, disabled=False))
        ops.append(dict(copy.deepcopy(p), disabled=True))
    if dump["mutation"]:
        p = G.gen_probe(rng, dump, mutation=True)
        ops.append(dict(p, disabled=False))
        ops.append(dict(copy.deepcopy(p), disabled=True))
    ops.append({"op": "intro_disabled"})
    return ops


_STD_OPS = [{"op": "intro", "incl": True, "desc": True}, {"op": "intro", "incl": False, "desc": False},
            {"op": "intro_disabled"}]


def corpus():
    out = []
    # row 34 witnesses (open findings) and the pinned test's schema
    out.append({"mode": "special", "special": "pinned_test", "ops": _STD_OPS + [
        {"op": "type", "name": "TestInputObject", "incl": True, "desc": True}]})
    out.append({"mode": "special", "special": "enum_internal", "ops": _STD_OPS + [
        {"op": "type", "name": "E", "incl": False, "desc": True},
        {"op": "type", "name": "Query", "incl": False, "desc": True},
        {"op": "type", "name": "Query", "incl": True, "desc": True}]})
    # list defaults whose string items need escapes: rendered through json.dumps, they read back
    # (witness of seeded change C15-c: item-by-item raw rendering)
    out.append({"mode": "special", "special": "list_escapes", "ops": _STD_OPS + [
        {"op": "type", "name": "Query", "incl": True, "desc": False}]})
    # instances of subclasses of the type classes (RegexType, user subclasses, wrappers): the kind is the
    # base class's (witness of seeded change C15-e: kind decided by class identity)
    tqs = lambda n: {"op": "type", "name": n, "incl": True, "desc": True}  # noqa
    out.append({"mode": "special", "special": "subclassed", "ops": _STD_OPS + [
        tqs(n) for n in ("Email", "Date", "Color", "Pt", "Node", "A", "U", "Query")] + [
        dict(p, disabled=d) for d in (False, True) for p in [
            {"op": "probe", "mutation": False,
             "root": {"n": {"__typename__": "A", "id": "1"}, "u": [{"__typename__": "B"}], "a": {"id": "2"}},
             "sels": [{"k": "typename", "key": "__typename"},
                      {"k": "type", "key": "__type", "name": "Email", "incl": True, "desc": False},
                      {"k": "field", "key": "n", "name": "n", "sub": [{"k": "typename", "key": "__typename"},
                                                                      {"k": "field", "key": "id", "name": "id", "sub": []}]},
                      {"k": "field", "key": "u", "name": "u", "sub": [{"k": "typename", "key": "t"}]},
                      {"k": "field", "key": "a", "name": "a", "sub": [{"k": "typename", "key": "__typename"}]}]}]]})
    # history on ONE Schema object: possibleTypes / types must follow an in-place edit (witness of
    # seeded change C15-d: possibleTypes memoised per (schema, abstract type) and never invalidated)
    hist_sdl = '''
interface Node { id: ID }
type A implements Node { id: ID, a: Int }
type B implements Node { id: ID, b: Color }
type C { c: Int }
union U = B | A | C
enum Color { RED GREEN }
type Query { n: Node, u: U, a: A, x: Int }
'''
    tq = lambda n: {"op": "type", "name": n, "incl": True, "desc": False}  # noqa
    out.append({"mode": "sdl_text", "sdl": hist_sdl, "ops": [
        {"op": "intro", "incl": True, "desc": False}, tq("Node"), tq("U"),
        {"op": "edit", "edit": "hide_type", "name": "A"},
        {"op": "intro", "incl": True, "desc": False}, tq("Node"), tq("U"), tq("A"), tq("Query"),
        {"op": "edit", "edit": "drop_interface", "type": "B", "name": "Node"},
        tq("Node"), tq("B"),
        {"op": "edit", "edit": "hide_enum_value", "type": "Color", "name": "GREEN"},
        {"op": "edit", "edit": "hide_field", "type": "Query", "name": "x"},
        {"op": "intro", "incl": False, "desc": False}, tq("Color"), tq("U")]})
    # row 40: how python_name-keyed input-object defaults show up
    out.append({"mode": "special", "special": "python_name", "ops": _STD_OPS})
    sdl = '''
enum Color { RED GREEN @deprecated BLUE @deprecated(reason: "") }
input Pt { x: Int = 1, y: [Int!] = [1, 2], c: Color = GREEN, fooBar: String = "a\\"b\\\\c\\nd" }
interface Node { id: ID }
type A implements Node { id: ID, a: Int @deprecated(reason: "gone") }
type B implements Node { id: ID, b: [[[[[[[[Int!]!]!]!]!]!]!]!]! }
union U = B | A
directive @auth(role: Color = RED, pts: [Pt!] = [{x: 2, c: BLUE}]) on FIELD_DEFINITION | OBJECT
type Query {
  f(a: Color = RED, b: Pt = {x: 2, c: BLUE, fooBar: "q"}, s: String = "he\\"llo", l: [String] = ["a", "b\\"c"],
    fl: Float = 1.5, id: ID = "abc", n: Int = null, bo: Boolean = true, ls: [String] = ["\U0001F600"]): Int
  g: Int @deprecated(reason: "")
  h: Int @deprecated
  n: Node
  u: [U!]
  a: A
}
type Mutation { m: Int, a: A }
'''
    out.append({"mode": "sdl_text", "sdl": sdl, "ops": _STD_OPS + [
        {"op": "intro", "incl": "omit", "desc": True},
        {"op": "type", "name": "Query", "incl": False, "desc": True},
        {"op": "type", "name": "Color", "incl": False, "desc": False},
        {"op": "type", "name": "Color", "incl": True, "desc": False},
        {"op": "type", "name": "Node", "incl": True, "desc": True},
        {"op": "type", "name": "U", "incl": True, "desc": True},
        {"op": "type", "name": "B", "incl": True, "desc": True},
        # fix C15-01: unknown type name is reported as null
        {"op": "type", "name": "Nope", "incl": True, "desc": True},
    ] + [dict(p, disabled=d) for d in (False, True) for p in [
        {"op": "probe", "mutation": False, "root": {"a": {"id": "1", "a": 2},
                                                  "n": {"__typename__": "B", "id": "7"},
                                                  "u": [{"__typename__": "A"}, {"__typename__": "B"}]},
         "sels": [{"k": "typename", "key": "__typename"},
                  {"k": "schema", "key": "__schema"},
                  {"k": "type", "key": "__type", "name": "Color", "incl": False, "desc": True},
                  {"k": "field", "key": "a", "name": "a", "sub": [
                      {"k": "field", "key": "id", "name": "id", "sub": []},
                      {"k": "typename", "key": "tn"},
                      {"k": "field", "key": "x", "name": "a", "sub": []}]},
                  {"k": "field", "key": "n", "name": "n", "sub": [
                      {"k": "typename", "key": "__typename"}, {"k": "field", "key": "id", "name": "id", "sub": []}]},
                  {"k": "field", "key": "u", "name": "u", "sub": [{"k": "typename", "key": "__typename"}]}]},
        {"op": "probe", "mutation": True, "root": {"m": 3, "a": {"id": "z"}},
         "sels": [{"k": "typename", "key": "__typename"},
                  {"k": "field", "key": "m", "name": "m", "sub": []},
                  {"k": "field", "key": "a", "name": "a", "sub": [{"k": "typename", "key": "__typename"}]}]},
    ]]})
    return out


def _wrapper_shapes(maxd):
    """every wrapper shape (list / non-null, no non-null directly around a
    non-null) up to maxd wrappers, as SDL type text around BASE"""
    shapes = [("BASE", False)]
    out = list(shapes)
    for _ in range(maxd):
        nxt = []
        for text, nn in shapes:
            nxt.append(("[%s]" % text, False))
            if not nn:
                nxt.append((text + "!", True))
        shapes = nxt
        out.extend(shapes)
    return [t for t, _ in out]


def _wrapper_sweep(maxd):
    """one schema whose fields / arguments carry every wrapper shape up to
    maxd wrappers plus chains of 6..10 wrappers (the TypeRef fragment selects 7
    ofType levels)"""
    shapes = _wrapper_shapes(maxd)
    deep = []
    for n in range(6, 11):
        t = "BASE"
        for i in range(n):
            t = "[%s]" % t if i % 3 else (t + "!" if not t.endswith("!") else "[%s]" % t)
        deep.append(t)
    lines = []
    for i, sh in enumerate(shapes + deep):
        lines.append("  w%d(a: %s): %s" % (i, sh.replace("BASE", "In"), sh.replace("BASE", "Leaf")))
    sdl = "input In { x: Int = 1 }\ntype Leaf { v: Int }\ntype Query {\n%s\n}" % "\n".join(lines)
    return {"mode": "sdl_text", "sdl": sdl, "ops": [
        {"op": "intro", "incl": True, "desc": True},
        {"op": "type", "name": "Query", "incl": False, "desc": False}]}


def _history_case(rng, tier, mode):
    """k rounds on ONE Schema object: introspection + targeted __type probes,
    then an in-place edit through the public visitor API; every round is
    compared with the model on a fresh dump of the schema as it is then"""
    from py_gql.exc import SchemaError
    for _attempt in range(6):
        desc = G.gen_desc(rng, big=True)
        case = {"mode": mode, "desc": desc, "order_seed": rng.randint(0, 10 ** 6), "ops": []}
        if mode == "code" and rng.random() < 0.5:
            case["subclass_seed"] = rng.randint(0, 10 ** 6)
        schema = G.build(case)
        try:
            schema.validate()
        except SchemaError:
            continue
        ops = [{"op": "intro", "incl": True, "desc": False}]   # descriptions off: smaller trees
        edits = 0
        for _round in range(2 if tier == "quick" else 4):
            dump = G.dump_schema(schema)
            abstract = [t["name"] for t in dump["types"] if t["kind"] in ("INTERFACE", "UNION")]
            objs = [t["name"] for t in dump["types"] if t["kind"] == "OBJECT" and not t["name"].startswith("__")]
            for n in abstract[:3] + ([rng.choice(objs)] if objs else []):
                ops.append({"op": "type", "name": n, "incl": True, "desc": False})
            edit = G.gen_edit(rng, dump)
            if edit is None:
                break
            try:
                G.apply_edit(schema, edit)
                schema.validate()
            except Exception:  # noqa: the edit made the schema invalid / is not applicable: history ends here
                break
            after = G.dump_schema(schema)
            if G.dangling(after):
                break
            ops.append(dict(edit, op="edit"))
            edits += 1
            touched = [edit.get("type"), edit.get("name")]
            ops.append({"op": "intro", "incl": rng.random() < 0.7, "desc": False})
            for n in [x for x in touched if x] + abstract[:3]:
                ops.append({"op": "type", "name": n, "incl": True, "desc": False})
        if edits:
            case["ops"] = ops
            return case
    return None


def generate(rng, tier):
    import random
    n = 16 if tier == "quick" else 120
    cases = [_wrapper_sweep(4 if tier == "quick" else 6)]
    for i in range(4 if tier == "quick" else 40):
        h = _history_case(random.Random(rng.randint(0, 10 ** 9)), tier, "code" if i % 2 else "sdl")
        if h is not None:
            cases.append(h)
    for i in range(n):
        desc = G.gen_desc(rng, big=(tier != "quick" and i % 5 == 0))
        mode = "sdl" if i % 2 == 0 else "code"
        case = {"mode": mode, "desc": desc, "order_seed": rng.randint(0, 10 ** 6)}
        if mode == "code" and rng.random() < 0.6:
            case["subclass_seed"] = rng.randint(0, 10 ** 6)   # some types are instances of subclasses
        case["ops"] = _ops_for(random.Random(rng.randint(0, 10 ** 9)), case, tier)
        cases.append(case)
        if mode == "code" and i % 4 == 1:
            # the same build under another registry order, same operations
            cases.append(dict(copy.deepcopy(case), order_seed=case["order_seed"] + 1))
    return cases


# --------------------------------------------------------------------------
CONFIGS = [
    ("blocking", BlockingExecutor, BlockingRuntime),
    ("default", Executor, BlockingRuntime),
    ("asyncio", Executor, AsyncIORuntime),
    ("threadpool", Executor, ThreadPoolRuntime),
]


def _op_query(op):
    if op["op"] in ("intro", "intro_disabled"):
        return G.intro_query(op.get("incl", True), op.get("desc", True)), None, op["op"] == "intro_disabled"
    if op["op"] == "type":
        return G.type_query(op["name"], op["incl"], op["desc"]), None, False
    if op["op"] == "probe":
        return G.probe_query(op), op["root"], op["disabled"]
    raise ValueError(op["op"])


_DOCS = {}


def _doc(text):
    if text not in _DOCS:
        if len(_DOCS) > 64:
            _DOCS.clear()
        _DOCS[text] = parse(text)
    return _DOCS[text]


def _execute(schema, text, root, disabled, executor_cls, runtime_cls, primary):
    """primary: the whole pipeline as graphql_blocking drives it (parse,
    validate, execute); secondary configurations: execute() on the parsed
    document, as tests/test_execution/conftest.py drives the runtimes"""
    holder = []
    try:
        def call():
            runtime = runtime_cls()     # AsyncIORuntime needs the running loop
            holder.append(runtime)
            if primary:
                return process_graphql_query(schema, text, root=root, disable_introspection=disabled,
                                             runtime=runtime, executor_cls=executor_cls)
            return execute(schema, _doc(text), initial_value=root, disable_introspection=disabled,
                           runtime=runtime, executor_cls=executor_cls)
        if runtime_cls is AsyncIORuntime:
            async def go():
                r = call()
                return (await r) if isawaitable(r) else r
            res = asyncio.run(go())
        else:
            res = call()
            if isinstance(res, Future):
                res = res.result(timeout=20)
        if res.errors:
            return {"errors": [str(e)[:200] for e in res.errors]}
        return {"data": res.data}
    except Exception as e:  # noqa
        return {"exc": type(e).__name__, "msg": str(e)[:200]}
    finally:
        for runtime in holder:
            inner = getattr(runtime, "_inner", None)
            if inner is not None:
                inner.shutdown(wait=False)


def _unwrap(t):
    while isinstance(t, (ListType, NonNullType)):
        t = t.type
    return t


def _strings_in(v):
    if isinstance(v, str):
        yield v
    elif isinstance(v, (list, tuple)):
        for x in v:
            yield from _strings_in(x)
    elif isinstance(v, dict):
        for x in v.values():
            yield from _strings_in(x)


def _needs_escape(s):
    return any(c in '"\\' or (ord(c) < 0x20 and c != "\t") for c in s)


def _reparse_class(iv):
    base = _unwrap(iv.type)
    dv = iv.default_value
    if dv is None:
        return None
    if isinstance(base, EnumType):
        return FINDINGS["enum"]
    if isinstance(base, InputObjectType):
        return FINDINGS["input"]
    if isinstance(base, ScalarType):
        if isinstance(dv, str) and _needs_escape(dv):
            return FINDINGS["string"]
        if isinstance(dv, (list, tuple)) and any(any(ord(c) > 0xFFFF for c in s) for s in _strings_in(dv)):
            return FINDINGS["astral"]
    return None


def _reparse(schema, intro_data, guard=None):
    """every reported defaultValue must parse (parse_value) and coerce
    (value_from_ast) back to the declared default; [guard] collects
    [type ref, declared default, parsed back?] for every declared default"""
    out = []
    guard = [] if guard is None else guard
    types = {t["name"]: t for t in intro_data["__schema"]["types"]}
    dirs = {d["name"]: d for d in intro_data["__schema"]["directives"]}

    def check(where, iv, reported):
        rep = {x["name"]: x for x in reported}.get(iv.name)
        if rep is None:
            out.append({"where": where, "problem": "not-reported", "finding": None})
            return
        text = rep["defaultValue"]
        if not iv.has_default_value:
            if text is not None:
                out.append({"where": where, "problem": "default-reported-but-none-declared", "text": text,
                            "finding": None})
            return
        if text is None:
            out.append({"where": where, "problem": "declared-default-not-reported", "finding": None})
            return
        try:
            back = value_from_ast(parse_value(text), iv.type)
            ok = back == iv.default_value and type(back) == type(iv.default_value)
            problem = None if ok else "parses-to-a-different-value"
        except Exception as e:  # noqa
            ok, problem = False, "does-not-parse-back: " + type(e).__name__
        guard.append([G.dump_ref(iv.type), G._jsonable(iv.default_value), bool(ok)])
        if not ok:
            out.append({"where": where, "problem": problem, "text": text,
                        "declared": G._jsonable(iv.default_value), "finding": _reparse_class(iv)})

    for name, t in schema.types.items():
        rt = types.get(name)
        if rt is None:
            out.append({"where": name, "problem": "type-not-reported", "finding": None})
            continue
        if isinstance(t, InputObjectType):
            for f in t.fields:
                check("%s.%s" % (name, f.name), f, rt["inputFields"] or [])
        elif isinstance(t, (ObjectType, InterfaceType)):
            rfields = {x["name"]: x for x in (rt["fields"] or [])}
            for f in t.fields:
                for a in f.arguments:
                    check("%s.%s(%s:)" % (name, f.name, a.name), a, rfields.get(f.name, {}).get("args", []))
    for name, d in schema.directives.items():
        for a in d.arguments:
            check("@%s(%s:)" % (name, a.name), a, dirs.get(name, {}).get("args", []))
    return out


def _decode_ref(d):
    """read a TypeRef answer back; None when the chain is cut off"""
    if not isinstance(d, dict):
        return None
    if d.get("kind") in ("LIST", "NON_NULL"):
        inner = _decode_ref(d.get("ofType")) if "ofType" in d else None
        return None if inner is None else ["L" if d["kind"] == "LIST" else "NN", inner]
    return ["N", d.get("name")] if isinstance(d.get("name"), str) else None


def _depth(t):
    return 0 if t[0] == "N" else 1 + _depth(t[1])


def _typerefs(dump, data):
    """every reported type reference must read back as the declared one"""
    out = []
    rtypes = {t["name"]: t for t in data["__schema"]["types"]}
    rdirs = {d["name"]: d for d in data["__schema"]["directives"]}

    def check(where, declared, reported):
        if reported is None or _decode_ref(reported.get("type")) != declared:
            out.append({"where": where, "declared": declared,
                        "finding": FINDINGS["deep"] if _depth(declared) > 7 else None})

    def by_name(l):
        return {x["name"]: x for x in (l or [])}

    for t in dump["types"]:
        rt = rtypes.get(t["name"], {})
        rf = by_name(rt.get("fields"))
        for f in t.get("fields", []):
            check("%s.%s" % (t["name"], f["name"]), f["type"], rf.get(f["name"]))
            ra = by_name(rf.get(f["name"], {}).get("args"))
            for a in f["args"]:
                check("%s.%s(%s:)" % (t["name"], f["name"], a["name"]), a["type"], ra.get(a["name"]))
        ri = by_name(rt.get("inputFields"))
        for iv in t.get("inputs", []):
            check("%s.%s" % (t["name"], iv["name"]), iv["type"], ri.get(iv["name"]))
    for d in dump["directives"]:
        ra = by_name(rdirs.get(d["name"], {}).get("args"))
        for a in d["args"]:
            check("@%s(%s:)" % (d["name"], a["name"]), a["type"], ra.get(a["name"]))
    return out


def _lit_json(node):
    from py_gql.lang import ast as A
    if isinstance(node, A.NullValue):
        return ["N"]
    if isinstance(node, A.BooleanValue):
        return ["B", bool(node.value)]
    if isinstance(node, A.IntValue):
        return ["I", int(node.value)]
    if isinstance(node, A.FloatValue):
        return ["F", node.value]
    if isinstance(node, A.StringValue):
        return ["S", node.value]
    if isinstance(node, A.EnumValue):
        return ["E", node.value]
    if isinstance(node, A.ListValue):
        return ["L", [_lit_json(x) for x in node.values]]
    if isinstance(node, A.ObjectValue):
        return ["O", [[f.name.value, _lit_json(f.value)] for f in node.fields]]
    raise TypeError(repr(node))


def _clit(j):
    k = j[0]
    if k == "N":
        return "LNull"
    if k == "B":
        return "(LBool %s)" % ser.cbool(j[1])
    if k == "I":
        return "(LInt %s)" % ser.cz(j[1])
    if k in ("F", "S", "E"):
        return "(%s %s)" % ({"F": "LFloat", "S": "LStr", "E": "LEnum"}[k], ser.cstr(j[1]))
    if k == "L":
        return "(LList %s)" % ser.clist(j[1], _clit)
    return "(LObj %s)" % ser.clist(j[1], lambda kv: "(%s, %s)" % (ser.cstr(kv[0]), _clit(kv[1])))


def _default_texts(data):
    out = []

    def walk(v):
        if isinstance(v, dict):
            for k, x in v.items():
                if k == "defaultValue" and isinstance(x, str) and x not in out:
                    out.append(x)
                else:
                    walk(x)
        elif isinstance(v, list):
            for x in v:
                walk(x)
    walk(data)
    return out


def _parses(data):
    """[text, literal or None] for every distinct reported defaultValue"""
    from py_gql.exc import GraphQLSyntaxError
    out = []
    for text in _default_texts(data):
        try:
            node = parse_value(text)
            if getattr(node, "block", False):
                continue        # block strings are not read by the Spec's reader
            out.append([text, _lit_json(node)])
        except GraphQLSyntaxError:
            out.append([text, None])
    return out


def run_impl(case):
    schema = G.build(case)
    dumps = [G.dump_schema(schema)]
    results, diffs = [], []
    for i, op in enumerate(case["ops"]):
        if op["op"] == "edit":
            # in place, on the one Schema object of this case
            G.apply_edit(schema, op)
            dumps.append(G.dump_schema(schema))
            results.append({"edit": True, "dangling": G.dangling(dumps[-1])})
            continue
        text, root, disabled = _op_query(op)
        # every operation: the primary pipeline plus secondary configurations -- all three for the
        # first two operations and every probe, one (rotating) for the others
        if i < 2 or op["op"] == "probe":
            configs = CONFIGS
        else:
            configs = [CONFIGS[0], CONFIGS[1 + i % 3]]
        per = []
        for k, (name, ex, rt) in enumerate(configs):
            per.append(_execute(schema, text, copy.deepcopy(root), disabled, ex, rt, k == 0))
        results.append(per[0])
        for (name, _e, _r), r in zip(configs[1:], per[1:]):
            if json.dumps(r, default=str) != json.dumps(per[0], default=str):
                diffs.append({"op": i, "config": name, "result": json.loads(json.dumps(r, default=str))})
    obs = {"dump": dumps[0], "dumps": dumps, "results": results, "runtime_diffs": diffs, "reparse": [],
           "parses": [], "typerefs": [], "guard": []}
    first = results[0] if case["ops"] and case["ops"][0] == {"op": "intro", "incl": True, "desc": True} else None
    if first is not None and "data" in first and "errors" not in first:
        # (computed on the schema object after the whole history for history cases: only when no edit)
        if len(dumps) == 1:
            obs["reparse"] = _reparse(schema, first["data"], obs["guard"])
        obs["parses"] = _parses(first["data"])
        obs["typerefs"] = _typerefs(dumps[0], first["data"])
    return obs


def _data_term(r):
    if "exc" in r:
        return "(PStr %s)" % ser.cstr("<<exception " + r["exc"] + ">>")
    if "errors" in r:
        return "(PStr %s)" % ser.cstr("<<errors>>")
    return ser.cpv(r["data"])


def _obs_term(op, r):
    d = _data_term(r)
    if op["op"] == "intro":
        return "(OIntro %s %s)" % (G.cflags(op["incl"] is True, op["desc"]), d)
    if op["op"] == "intro_disabled":
        return "(OIntroDisabled %s)" % d
    if op["op"] == "type":
        return "(OType %s %s %s)" % (G.cflags(op["incl"] is True, op["desc"]), ser.cstr(op["name"]), d)
    if op["op"] == "edit":
        return "OEdit"
    return "(OProbe %s %s %s %s %s)" % (ser.cbool(op["disabled"]), ser.cbool(op["mutation"]),
                                        ser.cpv(op["root"]), ser.clist(op["sels"], G.cpsel), d)


def to_coq(case, obs):
    """segments (dump, observations) split at the edits; the extra
    observations about the first answer come last, with the first dump, so that
    positions in the flattened list are positions in case["ops"]"""
    dumps = obs.get("dumps") or [obs["dump"]]
    segs, cur, k = [], [], 0
    for op, r in zip(case["ops"], obs["results"]):
        if op["op"] == "edit":
            cur.append("OEdit")
            segs.append((dumps[k], cur))
            cur, k = [], k + 1
        else:
            cur.append(_obs_term(op, r))
    segs.append((dumps[k], cur))
    extra = ["(OParse %s %s)" % (ser.cstr(text), ser.copt(j, _clit)) for text, j in obs.get("parses", [])]
    extra += ["(OGuard %s %s %s)" % (G.cref(t), ser.cpv(v), ser.cbool(ok)) for t, v, ok in obs.get("guard", [])]
    if extra:
        segs.append((dumps[0], extra))
    return ser.clist(segs, lambda s: "(%s, %s)" % (G.cschema(s[0]), ser.clist(s[1], lambda x: x)))


def show_expr(case, obs):
    return "bad_obs %s" % to_coq(case, obs)


def nontrivial(case, obs):
    d = obs["dump"]
    user = [t for t in d["types"] if not t["name"].startswith("__")]
    has_default = any(a["has_default"] for t in user for f in t.get("fields", []) for a in f["args"]) or any(
        iv["has_default"] for t in user for iv in t.get("inputs", []))
    has_dep = any(f["deprecated"] for t in user for f in t.get("fields", [])) or any(
        v["deprecated"] for t in user for v in t.get("values", []))
    has_abs = any(t["kind"] in ("INTERFACE", "UNION") for t in user) or len(d["directives"]) > 3
    return has_default and has_dep and has_abs and all("data" in r or "edit" in r for r in obs["results"])


def canonical(case):
    return json.dumps(case, sort_keys=True, default=str)


def classify(case, obs):
    return "response-tree-equals-model", None


def direct_checks(case, obs):
    out = []
    for d in obs["runtime_diffs"]:
        out.append(("runtime-independent: op %d differs under %s" % (d["op"], d["config"]), None))
    for r in obs["reparse"]:
        out.append(("default-value-parses-back: %s %s" % (r["where"], r["problem"]), r["finding"]))
    for i, r in enumerate(obs["results"]):
        if r.get("edit") and r.get("dangling"):
            out.append(("in-place edit left a reference to a type that is no longer registered (op %d: %s)"
                        % (i, r["dangling"]), None))
    for r in obs.get("typerefs", []):
        out.append(("type-reference-reads-back: %s" % r["where"], r["finding"]))
    return out


def _open_keys():
    return {k["id"] for k in common.load_known() if k["property"] == PROP and k["status"] == "open"}


def _bad_ops(case):
    """indices of the operations on which implementation and model disagree,
    plus whether an unexplained direct violation exists (None when the case
    no longer runs)"""
    try:
        o = run_impl(case)
    except Exception:  # noqa
        return None
    keys = _open_keys()
    direct = any(k is None or k not in keys for _c, k in direct_checks(case, o))
    out = common.coq_show(RUN_MODULE, show_expr(case, o))
    m = re.search(r"=\s*(\[[^\]]*\]|nil)", out.replace("\n", " "))
    if not m:
        return None
    idx = [int(x) for x in re.findall(r"\d+", m.group(1))]
    return idx, direct


def shrink(case, is_bad):
    """keep only the disagreeing operations, then drop types / directives of
    the description while a disagreement persists (a candidate that no longer
    builds is not bad). The runner's is_bad also fires on known findings, so
    the module's own predicate is used."""
    cur = copy.deepcopy(case)
    r = _bad_ops(cur)
    if not r:
        return cur
    idx, direct = r
    idx = [i for i in idx if i < len(cur["ops"])]
    if idx and not direct:
        if any(o["op"] == "edit" for o in cur["ops"]):
            # a history: the failure may need the earlier rounds; try the edits + failing ops, then the
            # prefix up to the first failing op, and keep whichever still disagrees
            a = dict(cur, ops=[o for i, o in enumerate(cur["ops"]) if (o["op"] == "edit" and i < idx[0]) or i in idx[:1]])
            b = dict(cur, ops=cur["ops"][:idx[0] + 1])
            for cand in (a, b):
                rr = _bad_ops(cand)
                if rr and rr[0]:
                    cur = copy.deepcopy(cand)
                    break
            return cur
        cur["ops"] = [cur["ops"][i] for i in idx[:2]]
    budget = 10
    if "desc" in cur:
        for key in ("directives", "types"):
            i = len(cur["desc"][key]) - 1
            while i >= 0 and budget > 0:
                cand = copy.deepcopy(cur)
                del cand["desc"][key][i]
                budget -= 1
                rr = _bad_ops(cand)
                if rr and (rr[0] or rr[1]):
                    cur = cand
                i -= 1
    return cur


def extra_evidence(cases, obss):
    kinds, modes, ops = {}, {}, {}
    defaults = {"enum": 0, "input": 0, "string_escape": 0, "list": 0, "scalar": 0, "null": 0}
    deprecated = {"fields": 0, "enum_values": 0, "empty_reason": 0}
    deep = 0
    for c, o in zip(cases, obss):
        modes[c["mode"]] = modes.get(c["mode"], 0) + 1
        for op in c["ops"]:
            k = (op["op"] + ":" + op["edit"]) if op["op"] == "edit" else op["op"] + ("/disabled" if op.get("disabled") else "")
            ops[k] = ops.get(k, 0) + 1
        byname = {t["name"]: t for t in o["dump"]["types"]}

        def depth(t):
            return 0 if t[0] == "N" else 1 + depth(t[1])

        def count_iv(iv):
            nonlocal deep
            if depth(iv["type"]) > 7:
                deep += 1
            if not iv["has_default"]:
                return
            base = byname.get(G._base(iv["type"]), {}).get("kind")
            v = iv["default"]
            if v is None:
                defaults["null"] += 1
            elif base == "ENUM":
                defaults["enum"] += 1
            elif base == "INPUT_OBJECT":
                defaults["input"] += 1
            elif isinstance(v, str) and _needs_escape(v):
                defaults["string_escape"] += 1
            elif isinstance(v, list):
                defaults["list"] += 1
            else:
                defaults["scalar"] += 1

        for t in o["dump"]["types"]:
            if t["name"].startswith("__"):
                continue
            kinds[t["kind"]] = kinds.get(t["kind"], 0) + 1
            for f in t.get("fields", []):
                if depth(f["type"]) > 7:
                    deep += 1
                deprecated["fields"] += bool(f["deprecated"])
                deprecated["empty_reason"] += f["reason"] == ""
                for a in f["args"]:
                    count_iv(a)
            for iv in t.get("inputs", []):
                count_iv(iv)
            for v in t.get("values", []):
                deprecated["enum_values"] += bool(v["deprecated"])
                deprecated["empty_reason"] += v["reason"] == ""
        for d in o["dump"]["directives"]:
            for a in d["args"]:
                count_iv(a)
    return {"distribution": {
        "build_modes": modes, "operations": ops, "user_type_kinds": kinds, "defaults_by_class": defaults,
        "deprecated": deprecated, "type_refs_deeper_than_7": deep,
        "reparse_failures_by_finding": _count([r["finding"] for o in obss for r in o["reparse"]]),
        "declared_defaults_checked_against_guard": sum(len(o.get("guard", [])) for o in obss),
        "declared_defaults_parsed_back": sum(1 for o in obss for g in o.get("guard", []) if g[2]),
        "type_refs_not_read_back_by_finding": _count([r["finding"] for o in obss for r in o.get("typerefs", [])]),
        "default_texts_parsed_by_both_readers": sum(len(o.get("parses", [])) for o in obss),
        "default_texts_rejected_by_parse_value": sum(1 for o in obss for p in o.get("parses", []) if p[1] is None),
        "code_built_with_subclassed_type_classes": sum(1 for c in cases if c.get("subclass_seed") is not None
                                                       or c.get("special") == "subclassed"),
        "runtime_configs": [c[0] for c in CONFIGS],
    }}


def _count(xs):
    out = {}
    for x in xs:
        out[str(x)] = out.get(str(x), 0) + 1
    return out
