# -*- coding: utf-8 -*-
"""C12 -- schema -> SDL -> schema is the identity; printing is history-independent."""
import os
from .. import gen_sdl, sdl_impl, ser, ser_sdl

PROP = "C12"
THEOREMS = ["C12_default_roundtrip_partial", "C12_description_roundtrip_partial",
            "C12_members_roundtrip_partial", "C12_pure"]
AXIOMS_OK = []
RUN_MODULE = "Run.C12run Schema.SdlPrint Spec.SdlRoundtripSpec"
AGREE = "agree_C12"
CASE_TYPE = "case_C12"
SHARD = 25
LEVEL_NOTE = ("Theorems are about the Gallina model Schema/SdlPrint.v of sdl/ast_schema_printer.py, "
              "utilities/ast_node_from_value.py, the value printer of lang/printer.py and "
              "_string_utils.wrapped_lines (+ Schema/SdlBuild.v for the way back); tied to /repo by comparing "
              "Schema.to_string with the model's text on every run, re-parsing and re-building the text, and "
              "replaying call histories. The text-level round trip rests on this correspondence until the "
              "parser model (C01) is composed with it.")
RULE = ("SDL-built and code-built schemas from harness/gen_sdl.py (internal enum values, python names, "
        "defaults of every input kind, descriptions incl. re-wrapped ones, deprecations, custom directives), "
        "all printer options (indent int/str, descriptions, introspection, custom directives off/all/list), "
        "call histories of length 1..6 over 1..2 schemas in a process with fresh module state; "
        "non-trivial = history longer than one call or non-default options; distinct = distinct (sources, history)")

DEFAULT = {"indent": 4, "descriptions": True, "introspection": False, "custom": False}


def _opts(**kw):
    o = dict(DEFAULT)
    o.update(kw)
    return o


def _case(schemas, steps, label="gen"):
    return {"schemas": schemas, "steps": steps, "label": label, "reset": True}


def _sdl(text):
    return {"sdl": text}


ROW40_SPEC = {
    "types": [
        {"kind": "input", "name": "I", "desc": None, "dirs": [], "fields": [
            {"name": "fooBar", "desc": None, "type": "Int", "default": None, "dirs": []}]},
        {"kind": "object", "name": "Query", "desc": None, "dirs": [], "ifaces": [], "fields": [
            {"name": "a", "desc": None, "type": "Int", "dep": None, "dirs": [], "args": [
                {"name": "i", "desc": None, "type": "I", "dirs": [],
                 "default": {"k": "obj", "v": [["fooBar", {"k": "int", "v": "1"}]]}}]}]}],
    "directives": [], "roots": {"query": "Query"}, "explicit_schema": False, "schema_dirs": []}


def corpus():
    out = []
    all_custom = _opts(custom=True)
    # row 30: @deprecated printed twice once the module-level generator is exhausted
    s30 = _sdl('directive @foo on FIELD_DEFINITION\ntype Query { a: Int @foo @deprecated\n'
               '  b: Int @deprecated(reason: "x") @foo\n  c: Int @deprecated }')
    out.append(_case([s30], [[0, all_custom]], "row30"))
    out.append(_case([s30], [[0, all_custom], [0, all_custom], [0, DEFAULT], [0, all_custom]], "row30"))
    out.append(_case([s30], [[0, _opts(custom=["foo"])], [0, all_custom], [0, _opts(custom=["foo"])]], "row30"))
    # row 31: numeric-looking strings of custom scalars
    out.append(_case([_sdl('scalar S\ntype Query { a(x: S = "1.50", y: S = "nan", w: S = "1e3", v: S = " 5", '
                           'u: S = "-0.0e-5", t: S = "1.", i: S = "Infinity", k: S = "12", m: S = "007"): Int }')],
                     [[0, DEFAULT]], "row31"))
    # row 40: input object defaults keyed by python_name
    out.append(_case([{"code": ROW40_SPEC}], [[0, DEFAULT]], "row40"))
    # default root names that are not roots (C12-04)
    out.append(_case([_sdl("schema { query: Query }\ntype Query { a: Int }\ntype Mutation { b: Int }")],
                     [[0, DEFAULT]], "default-root-names"))
    out.append(_case([_sdl("schema { query: Q subscription: Query }\ntype Q { a: Int }\ntype Query { b: Int }\n"
                           "type Subscription { c: Int }")], [[0, DEFAULT]], "default-root-names"))
    # empty deprecation reason (C12-05)
    out.append(_case([_sdl('type Query { a: Int @deprecated(reason: "") }\nenum E { A @deprecated(reason: "") }')],
                     [[0, DEFAULT], [0, all_custom]], "empty-reason"))
    # printer layout
    kitchen = _sdl('''
directive @foo("d" a: Int = 1, b: String) on FIELD_DEFINITION | OBJECT | ENUM | ENUM_VALUE | INPUT_OBJECT | INPUT_FIELD_DEFINITION | ARGUMENT_DEFINITION | SCHEMA | SCALAR | UNION | INTERFACE
schema @foo(a: 3) { query: Query }
extend schema @foo(b: "ext")
"""schema type"""
type Query implements Node & Named @foo(a: 2) {
  "field desc"
  a("arg desc" x: Int = 1 @foo, y: [String!] = ["a", "b\\n"]): Int @deprecated @foo(b: "x")
  b(z: Int, w: I = {x: 2, l: [1.5, 2]}): Int
  id: ID!
  name: String
}
interface Node @foo { id: ID! }
interface Named { "n" name: String }
union U @foo = Query
scalar Date @foo(b: "s")
enum E @foo { "v" A @foo B @deprecated(reason: "r") C @deprecated }
input I @foo { "f" x: Int = 1 @foo y: E = A l: [Float] = 1 d: Date = "2020-01-01" n: I }
''')
    for o in (DEFAULT, all_custom, _opts(indent="\t", custom=["foo"]), _opts(indent=0, descriptions=False),
              _opts(introspection=True), _opts(indent=2, custom=[]), _opts(indent="  ", introspection=True, custom=True)):
        out.append(_case([kitchen], [[0, o]], "kitchen"))
    descs = _sdl('"""\nfirst\n  indented\nlast\n"""\ntype Query {\n  "ends with quote\\""\n  a: Int\n  "  leading ws"\n  b: Int\n'
                 '  "%s"\n  c: Int\n  "%s"\n  d(\n    "%s"\n    x: Int): Int\n  "triple \\"\\"\\" quote"\n  e: Int\n}'
                 % ("word " * 40, "noboundary" * 14, "a-b_c " * 25))
    for o in (DEFAULT, _opts(indent=8), _opts(indent="\t\t")):
        out.append(_case([descs], [[0, o]], "descriptions"))
    out.append(_case([_sdl("type Query { a: Int }")], [[0, _opts(introspection=True)], [0, DEFAULT]], "introspection"))
    return out


def _rand_opts(rng):
    r = rng
    return {"indent": r.choice([4, 4, 2, 0, 8, "\t", "  ", " "]),
            "descriptions": r.random() < 0.75,
            "introspection": r.random() < 0.12,
            "custom": r.choice([False, False, True, True, ["tag"], ["auth", "length"], []])}


def _source(rng):
    g = gen_sdl.Gen(rng, c12=True)
    spec = g.schema()
    if rng.random() < 0.4:
        return {"code": spec, "pynames": rng.random() < 0.8, "internal": rng.random() < 0.8}
    text, _ = gen_sdl.render(spec, rng, split=rng.random() < 0.5)
    return {"sdl": text}


def generate(rng, tier):
    n = 150 if tier == "quick" else 1800
    cases = []
    for i in range(n):
        schemas = [_source(rng)]
        if rng.random() < 0.3:
            schemas.append(_source(rng))
        if i % 3 == 0:
            steps = [[0, _rand_opts(rng) if rng.random() < 0.7 else dict(DEFAULT)]]
        else:
            pool = [_rand_opts(rng) for _ in range(rng.randint(1, 3))] + [dict(DEFAULT)]
            steps = [[rng.randrange(len(schemas)), rng.choice(pool)] for _ in range(rng.randint(2, 6))]
        cases.append(_case(schemas, steps))
    return cases


def run_impl(case):
    o = sdl_impl.call({"op": "c12", "case": case}, timeout=120)
    if "harness_error" in o:
        raise RuntimeError(o["harness_error"])
    if "dumps" not in o:
        raise RuntimeError("worker failure: %r" % (o,))
    return o


def _copts(o):
    ind = o["indent"]
    ind = " " * ind if isinstance(ind, int) else ind
    c = o["custom"]
    if c is True:
        cc = "CustomAll"
    elif c is False:
        cc = "CustomOff"
    else:
        cc = "(CustomOnly %s)" % ser.clist(c, ser.cstr)
    return "(POpts %s %s %s %s)" % (ser.cstr(ind), ser.cbool(o["descriptions"]), ser.cbool(o["introspection"]), cc)


def to_coq(case, obs):
    steps = []
    for (idx, opts), st in zip(case["steps"], obs["steps"]):
        ob = "(ObsText %s)" % ser.cstr(st["text"]) if "text" in st else "ObsFailed"
        steps.append("(%s, %s, %s)" % (ser.cnat(idx), _copts(opts), ob))
    return "(%s, [%s])" % (ser.clist(obs["dumps"], ser_sdl.cschema), "; ".join(steps))


def show_expr(case, obs):
    return "show_C12 %s" % to_coq(case, obs)


def nontrivial(case, obs):
    return len(case["steps"]) > 1 or any(o != DEFAULT for _, o in case["steps"])


def canonical(case):
    return repr((case["schemas"], case["steps"]))


def classify(case, obs):
    return "printed-text-is-the-function-of-schema-and-options", None


def direct_checks(case, obs):
    out = []
    for c in obs.get("checks", []):
        out.append((c, None))
    for st in obs["steps"]:
        if "text" not in st:
            out.append(("to_string-raises: %s" % st.get("type", st.get("exc")), None))
    return out


def shrink(case, is_bad):
    if os.environ.get("VERIF_NO_SHRINK"):
        return case
    steps = case["steps"]
    changed = True
    while changed and len(steps) > 1:
        changed = False
        for i in range(len(steps)):
            cand = dict(case, steps=steps[:i] + steps[i + 1:])
            if is_bad(cand):
                steps = cand["steps"]
                changed = True
                break
    case = dict(case, steps=steps)
    # drop blocks of SDL sources
    for si, src in enumerate(case["schemas"]):
        if "sdl" not in src:
            continue
        blocks = src["sdl"].rstrip("\n").split("\n\n")
        changed = True
        while changed and len(blocks) > 1:
            changed = False
            for i in range(len(blocks)):
                text = "\n\n".join(blocks[:i] + blocks[i + 1:]) + "\n"
                schemas = list(case["schemas"])
                schemas[si] = dict(src, sdl=text)
                cand = dict(case, schemas=schemas)
                if is_bad(cand):
                    blocks = blocks[:i] + blocks[i + 1:]
                    case = cand
                    changed = True
                    break
    return case


def extra_evidence(cases, obss):
    hist = {}
    code = sdl = intro = custom = nodesc = 0
    for c in cases:
        hist[len(c["steps"])] = hist.get(len(c["steps"]), 0) + 1
        code += sum(1 for s in c["schemas"] if "code" in s)
        sdl += sum(1 for s in c["schemas"] if "sdl" in s)
        intro += sum(1 for _, o in c["steps"] if o["introspection"])
        custom += sum(1 for _, o in c["steps"] if o["custom"])
        nodesc += sum(1 for _, o in c["steps"] if not o["descriptions"])
    return {"distribution": {"history_lengths": hist, "code_built_schemas": code, "sdl_built_schemas": sdl,
                             "steps_with_introspection": intro, "steps_with_custom_directives": custom,
                             "steps_without_descriptions": nodesc,
                             "direct_check_failures": sum(len(o.get("checks", [])) for o in obss)}}
