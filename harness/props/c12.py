# -*- coding: utf-8 -*-
"""C12 -- schema -> SDL -> schema is the identity; printing is history-independent."""
import os
import re
from .. import gen_sdl, sdl_impl, ser, ser_sdl

PROP = "C12"
THEOREMS = ["C12_default_roundtrip_partial", "C12_description_roundtrip_partial",
            "C12_members_roundtrip_partial", "C12_pure", "C12_custom_int_roundtrip",
            "C12_members_roundtrip_refuted", "C12_description_roundtrip_block",
            "C12_members_roundtrip_kinds", "C12_directive_roundtrip", "C12_text_roundtrip_type_references",
            "C12_text_is_ast_print_partial", "C12_text_parse_partial", "C12_members_roundtrip_document",
            "C12_text_roundtrip_partial", "C12_fixpoint_partial", "C12_fixpoint_declares_again",
            "C12_document_rules_ok", "C12_members_roundtrip_guarded", "C12_default_literal_plain",
            "C12_no_defaults_guard", "C12_text_schema_is_desc_schema", "C12_description_lexes",
            "C12_description_class_single_line", "C12_description_class_block", "C12_desc_schema_is_full_schema",
            "C12_description_lexes_escaped", "C12_description_escaped_scan", "C12_description_class_single_line_quotes",
            "C12_description_class_block_quotes"]
AXIOMS_OK = []
RUN_MODULE = "Run.C12run Schema.SdlPrint Spec.SdlRoundtripSpec"
AGREE = "agree_C12"
CASE_TYPE = "case_C12"
SHARD = 25
LEVEL_NOTE = ("Theorems are about the Gallina model Schema/SdlPrint.v of sdl/ast_schema_printer.py, "
              "utilities/ast_node_from_value.py, the value printer of lang/printer.py and "
              "_string_utils.wrapped_lines (+ Schema/SdlBuild.v for the way back); tied to /repo by comparing "
              "Schema.to_string with the model's text on every run, re-parsing and re-building the text, and "
              "replaying call histories. The text-level round trip rests on this correspondence until the "
              "parser model (C01) is composed with it.")
RULE = ("SDL-built and code-built schemas from harness/gen_sdl.py (internal enum values, python names, "
        "defaults of every input kind, descriptions incl. re-wrapped ones, deprecations, custom directives), "
        "all printer options (indent int/str, descriptions, introspection, custom directives off/all/list), "
        "call histories of length 1..6 over 1..2 schemas in a process with fresh module state; plus an "
        "options-matrix stream: 3..6 calls with every option (indent 0/1/2/4/8/tab/spaces, descriptions, "
        "introspection, custom directives) drawn independently per call; plus schemas "
        "whose custom scalars / String / ID carry ==-equal defaults of different Python types (True/1/1.0, "
        "False/0/0.0, also in lists and input objects), within one schema and across schemas sharing the "
        "scalar objects printed in sequence; "
        "non-trivial = history longer than one call or non-default options; distinct = distinct (sources, history)")

DEFAULT = {"indent": 4, "descriptions": True, "introspection": False, "custom": False}


def _opts(**kw):
    o = dict(DEFAULT)
    o.update(kw)
    return o


def _case(schemas, steps, label="gen"):
    return {"schemas": schemas, "steps": steps, "label": label, "reset": True}


def _sdl(text):
    return {"sdl": text}


ROW40_SPEC = {
    "types": [
        {"kind": "input", "name": "I", "desc": None, "dirs": [], "fields": [
            {"name": "fooBar", "desc": None, "type": "Int", "default": None, "dirs": []}]},
        {"kind": "object", "name": "Query", "desc": None, "dirs": [], "ifaces": [], "fields": [
            {"name": "a", "desc": None, "type": "Int", "dep": None, "dirs": [], "args": [
                {"name": "i", "desc": None, "type": "I", "dirs": [],
                 "default": {"k": "obj", "v": [["fooBar", {"k": "int", "v": "1"}]]}}]}]}],
    "directives": [], "roots": {"query": "Query"}, "explicit_schema": False, "schema_dirs": []}


def corpus():
    out = []
    all_custom = _opts(custom=True)
    # row 30: @deprecated printed twice once the module-level generator is exhausted
    s30 = _sdl('directive @foo on FIELD_DEFINITION\ntype Query { a: Int @foo @deprecated\n'
               '  b: Int @deprecated(reason: "x") @foo\n  c: Int @deprecated }')
    out.append(_case([s30], [[0, all_custom]], "row30"))
    out.append(_case([s30], [[0, all_custom], [0, all_custom], [0, DEFAULT], [0, all_custom]], "row30"))
    out.append(_case([s30], [[0, _opts(custom=["foo"])], [0, all_custom], [0, _opts(custom=["foo"])]], "row30"))
    # row 31 (C12-02): strings float() accepts but that are not number literals stay strings
    out.append(_case([_sdl('scalar S\ntype Query { a(y: S = "nan", v: S = " 5", t: S = "1.", i: S = "Infinity", '
                           'm: S = "007", n: S = 12, f: S = 1.50, l: [S!] = [1, "a", true, 2.5]): Int }')],
                     [[0, DEFAULT]], "row31"))
    # open finding: a string default of a custom scalar whose text is a number literal
    out.append(_case([_sdl('scalar S\ntype Query { a(x: S = "1.50"): Int }')], [[0, DEFAULT]],
                     "custom-scalar-numeric-string-default"))
    out.append(_case([_sdl('scalar S\ninput I { s: [S] = ["12", "abc"] }\ntype Query { a(i: I = {s: "1e3"}, '
                           'u: S = "-0.0e-5"): Int }')], [[0, DEFAULT], [0, _opts(indent=2)]],
                     "custom-scalar-numeric-string-default"))
    # row 40: input object defaults keyed by python_name
    out.append(_case([{"code": ROW40_SPEC}], [[0, DEFAULT]], "row40"))
    # default root names that are not roots (C12-04)
    out.append(_case([_sdl("schema { query: Query }\ntype Query { a: Int }\ntype Mutation { b: Int }")],
                     [[0, DEFAULT]], "default-root-names"))
    out.append(_case([_sdl("schema { query: Q subscription: Query }\ntype Q { a: Int }\ntype Query { b: Int }\n"
                           "type Subscription { c: Int }")], [[0, DEFAULT]], "default-root-names"))
    # empty deprecation reason (C12-05)
    out.append(_case([_sdl('type Query { a: Int @deprecated(reason: "") }\nenum E { A @deprecated(reason: "") }')],
                     [[0, DEFAULT], [0, all_custom]], "empty-reason"))
    # printer layout
    kitchen = _sdl('''
directive @foo("d" a: Int = 1, b: String) on FIELD_DEFINITION | OBJECT | ENUM | ENUM_VALUE | INPUT_OBJECT | INPUT_FIELD_DEFINITION | ARGUMENT_DEFINITION | SCHEMA | SCALAR | UNION | INTERFACE
schema @foo(a: 3) { query: Query }
extend schema @foo(b: "ext")
"""schema type"""
type Query implements Node & Named @foo(a: 2) {
  "field desc"
  a("arg desc" x: Int = 1 @foo, y: [String!] = ["a", "b\\n"]): Int @deprecated @foo(b: "x")
  b(z: Int, w: I = {x: 2, l: [1.5, 2]}): Int
  id: ID!
  name: String
}
interface Node @foo { id: ID! }
interface Named { "n" name: String }
union U @foo = Query
scalar Date @foo(b: "s")
enum E @foo { "v" A @foo B @deprecated(reason: "r") C @deprecated }
input I @foo { "f" x: Int = 1 @foo y: E = A l: [Float] = 1 d: Date = "2020-01-01" n: I }
''')
    for o in (DEFAULT, all_custom, _opts(indent="\t", custom=["foo"]), _opts(indent=0, descriptions=False),
              _opts(introspection=True), _opts(indent=2, custom=[]), _opts(indent="  ", introspection=True, custom=True)):
        out.append(_case([kitchen], [[0, o]], "kitchen"))
    descs = _sdl('"""\nfirst\n  indented\nlast\n"""\ntype Query {\n  "ends with quote\\""\n  a: Int\n  "  leading ws"\n  b: Int\n'
                 '  "%s"\n  c: Int\n  "%s"\n  d(\n    "%s"\n    x: Int): Int\n  "triple \\"\\"\\" quote"\n  e: Int\n}'
                 % ("word " * 40, "noboundary" * 14, "a-b_c " * 25))
    for o in (DEFAULT, _opts(indent=8), _opts(indent="\t\t")):
        out.append(_case([descs], [[0, o]], "descriptions"))
    out.append(_case([_sdl("type Query { a: Int }")], [[0, _opts(introspection=True)], [0, DEFAULT]], "introspection"))
    # seeded C12-b: built-in directive definitions cached without the indent in the key
    small = _sdl('"root"\ntype Query { "f" a(x: Int = 1): Int @deprecated }')
    intro = lambda **kw: _opts(introspection=True, **kw)  # noqa: E731
    out.append(_case([small], [[0, intro(indent=2)], [0, intro(indent=4)], [0, intro(indent="\t")],
                               [0, intro(indent=2, descriptions=False)], [0, intro(indent=0)], [0, intro(indent=2)]],
                     "options-matrix"))
    out.append(_case([small, _sdl("type Query { b: Int }")],
                     [[1, intro(indent=8)], [0, intro(indent=1, custom=True)], [1, intro(indent="  ")],
                      [0, _opts(indent=8)], [1, intro(indent=8, descriptions=False)], [0, intro(indent=4)]],
                     "options-matrix"))
    # seeded C12-a: defaults that are == but of different Python types must not share a rendering
    out.append(_case([_sdl("scalar Any\ninput In { x: Any = 1, y: Any = true, z: Any = 1.0 }\n"
                           "type Query { q(a: Any = true, b: Any = 1, c: Any = 1.0, d: Any = 0, e: Any = false, "
                           "f: Any = 0.0, l: [Any] = [true, 1, 1.0], i: In = {x: 1.0, y: 1}): Int }")],
                     [[0, DEFAULT], [0, DEFAULT]], "typed-equal-defaults"))
    import random as _random
    for k in range(3):
        out.append(_typed_equal_case(_random.Random(1000 + k)))
    # seeded C12-e: descriptions are split on "\n" only (U+2028 / U+2029 / U+0085 stay inside a line)
    out.append(_case([_sdl('type Query {\n  "First paragraph.\u2028Second paragraph."\n  a("sep\u2029x" b: Int): Int\n}\n'
                           '"nel\x85y"\nenum E { "v\u2028w" A }\n"""\nl1\nl2\u2028x\n"""\ninput I { "a\u2029b" f: Int }\n'
                           '"d\u2028e"\ndirective @d("q\x85r" x: Int) on FIELD')],
                     [[0, DEFAULT], [0, _opts(indent=2)]], "description-separators"))
    # C12-07 (/repo 6320d32): a short one-line description ending with a backslash is laid out as a block
    out.append(_case([_sdl('"t\\\\"\ntype Query {\n  "f\\\\"\n  a("x\\\\" b: Int): Int\n}\n"e\\\\"\nenum E { "v\\\\" A }\n'
                           '"i\\\\"\ninput I { "g\\\\" f: Int }\n"d\\\\"\ndirective @d("q\\\\" x: Int) on FIELD')],
                     [[0, DEFAULT], [0, _opts(indent=2)], [0, _opts(indent="\t")]], "description-trailing-backslash"))
    # seeded C12-i: the schema definition may only be omitted when EVERY slot is what the default names give: a root
    # under the default name of another operation whose own slot is empty needs the explicit block
    out.append(_case([_sdl("schema { query: Query subscription: Mutation }\ntype Query { a: Int }\ntype Mutation { b: Int }")],
                     [[0, DEFAULT], [0, _opts(indent=2)]], "roots-under-other-default-names"))
    out.append(_case([_sdl("schema { query: Query mutation: Subscription }\ntype Query { a: Int }\ntype Subscription { b: Int }")],
                     [[0, DEFAULT]], "roots-under-other-default-names"))
    out.append(_case([_sdl("schema { query: Query mutation: Subscription subscription: Mutation }\ntype Query { a: Int }\n"
                           "type Subscription { b: Int }\ntype Mutation { c: Int }")],
                     [[0, DEFAULT]], "roots-under-other-default-names"))
    out.append(_case([_sdl("schema { query: Mutation }\ntype Mutation { a: Int }\ntype Query { b: Int }"),
                      _sdl("schema { query: Subscription mutation: Query }\ntype Subscription { a: Int }\ntype Query { b: Int }")],
                     [[0, DEFAULT], [1, DEFAULT]], "roots-under-other-default-names"))
    # seeded C12-h: a deprecation reason is a String value printed by the value printer: characters above U+FFFF
    # stay one character (no surrogate-pair escapes), other non-ASCII / control characters as the value printer has them
    out.append(_case([_sdl('type Query {\n  a: Int @deprecated(reason: "rocket \U0001F680")\n'
                           '  b: Int @deprecated(reason: "\U00010000 and \U0010FFFF")\n'
                           '  c(x: String = "\U0001F680"): Int @deprecated(reason: "caf\u00e9 \u2028 \\"q\\" \\\\ \\b\\f\\t\\n \x7f \uffff")\n}\n'
                           'enum E { A @deprecated(reason: "\U0001F680\U0001F600") B }\n')],
                     [[0, DEFAULT], [0, _opts(indent=2)]], "deprecation-reason-non-bmp"))
    # seeded C12-d: enum defaults are printed as the member *holding* the internal value
    for k, mode in enumerate(gen_sdl.ENUM_VALUE_MODES):
        out.append(_enum_collision_case(_random.Random(2000 + k), mode=mode))
    return out


# ---- defaults that are == but of different Python types --------------------
# (True, 1, 1.0) and (False, 0, 0.0) hash and compare equal; the literal a
# custom scalar / String / ID prints depends on the type of the value.
_EQ = {1: [{"k": "bool", "v": True}, {"k": "int", "v": "1"}, {"k": "float", "v": "1.0"}],
       0: [{"k": "bool", "v": False}, {"k": "int", "v": "0"}, {"k": "float", "v": "0.0"}]}
_EQ_PY = {1: [{"t": "bool", "v": True}, {"t": "int", "v": "1"}, {"t": "float", "v": "1.0"}],
          0: [{"t": "bool", "v": False}, {"t": "int", "v": "0"}, {"t": "float", "v": "0.0"}]}


def _iv(name, t, default):
    return {"name": name, "desc": None, "type": t, "default": default, "dirs": []}


def _typed_equal_spec(rng, code, pick=None):
    """a small schema whose custom scalars (and, code-built, String / ID) carry
    defaults drawn from the two classes; [pick] fixes which member every
    scalar-typed default uses (for schemas that share the scalar object)"""
    def lit(cls=None):
        cls = rng.choice([0, 1]) if cls is None else cls
        i = rng.randrange(3) if pick is None else pick
        return _EQ[cls][i]

    def pylit(cls=None):
        cls = rng.choice([0, 1]) if cls is None else cls
        i = rng.randrange(3) if pick is None else pick
        return {"k": "py", "v": _EQ_PY[cls][i]}

    args = [_iv(n, rng.choice(["Any", "Any", "Blob", {"nn": "Any"}]), lit()) for n in
            rng.sample(["a", "b", "c", "d", "e", "f"], rng.randint(3, 6))]
    args.append(_iv("l", {"list": "Any"}, {"k": "list", "v": [lit() for _ in range(rng.randint(1, 4))]}))
    args.append(_iv("i", "In", {"k": "obj", "v": [["x", lit()], ["y", lit()]]}))
    fields = [{"name": "q", "desc": None, "args": args, "type": "Int", "dep": None, "dirs": []}]
    if code:
        sargs = [_iv(n, t, pylit()) for n, t in rng.sample(
            [("s1", "String"), ("s2", "String"), ("s3", "String"), ("i1", "ID"), ("i2", "ID"), ("i3", "ID")],
            rng.randint(2, 5))]
        fields.append({"name": "r", "desc": None, "args": sargs, "type": "Any", "dep": None, "dirs": []})
    types = [
        {"kind": "scalar", "name": "Any", "desc": None, "dirs": []},
        {"kind": "scalar", "name": "Blob", "desc": None, "dirs": []},
        {"kind": "input", "name": "In", "desc": None, "dirs": [], "fields": [
            _iv("x", "Any", lit(1)), _iv("y", "Any", lit()), _iv("z", {"list": {"nn": "Blob"}}, {"k": "list", "v": [lit(), lit()]})]},
        {"kind": "object", "name": "Query", "desc": None, "dirs": [], "ifaces": [], "fields": fields},
    ]
    return {"types": types, "directives": [], "roots": {"query": "Query"}, "explicit_schema": False,
            "schema_dirs": []}


def _typed_equal_case(rng, label="typed-equal-defaults"):
    c = rng.random()
    if c < 0.4:
        # one SDL schema, several == defaults of different types on one scalar
        text, _ = gen_sdl.render(_typed_equal_spec(rng, False), rng, split=False, permute=False)
        schemas = [{"sdl": text}]
        steps = [[0, dict(DEFAULT)]] * rng.randint(1, 2)
    else:
        # schemas that share the scalar *objects* (code-built; String / ID are shared by every
        # schema of the process), each using another member of the classes, printed in sequence
        order = rng.sample([0, 1, 2], 3)[:rng.randint(2, 3)]
        schemas = [{"code": _typed_equal_spec(rng, True, pick=(i if rng.random() < 0.7 else None)),
                    "share": True, "pynames": False} for i in order]
        steps = [[i, dict(DEFAULT)] for i in range(len(schemas))]
        steps += [[rng.randrange(len(schemas)), rng.choice([dict(DEFAULT), _opts(indent=2)])]
                  for _ in range(rng.randint(0, 3))]
    return _case(schemas, steps[:6], label)


# ---- enums whose internal values are spelled like other members' names ------
def _enum_collision_spec(rng):
    """code-built only: enum-typed defaults at argument, input-field and
    directive-argument positions, bare, non-null, in lists and inside
    input-object defaults (nested); the internal values come from one of
    gen_sdl.ENUM_VALUE_MODES"""
    names = rng.sample(["ASC", "DESC", "NONE", "RANDOM"], rng.randint(2, 4))
    cnames = rng.sample(["RED", "GREEN", "BLUE"], rng.randint(1, 3))
    member = lambda: {"k": "enum", "v": rng.choice(names)}  # noqa: E731
    colour = lambda: {"k": "enum", "v": rng.choice(cnames)}  # noqa: E731
    members = lambda: {"k": "list", "v": [member() for _ in range(rng.randint(1, 3))]}  # noqa: E731
    paging = lambda: {"k": "obj", "v": [["limit", {"k": "int", "v": "5"}], ["order", member()]]  # noqa: E731
                      + ([["orders", members()]] if rng.random() < 0.5 else [])}
    enum = lambda n, vs: {"kind": "enum", "name": n, "desc": None, "dirs": [], "values": [  # noqa: E731
        {"name": v, "desc": None, "dep": None, "dirs": []} for v in vs]}
    args = [_iv("order", "Order", member()), _iv("orders", {"list": "Order"}, members()),
            _iv("strict", {"nn": "Order"}, member()), _iv("matrix", {"list": {"list": {"nn": "Order"}}},
                                                            {"k": "list", "v": [members(), members()]}),
            _iv("paging", "Paging", paging()),
            _iv("outer", "Outer", {"k": "obj", "v": [["paging", paging()], ["colour", colour()]]}),
            _iv("colour", "Color", colour()), _iv("plain", "Order", None)]
    rng.shuffle(args)
    types = [
        enum("Order", names), enum("Color", cnames),
        {"kind": "input", "name": "Paging", "desc": None, "dirs": [], "fields": [
            _iv("limit", "Int", {"k": "int", "v": "10"}), _iv("order", "Order", member()),
            _iv("orders", {"list": {"nn": "Order"}}, members())]},
        {"kind": "input", "name": "Outer", "desc": None, "dirs": [], "fields": [
            _iv("paging", "Paging", paging()), _iv("colour", "Color", colour()), _iv("fallBack", "Order", None)]},
        {"kind": "object", "name": "Query", "desc": None, "dirs": [], "ifaces": [], "fields": [
            {"name": "items", "desc": None, "args": args[:rng.randint(4, len(args))], "type": "Order",
             "dep": None, "dirs": []}]},
    ]
    directives = [{"name": "sort", "desc": None, "locs": ["FIELD"], "args": [
        _iv("by", "Order", member()), _iv("all", {"list": "Order"}, members()), _iv("page", "Paging", paging())]}]
    return {"types": types, "directives": directives, "roots": {"query": "Query"}, "explicit_schema": False,
            "schema_dirs": []}


def _enum_collision_case(rng, mode=None, label="enum-value-collision"):
    mode = mode or rng.choice(gen_sdl.ENUM_VALUE_MODES)
    schemas = [{"code": _enum_collision_spec(rng), "pynames": rng.random() < 0.5, "internal": mode}]
    steps = [[0, dict(DEFAULT)]]
    if rng.random() < 0.4:
        steps.append([0, _rand_opts(rng)])
    return _case(schemas, steps, label)


def _internal_mode(rng):
    c = rng.random()
    if c < 0.55:
        return True
    if c < 0.65:
        return False
    return rng.choice(gen_sdl.ENUM_VALUE_MODES)


def _free_opts(rng, intro_p=0.5):
    """every option drawn independently (indent as width and as string)"""
    r = rng
    return {"indent": r.choice([0, 1, 2, 4, 8, "\t", "  ", " "]),
            "descriptions": r.random() < 0.7,
            "introspection": r.random() < intro_p,
            "custom": r.choice([False, True, ["tag"], ["auth", "length"], []])}


def _options_matrix_case(rng, label="options-matrix"):
    """3..6 calls over 1..2 schemas in one process, all options varied independently per call:
    exposes process-wide state keyed on a subset of (schema, options)"""
    schemas = [_source(rng)]
    if rng.random() < 0.4:
        schemas.append(_source(rng))
    steps = [[rng.randrange(len(schemas)), _free_opts(rng)] for _ in range(rng.randint(3, 6))]
    return _case(schemas, steps, label)


def _rand_opts(rng):
    r = rng
    return {"indent": r.choice([4, 4, 2, 0, 8, "\t", "  ", " "]),
            "descriptions": r.random() < 0.75,
            "introspection": r.random() < 0.12,
            "custom": r.choice([False, False, True, True, ["tag"], ["auth", "length"], []])}


def _source(rng):
    g = gen_sdl.Gen(rng, c12=True)
    spec = g.schema()
    if rng.random() < 0.4:
        return {"code": spec, "pynames": rng.random() < 0.8, "internal": _internal_mode(rng)}
    text, _ = gen_sdl.render(spec, rng, split=rng.random() < 0.5)
    return {"sdl": text}


def generate(rng, tier):
    n = 100 if tier == "quick" else 1800
    cases = []
    for i in range(n):
        schemas = [_source(rng)]
        if rng.random() < 0.3:
            schemas.append(_source(rng))
        if i % 3 == 0:
            steps = [[0, _rand_opts(rng) if rng.random() < 0.7 else dict(DEFAULT)]]
        else:
            pool = [_rand_opts(rng) for _ in range(rng.randint(1, 3))] + [dict(DEFAULT)]
            steps = [[rng.randrange(len(schemas)), rng.choice(pool)] for _ in range(rng.randint(2, 6))]
        cases.append(_case(schemas, steps))
    for _ in range(25 if tier == "quick" else 300):
        cases.append(_typed_equal_case(rng))
    for _ in range(30 if tier == "quick" else 500):
        cases.append(_options_matrix_case(rng))
    for _ in range(15 if tier == "quick" else 250):
        cases.append(_enum_collision_case(rng))
    return cases


def run_impl(case):
    o = sdl_impl.call({"op": "c12", "case": case}, timeout=120)
    if "harness_error" in o:
        raise RuntimeError(o["harness_error"])
    if "dumps" not in o:
        raise RuntimeError("worker failure: %r" % (o,))
    return o


def _copts(o):
    ind = o["indent"]
    ind = " " * ind if isinstance(ind, int) else ind
    c = o["custom"]
    if c is True:
        cc = "CustomAll"
    elif c is False:
        cc = "CustomOff"
    else:
        cc = "(CustomOnly %s)" % ser.clist(c, ser.cstr)
    return "(POpts %s %s %s %s)" % (ser.cstr(ind), ser.cbool(o["descriptions"]), ser.cbool(o["introspection"]), cc)


def to_coq(case, obs):
    steps = []
    for (idx, opts), st in zip(case["steps"], obs["steps"]):
        ob = "(ObsText %s)" % ser.cstr(st["text"]) if "text" in st else "ObsFailed"
        steps.append("(%s, %s, %s)" % (ser.cnat(idx), _copts(opts), ob))
    return "(%s, [%s])" % (ser.clist(obs["dumps"], ser_sdl.cschema), "; ".join(steps))


def show_expr(case, obs):
    return "show_C12 %s" % to_coq(case, obs)


def nontrivial(case, obs):
    return len(case["steps"]) > 1 or any(o != DEFAULT for _, o in case["steps"])


def canonical(case):
    return repr((case["schemas"], case["steps"]))


_INT_RE = re.compile(r"^-?(0|[1-9][0-9]*)\Z")
_FLOAT_RE = re.compile(r"^-?(0|[1-9][0-9]*)(\.[0-9]+([eE][+-]?[0-9]+)?|[eE][+-]?[0-9]+)\Z")
KEY_NUMERIC_STRING = "custom-scalar-numeric-string-default"


def _numeric_string_defaults(dump):
    """paths of string defaults of custom scalars whose text is a GraphQL
    int / float literal (exactly the class of the open finding)"""
    kinds = {t["name"]: t for t in dump["types"]}

    def base(t):
        while not isinstance(t, str):
            t = t.get("nn") or t.get("list")
        return t

    def walk(j, t, path, out, depth=0):
        if j is None or depth > 8:
            return
        k = j["t"]
        if k == "list":
            inner = t
            while not isinstance(inner, str) and "nn" in inner:
                inner = inner["nn"]
            inner = inner["list"] if not isinstance(inner, str) and "list" in inner else inner
            for x in j["v"]:
                walk(x, inner, path, out, depth + 1)
            return
        td = kinds.get(base(t))
        if td is None:
            return
        if td["kind"] == "scalar" and k == "str" and (_INT_RE.match(j["v"]) or _FLOAT_RE.match(j["v"])):
            out.append(path)
        elif td["kind"] == "input" and k == "dict":
            fields = {f["py"]: f for f in td["fields"]}
            for key, v in j["v"]:
                if key in fields:
                    walk(v, fields[key]["type"], path + "." + key, out, depth + 1)

    out = []

    def ivalues(owner, ivs):
        for a in ivs:
            walk(a["default"], a["type"], "%s(%s)" % (owner, a["name"]), out)
    for t in dump["types"]:
        if t["kind"] in ("object", "interface"):
            for f in t["fields"]:
                ivalues("%s.%s" % (t["name"], f["name"]), f["args"])
        elif t["kind"] == "input":
            ivalues(t["name"], t["fields"])
    for d in dump["directives"]:
        ivalues("@" + d["name"], d["args"])
    return out


def _finding_key(case, obs):
    if any(_numeric_string_defaults(d) for d in obs.get("dumps", [])):
        return KEY_NUMERIC_STRING
    return None


def classify(case, obs):
    # the model prints the same text; what fails for this class is the Spec
    # (members_roundtrip) evaluated next to it
    return "printed-text-is-the-function-of-schema-and-options", _finding_key(case, obs)


_ROUNDTRIP_CHECKS = ("rebuilt-schema-identical", "rebuilt-defaults-identical", "second-print-identical")


def direct_checks(case, obs):
    out = []
    key = _finding_key(case, obs)
    for c in obs.get("checks", []):
        out.append((c, key if c.startswith(_ROUNDTRIP_CHECKS) else None))
    for st in obs["steps"]:
        if "text" not in st:
            out.append(("to_string-raises: %s" % st.get("type", st.get("exc")), None))
    return out


def shrink(case, is_bad):
    if os.environ.get("VERIF_NO_SHRINK"):
        return case
    steps = case["steps"]
    changed = True
    while changed and len(steps) > 1:
        changed = False
        for i in range(len(steps)):
            cand = dict(case, steps=steps[:i] + steps[i + 1:])
            if is_bad(cand):
                steps = cand["steps"]
                changed = True
                break
    case = dict(case, steps=steps)
    # drop blocks of SDL sources
    for si, src in enumerate(case["schemas"]):
        if "sdl" not in src:
            continue
        blocks = src["sdl"].rstrip("\n").split("\n\n")
        changed = True
        while changed and len(blocks) > 1:
            changed = False
            for i in range(len(blocks)):
                text = "\n\n".join(blocks[:i] + blocks[i + 1:]) + "\n"
                schemas = list(case["schemas"])
                schemas[si] = dict(src, sdl=text)
                cand = dict(case, schemas=schemas)
                if is_bad(cand):
                    blocks = blocks[:i] + blocks[i + 1:]
                    case = cand
                    changed = True
                    break
    return case


def extra_evidence(cases, obss):
    hist = {}
    code = sdl = intro = custom = nodesc = 0
    for c in cases:
        hist[len(c["steps"])] = hist.get(len(c["steps"]), 0) + 1
        code += sum(1 for s in c["schemas"] if "code" in s)
        sdl += sum(1 for s in c["schemas"] if "sdl" in s)
        intro += sum(1 for _, o in c["steps"] if o["introspection"])
        custom += sum(1 for _, o in c["steps"] if o["custom"])
        nodesc += sum(1 for _, o in c["steps"] if not o["descriptions"])
    return {"distribution": {"history_lengths": hist, "code_built_schemas": code, "sdl_built_schemas": sdl,
                             "steps_with_introspection": intro, "steps_with_custom_directives": custom,
                             "steps_without_descriptions": nodesc,
                             "direct_check_failures": sum(len(o.get("checks", [])) for o in obss)}}
