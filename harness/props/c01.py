# -*- coding: utf-8 -*-
"""C01 -- the parser accepts exactly the grammar and fails only with syntax errors."""
import os
import re
import sys

from py_gql.exc import (
    GraphQLSyntaxError, InvalidCharacter, InvalidEscapeSequence, NonTerminatedString,
    UnexpectedCharacter, UnexpectedEOF, UnexpectedToken,
)
from py_gql.lang import parse, token as T
from py_gql.lang.lexer import Lexer
from py_gql.lang.parser import parse_type, parse_value

from .. import gen_source as G, ser

PROP = "C01"
THEOREMS = [
    "C01_number_sound", "C01_number_complete", "C01_lexer_total", "C01_total_outcome",
    "C01_error_position_partial", "C01_error_position_refuted", "C01_rejection_origin", "C01_lexer_rejection_spec",
    "C01_lex_error_functional", "C01_lexes_or_lex_error", "C01_lexical_rejection_spec",
    "C01_type_blamed_token", "C01_value_blamed_token", "C01_blamed_token_of_tokens", "C01_blamed_unique", "C01_render_total",
    "C01_type_sound", "C01_type_complete", "C01_value_sound", "C01_value_complete",
    "C01_value_production_sound", "C01_value_production_complete",
    "C01_exec_sound", "C01_exec_complete", "C01_exec_tokens_sound", "C01_exec_tokens_complete",
    "C01_document_sound", "C01_document_sound_la", "C01_document_complete", "C01_document_tokens_complete",
    "C01_accepts_document", "C01_parse_output_wf", "C01_parse_output_wf_strip",
    "C01_follow", "C01_follow_value_type", "C01_accepts_document_strict", "C01_accepts_exec_strict_iff",
    "C01_accepts_value_strict", "C01_accepts_type_strict",
    "C01_lex_sound", "C01_lex_complete_slack", "C01_lex_complete",
    "C01_accepts_exec", "C01_accepts_exec_strict", "C01_accepts_value", "C01_accepts_type",
]
AXIOMS_OK = []
RUN_MODULE = "Run.C01run Lang.Parser Lang.Loc"
AGREE = "agree_C01"
CASE_TYPE = "case_C01"
SHARD = 400
LEVEL_NOTE = ("Theorems are about the Gallina model Lang/Lexer.v + Lang/Parser.v of lang/lexer.py and "
              "lang/parser.py (after the proposed fixes C01-01..07); the model is tied to /repo by running "
              "both on the same generated texts (accept/reject, error class, error position, token "
              "streams) on every run. Acceptance against the full June-2018 document grammar is proved for "
              "values and types; for selections and definitions it rests on the correspondence.")
RULE = ("long flat runs (1 200 - 5 000 comment lines / commas / blank lines / spaces, 2 000 siblings, around valid "
        "and invalid cores; outcome must be that of the text with the run collapsed, at recursion limit 1000); "
        "texts from the grammar-directed generator (executable, SDL and mixed documents, standalone values "
        "and types, raw token streams; all 8 flag triples; random trivia) plus token-level and "
        "character-level mutants, truncations, number/escape enumerations; non-trivial = the text has at "
        "least 3 tokens or is a rejected mutant; distinct = distinct (entry, flags, text)")

ERR_KINDS = {InvalidCharacter: 1, UnexpectedCharacter: 2, UnexpectedEOF: 3,
             NonTerminatedString: 4, InvalidEscapeSequence: 5, UnexpectedToken: 6}
TOKEN_IDS = {T.SOF: 0, T.EOF: 1, T.ExclamationMark: 2, T.Dollar: 3, T.ParenOpen: 4, T.ParenClose: 5,
             T.BracketOpen: 6, T.BracketClose: 7, T.CurlyOpen: 8, T.CurlyClose: 9, T.Colon: 10,
             T.Equals: 11, T.At: 12, T.Pipe: 13, T.Ampersand: 14, T.Ellip: 15, T.Integer: 16,
             T.Float: 17, T.Name: 18, T.String: 19, T.BlockString: 20}
ENTRIES = {"doc": "EDoc", "value": "EValue", "type": "EType", "lex": "ELex"}


LEXICAL_ERRORS = [
    '{ a(x: "abc', '{ a(x: "abc\n") }', r'{ a(x: "\q") }', r'{ a(x: "\u12G4") }', r'{ a(x: "\u12',
    '{ a(x: "a\x07b") }', '{ a(x: """abc', '{ a(x: """a\x07b""") }', '{ a(x: 01) }', '{ a(x: 1.) }',
    '{ a(x: 1.e1) }', '{ a(x: 1e) }', '{ a(x: 1e+) }', '{ a(x: -) }', '{ a(x: -a) }', '{ a(x: 1a) }',
    '{ a(x: 1.5a) }', '{ a(x: 1.5.) }', '{ a ? }', '{ a .. }', '{ a . }', '{ \x00 }', '{ a \x7f }',
    '{ a(x: "\\', '# c\x07\n{ a }', '{ a ~ }', '\ufeff{ a \ufeff }', '{ a(x: 0x1) }', '{ a(x: 1_0) }',
    '{ a ..', '{ a .', '{ a(x: -', '{ a(x: 1.', '{ a(x: 1e', '{ a(x: 1e-', '{ a(x: "\\u', '{ a(x: """a\\']


def case(entry, flags, text, origin):
    return {"entry": entry, "flags": list(flags), "text": text, "origin": origin}


# ---------------------------------------------------------------- corpus
def corpus():
    ts = (False, True, False)
    out = [
        # row 1: non-ASCII digits
        case("doc", (False, False, False), "{ a(x: ٣) }", "corpus:row1"),
        case("doc", (False, False, False), "{ a(x: ²) }", "corpus:row1"),
        case("doc", (False, False, False), "{ a٣ }", "corpus:row1"),
        case("value", (False, False, False), "1٣", "corpus:row1"),
        case("value", (False, False, False), "0٣", "corpus:row1"),
        # row 2: exponent digits
        case("value", (False, False, False), "1e05", "corpus:row2"),
        case("value", (False, False, False), "1e+05", "corpus:row2"),
        case("value", (False, False, False), "1.0e00", "corpus:row2"),
        case("doc", (False, False, False), "{ a(x: 1E-007) }", "corpus:row2"),
        # row 3: \u escapes
        case("doc", (False, False, False), '{ a(x: "\\u0x41") }', "corpus:row3"),
        case("doc", (False, False, False), '{ a(x: "\\u٠٠٤١") }', "corpus:row3"),
        case("value", (False, False, False), '"\\u123 "', "corpus:row3"),
        case("value", (False, False, False), '"\\u 123"', "corpus:row3"),
        case("value", (False, False, False), '"\\u+123"', "corpus:row3"),
        case("value", (False, False, False), '"\\u1_23"', "corpus:row3"),
        # row 4: keywords must be Name tokens
        case("doc", (False, False, False), '{ ... "on" Foo {a} }', "corpus:row4"),
        case("doc", (False, False, False), '{ ... """on""" Foo {a} }', "corpus:row4"),
        case("doc", ts, 'type Foo "implements" Bar { a: Int }', "corpus:row4"),
        case("doc", ts, 'extend type Foo "implements" Bar', "corpus:row4"),
        # row 5: bare extend schema
        case("doc", ts, "extend schema", "corpus:row5"),
        case("doc", ts, "extend schema type A { a: Int }", "corpus:row5"),
        case("doc", ts, "extend schema @d", "corpus:row5"),
        # row 6: truncated escapes (open finding: position outside the text; rendering repaired)
        case("value", (False, False, False), '"\\', "corpus:row6"),
        case("value", (False, False, False), '"\\u', "corpus:row6"),
        case("value", (False, False, False), '"\\u12', "corpus:row6"),
        case("doc", (False, False, False), '{ a(x: "\\u123', "corpus:row6"),
        case("lex", (False, False, False), '"abc\\', "corpus:row6"),
        # enum values may not be true / false / null
        case("doc", ts, "enum E { true }", "corpus:enum-reserved"),
        case("doc", ts, 'enum E { A "d" null @x }', "corpus:enum-reserved"),
        case("doc", ts, "extend enum E { false }", "corpus:enum-reserved"),
        case("doc", ts, "enum E { A truex nullable }", "corpus:enum-reserved"),
        # keywords in name position
        case("doc", (False, False, False), "fragment on on T { a }", "corpus:keyword-names"),
        case("doc", (False, False, False), "fragment F on on { a }", "corpus:keyword-names"),
        case("doc", (False, False, False), "query on { on: on(on: on) @on ...on ... on on { on } }", "corpus:keyword-names"),
        case("doc", (False, False, True), "fragment true($on: on = on) on null { fragment }", "corpus:keyword-names"),
        case("doc", ts, "type type implements implements & interface { type: type } enum enum { enum on }", "corpus:keyword-names"),
        case("doc", ts, "query Q($a: Int = $b) { a }", "corpus:const"),
        case("doc", ts, "type T { f(a: Int = $b): Int }", "corpus:const"),
        case("doc", ts, "{ a @d(x: $v) } type T @d(x: $v) { f: Int }", "corpus:const"),
        # the documented follow restriction and its one slack (Float before "...")
        case("lex", (False, False, False), "1.2...", "corpus:follow"),
        case("lex", (False, False, False), "1...", "corpus:follow"),
        case("lex", (False, False, False), "0xF 1_ 01 1.5e3.2", "corpus:follow"),
        case("doc", (False, False, False), "{ a(x: 1.2...) }", "corpus:follow"),
        # seed C01-i: fragment names that are substrings of "on"
        case("doc", (False, False, False), "fragment n on T { a }", "corpus:C01-i"),
        case("doc", (False, False, False), "fragment o on T { a }", "corpus:C01-i"),
        case("doc", (False, False, False), "{ ...n ...o }", "corpus:C01-i"),
        case("doc", (True, True, True), "fragment o($n: o) on n { ...n @o(n: o) }", "corpus:C01-i"),
        # seed C01-h: ~1000 consecutive comment lines (a licence header) -- flat, no nesting
        flat_case("doc", (False, False, False), "", "# a licence header line\n", 1200, "{ a }", "ignored", "corpus:C01-h"),
        flat_case("value", (True, True, True), "[1 ", "# x\n", 1200, " 2]", "ignored", "corpus:C01-h"),
        {"entry": "named", "name": "deep-nesting", "depth": 2000, "flags": [False, False, False],
         "text": "", "origin": "corpus:row7"},
    ]
    return out


# ---------------------------------------------------------------- generation
def generate(rng, tier):
    global SHARD
    quick = tier == "quick"
    SHARD = 400 if quick else 500
    out = []
    n_valid = 260 if quick else 5000
    for i in range(n_valid):
        flags = G.FLAG_TRIPLES[i % 8]
        g = G.Grammar(rng, fv=flags[2], budget=rng.choice([1, 2, 3, 4]))
        k = rng.randrange(10)
        level = rng.choice([0, 1, 2, 2, 2])
        if k < 4:
            # dialect follows the flags most of the time; sometimes not (rejected by the flag)
            dialect = rng.choice(["sdl", "mixed"]) if flags[1] or rng.random() < 0.15 else "exec"
            toks = G.flatten(g.document(dialect))
            entry = "doc"
        elif k == 4:
            toks = G.flatten([g.fragment(with_vars=rng.random() < 0.7)] + g.document("exec"))
            entry = "doc"
        elif k < 7:
            toks = g.value(rng.random() < 0.3, 3)
            entry = "value"
        elif k == 7:
            toks = g.type_(4)
            entry = "type"
        else:
            toks = G.flatten(g.document(rng.choice(["exec", "sdl", "mixed"])))
            entry = "lex"
        text = G.render(toks, rng, level)
        out.append(case(entry, flags, text, "valid:" + entry))
        # mutants of the same derivation
        for _ in range(1 if quick else 2):
            if entry == "lex":
                break
            mt, label = G.mutate_tokens(toks, rng)
            if rng.random() < 0.3:
                mt, l2 = G.mutate_tokens(mt, rng)
                label += "+" + l2
            out.append(case(entry, flags, G.render(mt, rng, rng.choice([1, 2])), "mutant:" + label))
        mtext, label = G.mutate_text(text, rng)
        out.append(case(rng.choice([entry, entry, "lex"]), flags, mtext, "mutant:" + label))
    # truncation at every offset of a few texts
    for _ in range(2 if quick else 25):
        flags = rng.choice(G.FLAG_TRIPLES)
        g = G.Grammar(rng, fv=flags[2], budget=2)
        text = G.render(G.flatten(g.document(rng.choice(["exec", "sdl"]))), rng, 2)[:120]
        for i in range(len(text)):
            out.append(case("doc", (flags[0], True, flags[2]), text[:i], "mutant:truncate-sweep"))
    # strings: the whole pool through the value and lex entry points
    for _ in range(60 if quick else 2000):
        s = G.gen_string(rng)
        out.append(case(rng.choice(["value", "lex"]), (False, False, False), s, "valid:string"))
        ms, label = G.mutate_text(s, rng)
        out.append(case(rng.choice(["value", "lex"]), (False, False, False), ms, "mutant:string-" + label))
    for _ in range(24 if quick else 600):
        out.append(case(rng.choice(["value", "lex"]), (False, False, False), G.string_with_break(rng),
                        "mutant:string-linebreak"))
    # enumerations
    # number automaton: all strings over the 11-symbol alphabet up to length 3 (quick: sample) / 5,
    # and over the 6-symbol alphabet "-01.e+" of length 6 (thorough)
    shapes = list(G.number_shapes(3 if quick else 5))
    if quick:
        shapes = rng.sample(shapes, 250) + list(G.number_shapes(2))
    else:
        shapes += ["".join(t) for t in G.itertools.product("-01.e+", repeat=6)]
    for s in shapes:
        out.append(case("lex", (False, False, False), s, "enum:number"))
    if not quick:
        for s in rng.sample(shapes, 15000):
            out.append(case("value", (False, False, False), "[" + s + "]", "enum:number-in-list"))
    esc = list(G.unicode_escape_shapes())
    for s in (rng.sample(esc, 150) if quick else esc):
        out.append(case("value", (False, False, False), s, "enum:unicode-escape"))
    seqs = list(G.token_sequences(2 if quick else 4))
    for s in seqs:
        out.append(case("doc", (False, False, False), s, "enum:tokens"))
    seq5 = [" ".join(rng.choice(G.TOKEN_ALPHABET) for _ in range(rng.randint(3, 6)))
            for _ in range(300 if quick else 20000)]
    # bias towards well-bracketed shapes
    seq5 += ["{ a " + " ".join(rng.choice(G.TOKEN_ALPHABET) for _ in range(rng.randint(1, 4))) + " }"
             for _ in range(300 if quick else 20000)]
    for s in seq5:
        out.append(case("doc", (False, False, False), s, "enum:tokens-sample"))
    # every production, deterministically: prefixes / one-token deletions / body-less shapes of every
    # definition and extension kind, alone and next to other definitions, under all 8 flag triples
    # (run_impl feeds each as str and as utf-8 bytes).  quick keeps the two "between" contexts for the
    # body-less shapes only, and the one-token deletions alone.
    for text, label in G.production_forms():
        if quick and "+between" in label and not label.startswith("bodyless"):
            continue
        if quick and label.startswith("drop:") and "+" in label:
            continue
        for flags in G.FLAG_TRIPLES:
            out.append(case("doc", flags, text, "enum:production-" + label))
    out += flat_cases(quick)
    # every name position x every part of a keyword (a name that is a substring of "on", "true", ... is
    # an ordinary name everywhere)
    for flags, text, label in G.name_position_cases(quick, rng):
        out.append(case("doc", flags, text, "enum:name-position-" + label))
    # one text per lexical error site, inside a document, under all 8 flag triples
    for text in LEXICAL_ERRORS:
        for flags in G.FLAG_TRIPLES:
            out.append(case("doc", flags, text, "enum:lexical-error"))
            out.append(case("doc", flags, "scalar S " + text, "enum:lexical-error"))
    return out


# ---------------------------------------------------------------- long flat runs
# Texts with a very long run of one unit and no nesting (depth <= 3).  "ignored" runs (comment lines,
# commas, blank lines, spaces) must not change the outcome at all: the case's text is the run collapsed
# to ONE unit (that short text goes to the model), and the implementation's outcome on the long text
# must be its outcome on the collapsed one (verdict, error class, tree without locations, token
# classes and values).  "sibling" runs (fields, arguments, list items, definitions ...) must not
# change verdict or error class.  Never anything but a syntax error: run at recursion limit 1000.
def flat_case(entry, flags, pre, unit, n, post, kind, label):
    c = case(entry, flags, pre + unit + post, "flat:" + label)
    c["flat"] = {"pre": pre, "unit": unit, "n": n, "post": post, "kind": kind}
    return c


def flat_cases(quick):
    f0, ts = (False, False, False), (False, True, False)
    nl = (True, True, True)
    out = []
    ignored = [("# a licence header line\n", 1200, "comments-1200"), (",", 3000, "commas-3000")]
    if not quick:
        ignored += [("# x\n", 3000, "comments-3000"), ("\n", 3000, "blank-lines-3000"), (" ", 5000, "spaces-5000"),
                    ("#\r\n", 1500, "crlf-comments-1500"), ("\ufeff", 2000, "boms-2000"), ("#\n,\t", 1500, "mixed-1500")]
    cores = {
        "doc": [("", "{ a }"), ("{ a ", " }"), ("{ a }", ""), ("", "{ a"), ("{ ", " ? }"), ("", '{ a(x: "abc }'),
                ("query Q ", " { a }")],
        "value": [("", "[1, 2]"), ("[1 ", " 2]"), ("[1 ", " }"), ("", "$")],
        "type": [("", "[Int!]"), ("[Int ", " !]"), ("[Int ", "")],
        "lex": [("a ", " b"), ("", '"unterminated')],
    }
    for unit, n, label in ignored:
        for entry, pairs in cores.items():
            for i, (pre, post) in enumerate(pairs if not quick else pairs[:2] + pairs[3:4]):
                flagsets = [f0] if quick else [f0, nl]
                for fl in flagsets:
                    out.append(flat_case(entry, fl, pre, unit, n, post, "ignored", label))
    siblings = [("doc", f0, "{ ", "a ", "}", "fields"), ("value", f0, "[", "1 ", "]", "list-items")]
    if not quick:
        siblings += [("doc", f0, "{ f(", "x: 1 ", ") }", "arguments"), ("doc", f0, "", "{ a } ", "", "definitions"),
                     ("doc", f0, "{ ", "...F ", "}", "spreads"), ("doc", f0, "{ a ", "@d ", "}", "directives"),
                     ("doc", f0, "query (", "$v: Int ", ") { a }", "variable-definitions"),
                     ("doc", ts, "", "scalar S ", "", "sdl-definitions"), ("doc", ts, "type T { ", "f: Int ", "}", "sdl-fields"),
                     ("doc", ts, "enum E { ", "A ", "}", "enum-values"), ("doc", ts, "union U = ", "| A ", "", "union-members"),
                     ("doc", ts, "type T implements ", "& I ", "{ f: Int }", "interfaces"),
                     ("value", f0, "{", "a: 1 ", "}", "object-fields"), ("value", f0, "[", "[] ", "]", "empty-lists"),
                     ("doc", f0, "{ ", "a ", "", "fields-unterminated"), ("value", f0, "[", "1 ", "}", "list-items-wrong-close"),
                     ("lex", f0, "", "a ", "", "names"), ("lex", f0, "", "1.5 ", "", "numbers")]
    for entry, fl, pre, unit, post, label in siblings:
        out.append(flat_case(entry, fl, pre, unit, 2000, post, "siblings", label + "-2000"))
    # moderately long ones on the model itself
    longs = [("doc", f0, "# c\n" * 1200 + "{ a }")]
    if not quick:
        longs += [("value", f0, "#\n" * 1200 + "[1]"), ("type", f0, "#\n" * 1200 + "Int!"), ("lex", f0, "#\n" * 1200 + "a"),
                  ("doc", f0, "{ a " + "," * 3000 + "}"), ("doc", f0, "# c\n" * 1200 + "{ a"), ("doc", f0, "{ " + "a " * 1500 + "}")]
    for entry, fl, text in longs:
        out.append(case(entry, fl, text, "flat:on-the-model"))
    return out


def _strip_locs(d):
    if isinstance(d, dict):
        return {k: _strip_locs(v) for k, v in d.items() if k not in ("loc", "source")}
    if isinstance(d, (list, tuple)):
        return [_strip_locs(x) for x in d]
    return d


def _flat_outcome(entry, flags, src):
    """outcome without positions: verdict, error class, tree without locations / token classes and values"""
    kw = {"no_location": flags[0], "allow_type_system": flags[1], "experimental_fragment_variables": flags[2]}
    try:
        if entry == "doc":
            return ("accept", _strip_locs(parse(src, **kw).to_dict()))
        if entry == "value":
            return ("accept", _strip_locs(parse_value(src, **kw).to_dict()))
        if entry == "type":
            return ("accept", _strip_locs(parse_type(src, **kw).to_dict()))
        return ("tokens", [[type(t).__name__, t.value] for t in Lexer(src)])
    except GraphQLSyntaxError as e:
        return ("reject", type(e).__name__)
    except Exception as e:  # noqa
        return ("other", type(e).__name__)


def _run_flat(c):
    f = c["flat"]
    long_text = f["pre"] + f["unit"] * f["n"] + f["post"]
    res = {"long_length": len(long_text)}
    for src, what in ((long_text, "str"), (long_text.encode("utf8"), "bytes")):
        lo = _flat_outcome(c["entry"], c["flags"], src)
        so = _flat_outcome(c["entry"], c["flags"], c["text"])
        if lo[0] == "other":
            res.setdefault("other", "%s (%s input, run of %d x %r)" % (lo[1], what, f["n"], f["unit"]))
        elif f["kind"] == "ignored" and lo != so:
            res.setdefault("mismatch", "%s input: %s on the long text, %s with the run collapsed"
                           % (what, str(lo)[:120], str(so)[:120]))
        elif f["kind"] == "siblings" and (lo[0] != so[0] or (lo[0] == "reject" and lo[1] != so[1])):
            res.setdefault("mismatch", "%s input: %s on the long text, %s with one sibling"
                           % (what, str(lo)[:80], str(so)[:80]))
    return res


# ---------------------------------------------------------------- implementation side
def _run_once(entry, flags, src):
    kw = {"no_location": flags[0], "allow_type_system": flags[1],
          "experimental_fragment_variables": flags[2]}
    text = src.decode("utf8") if isinstance(src, bytes) else src
    try:
        if entry == "doc":
            parse(src, **kw)
        elif entry == "value":
            parse_value(src, **kw)
        elif entry == "type":
            parse_type(src, **kw)
        else:
            toks = list(Lexer(src))
            return {"tokens": [[TOKEN_IDS[type(t)], t.value, t.start, t.end] for t in toks]}
        return {"accept": True}
    except GraphQLSyntaxError as e:
        o = {"reject": ERR_KINDS.get(type(e), 0), "cls": type(e).__name__, "position": e.position,
             "site": _raise_site(e)}
        render = []
        try:
            s = str(e)
            if not isinstance(s, str) or not s:
                render.append("str(e) empty")
        except Exception as e2:  # noqa
            render.append("str(e) raised %s" % type(e2).__name__)
        try:
            d = e.to_dict()
            loc = d["locations"][0]
            line, col = loc["line"], loc.get("columne", loc.get("column"))
            o["line"], o["col"] = line, col
            lines = text.split("\n")
            if not (1 <= line <= len(lines) and 1 <= col <= len(lines[line - 1]) + 1):
                render.append("line/column outside the text: %r" % ((line, col),))
            if not isinstance(d.get("message"), str):
                render.append("to_dict() has no message")
        except Exception as e2:  # noqa
            render.append("to_dict() raised %s" % type(e2).__name__)
        if render:
            o["render"] = render
        return o
    except Exception as e:  # noqa
        return {"other": type(e).__name__, "msg": str(e)[:200]}


def _raise_site(e):
    """file:line of the innermost frame of the library's lexer/parser the error was raised from"""
    tb, site = e.__traceback__, ""
    while tb is not None:
        fn = tb.tb_frame.f_code.co_filename
        if fn.endswith(("lang/parser.py", "lang/lexer.py")):
            site = "%s:%d" % (os.path.basename(fn), tb.tb_lineno)
        tb = tb.tb_next
    return site


def _static_raise_sites():
    """every `raise` statement of lang/parser.py and lang/lexer.py (by syntax tree)"""
    import ast as pyast
    import py_gql.lang.parser as P
    import py_gql.lang.lexer as L
    sites = []
    for mod in (P, L):
        fn = mod.__file__
        tree = pyast.parse(open(fn, encoding="utf8").read())
        for node in pyast.walk(tree):
            if isinstance(node, pyast.Raise):
                sites.append("%s:%d" % (os.path.basename(fn), node.lineno))
    return sorted(sites)


def run_impl(c):
    if c["entry"] == "named":
        depth = c["depth"]
        old = sys.getrecursionlimit()
        sys.setrecursionlimit(1000)
        try:
            o = _run_once("doc", c["flags"], "{a" * depth + "}" * depth)
            o2 = _run_once("value", c["flags"], "[" * depth + "]" * depth)
            o3 = _run_once("type", c["flags"], "[" * depth + "a" + "]" * depth)
        finally:
            sys.setrecursionlimit(old)
        return {"named": [o, o2, o3]}
    if c.get("origin", "").startswith("flat"):
        old = sys.getrecursionlimit()
        sys.setrecursionlimit(1000)
        try:
            o = _run_plain(c)
            if "flat" in c:
                o = dict(o)
                o["flat"] = _run_flat(c)
        finally:
            sys.setrecursionlimit(old)
        return o
    return _run_plain(c)


def _run_plain(c):
    o = _run_once(c["entry"], c["flags"], c["text"])
    try:
        b = c["text"].encode("utf8")
    except UnicodeEncodeError:
        return o
    ob = _run_once(c["entry"], c["flags"], b)
    if ob != o:
        o = dict(o)
        o["bytes_observable"] = ob
    return o


def cflags(fl):
    return "(Flags %s %s %s)" % tuple(ser.cbool(x) for x in fl)


def to_coq(c, obs):
    if c["entry"] == "named":
        return "CNamed"
    if "accept" in obs:
        o = "ObsAccept"
    elif "tokens" in obs:
        o = "(ObsTokens %s)" % ser.clist(
            obs["tokens"], lambda t: "(%d, %s, %d, %d)" % (t[0], ser.cstr(t[1]) if t[1] else "[]", t[2], t[3]))
    elif "reject" in obs:
        o = "(ObsReject %d %d %d %d)" % (obs["reject"], obs["position"], obs.get("line", 0), obs.get("col", 0))
    else:
        o = "ObsOther"
    return "(CParse %s %s %s %s)" % (ENTRIES[c["entry"]], cflags(c["flags"]),
                                     ser.cstr(c["text"]) if c["text"] else "[]", o)


def show_expr(c, obs):
    if c["entry"] == "named":
        return "0"
    return "model_C01 %s %s %s" % (ENTRIES[c["entry"]], cflags(c["flags"]),
                                   ser.cstr(c["text"]) if c["text"] else "[]")


def nontrivial(c, obs):
    if c["entry"] == "named":
        return False
    return len(c["text"].split()) >= 3 or ("reject" in obs and c["origin"].startswith("mutant"))


def canonical(c):
    f = c.get("flat")
    return (c["entry"], tuple(c["flags"]), c["text"], (f["n"], f["kind"]) if f else None)


_TRUNC = re.compile(r'\\(u[0-9A-Fa-f]{0,3})?\Z')


def _is_truncated_escape(c, obs):
    """the one open finding: a quoted string whose escape sequence is cut off by
    the end of the text reports position = len(text) + 1"""
    return (obs.get("cls") == "NonTerminatedString" and obs.get("position") == len(c["text"]) + 1
            and _TRUNC.search(c["text"]) is not None)


def classify(c, obs):
    if "other" in obs:
        return "fails-only-with-syntax-errors: %s" % obs["other"], None
    return "accepts-exactly-the-grammar (verdict, error class or position differs from the model)", None


def direct_checks(c, obs):
    out = []
    if c["entry"] == "named":
        for o in obs["named"]:
            if "other" in o:
                key = "deep-nesting-recursion" if o["other"] == "RecursionError" else None
                out.append(("fails-only-with-syntax-errors: %s beyond the recursion budget" % o["other"], key))
        return out
    if "other" in obs:
        out.append(("fails-only-with-syntax-errors: %s" % obs["other"], None))
    if "reject" in obs:
        if obs["reject"] == 0:
            out.append(("rejects-with-the-library-syntax-error-classes: %s" % obs["cls"], None))
        if obs["position"] < 0:
            out.append(("error-position-inside-text: negative", None))
        if obs["position"] > len(c["text"]):
            out.append(("error-position-inside-text: position %d > length %d" % (obs["position"], len(c["text"])),
                        "truncated-escape-position" if _is_truncated_escape(c, obs) else None))
        for r in obs.get("render", []):
            out.append(("error-can-be-rendered: " + r, None))
    if "bytes_observable" in obs:
        out.append(("utf8-bytes-behave-like-the-text", None))
    fl = obs.get("flat", {})
    if "other" in fl:
        out.append(("fails-only-with-syntax-errors: %s on a long flat run" % fl["other"], None))
    if "mismatch" in fl:
        out.append(("long-flat-runs-do-not-change-the-outcome: " + fl["mismatch"], None))
    return out


def shrink(c, is_bad):
    """drop characters while the disagreement persists"""
    if c["entry"] == "named":
        return c
    if "flat" in c:
        # shorten the run while the failure persists
        f = dict(c["flat"])
        while f["n"] > 2:
            cand = dict(c, flat=dict(f, n=f["n"] // 2))
            if not is_bad(cand):
                break
            f = cand["flat"]
        return dict(c, flat=f)
    text = c["text"]
    step = max(1, len(text) // 2)
    budget = 60
    while step >= 1 and budget > 0:
        i, changed = 0, False
        while i < len(text) and budget > 0:
            cand = dict(c, text=text[:i] + text[i + step:])
            budget -= 1
            if is_bad(cand):
                text = cand["text"]
                changed = True
            else:
                i += step
        if not changed:
            step //= 2
    return dict(c, text=text)


def extra_evidence(cases, obss):
    origins, verdicts, kinds, entries, flags = {}, {}, {}, {}, {}
    for c, o in zip(cases, obss):
        og = c["origin"].split("+")[0]
        origins[og] = origins.get(og, 0) + 1
        entries[c["entry"]] = entries.get(c["entry"], 0) + 1
        flags[str(c["flags"])] = flags.get(str(c["flags"]), 0) + 1
        v = ("accept" if ("accept" in o or "tokens" in o) else
             "reject" if "reject" in o else "other" if "other" in o else "named")
        key = c["origin"].split(":")[0] + ":" + v
        verdicts[key] = verdicts.get(key, 0) + 1
        if "reject" in o:
            kinds[o["cls"]] = kinds.get(o["cls"], 0) + 1
    reached = {False: set(), True: set()}
    for c, o in zip(cases, obss):
        if o.get("site") and c["entry"] != "named":
            reached[bool(c["flags"][0])].add(o["site"])
    static = _static_raise_sites()
    sites = {"static_raise_statements": len(static),
             "reached_with_locations": len(reached[False] & set(static)),
             "reached_with_no_location": len(reached[True] & set(static)),
             "not_reached_with_locations": [x for x in static if x not in reached[False]],
             "not_reached_with_no_location": [x for x in static if x not in reached[True]],
             "note": "parser.py _advance_window (UnexpectedEOF on an empty buffer) and the last line of "
                     "parse_executable_definition are unreachable through parse(); the raise in "
                     "Lexer.__next__ is StopIteration"}
    return {"raise_sites": sites, "distribution": {"origins": origins, "verdict_by_stream": verdicts, "error_classes": kinds,
                             "entries": entries, "flag_triples": flags,
                             "non_ascii_texts": sum(1 for c in cases if any(ord(ch) > 127 for ch in c["text"]))}}
