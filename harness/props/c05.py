# -*- coding: utf-8 -*-
"""C05 -- validated operations cannot go wrong; validation itself never crashes."""
import random

from py_gql import build_schema, graphql_blocking
from py_gql.exc import GraphQLError
from py_gql.lang import parse

from .. import gen_valid, ser, ser_valid, valid_common as vc

PROP = "C05"
THEOREMS = [
    "C05_validate_total", "C05_validate_total_partial", "C05_validate_never_crashes", "C05_close_fuel_sufficient",
    "C05_merge_unambiguous_pairwise", "C05_merge_unambiguous_within", "C05_merge_unambiguous_named", "C05_faithful_locations", "C05_lookups_agree", "C05_lookups_agree_rules",
    "C05_merge_unambiguous_named_valid", "C05_merge_memo_sound",
    "C05_merge_unambiguous_deep", "C05_merge_unambiguous_deep_valid", "C05_conflict_free_unfold", "C05_conflict_free_find",
    "C05_shape_static", "C05_progress_static",
    "C05_runtime_reach_static", "C05_progress_runtime", "C05_shape_runtime", "C05_implements_ok_decidable",
]
AXIOMS_OK = []
RUN_MODULE = "Run.C05run"
AGREE = "agree_C05"
CASE_TYPE = "case_C05"
EXTRA_HEADER = ""
SHARD = 30
LEVEL_NOTE = ("Theorems are about the Gallina model coq/Valid/*.v of py_gql/validation (TypeInfoVisitor context, "
              "VariablesCollector, the 26 rule visitors) for the tree with fixes/C05-*.patch and fixes/C06-*.patch applied; "
              "the model is tied to the repository by running every rule class separately on generated schemas and "
              "documents on every run, and by evaluating the Coq shape checker on the data the real executor returns "
              "for documents the real validator accepts. The executor itself is not modelled here (property C04): the "
              "progress/shape theorems are stated against static (`static_stuck`) and runtime-type (`runtime_stuck`, under the "
              "schema hypothesis implements_ok) predicates over (schema, document), not against executor code.")
RULE = ("per generated schema (anchor part + up to 8 random types of all kinds): valid-by-construction documents "
        "(fragments, inline fragments with/without type condition, aliases, same-key merges, @skip/@include with literals "
        "and variables, custom directives, variables with defaults, nested input objects, 1-3 operations of all kinds), "
        "one labelled violator per rule (26 labels), the adversarial classes of the property (duplicate fields with "
        "list/object/null/variable arguments, fragment cycles, a variable at two differently typed positions, conflicts "
        "through nested multi-letter fragments, transitive use through 3 fragments in every definition order, list "
        "nesting, the introspection meta fields at the query root and below it), random structural mutants; every accepted query/mutation is executed under 3 resolver worlds. "
        "non-trivial = document with a fragment, directive, variable or argument; distinct = distinct (schema, text, kind, world)")


def _case(sdl, tree, origin, label=None):
    c = {"kind": "rules", "sdl": sdl, "text": gen_valid.render(tree, "plain"), "origin": origin}
    if tree.get("allow_type_system"):
        c["ats"] = True
    if label:
        c["label"] = label
    return c


WITNESS_SDL = gen_valid.ANCHOR + "\ntype Query { " + gen_valid.ANCHOR_FIELD + " }\n"
_W = [
    # row 14: duplicate fields with list / variable / null / object arguments
    "{ anchor(req: 1, inn: {v: 1}, lnn: [1]) { id } anchor(req: 1, inn: {v: 1}, lnn: [1]) { id } }",
    "query ($a: Int) { anchor(req: 1, inn: {v: 1}, lnn: [1], i: $a) { id } anchor(req: 1, inn: {v: 1}, lnn: [1], i: $a) { id } }",
    "{ anchor(req: 1, inn: {v: 1}, lnn: [1], i: null) { id } anchor(req: 1, inn: {v: 1}, lnn: [2], i: null) { id } }",
    # row 15: conflict reachable only through nested fragments with multi-letter names
    "{ anchor(req: 1, inn: {v: 1}, lnn: [1]) { ...Aa ...Bb } } fragment Aa on AnchorObj { ...Cc } fragment Bb on AnchorObj { ...Dd } "
    "fragment Cc on AnchorObj { x: name } fragment Dd on AnchorObj { x: id }",
    # row 16: unknown type in a type condition
    "{ anchor(req: 1, inn: {v: 1}, lnn: [1]) { ... on Nope { id } } }",
    "{ anchor(req: 1, inn: {v: 1}, lnn: [1]) { ...F } } fragment F on Nope { id }",
    # row 17: a variable used at two differently typed positions
    "query ($a: Int) { anchor(req: $a, inn: {v: 1}, lnn: [1], i: $a) { id } }",
    "query ($a: Int) { anchor(i: $a, inn: {v: 1}, lnn: [1], req: $a) { id } }",
    # row 19: list literal nesting
    "{ anchor(req: 1, inn: {v: 1}, lnn: [1], lst: [[1]]) { id } }",
    "{ anchor(req: 1, inn: {v: 1}, lnn: [1], i: [1]) { id } }",
    # object / list literal for a custom scalar
    "{ anchor(req: 1, inn: {v: 1}, lnn: [1], sc: {a: 1}) { id } }",
    "{ anchor(req: 1, inn: {v: 1}, lnn: [1], sc: [1]) { id } }",
    # fragment cycle that an early exit of the search misses
    "{ anchor(req: 1, inn: {v: 1}, lnn: [1]) { ...A } } fragment A on AnchorObj { ...B ...C } fragment B on AnchorObj { id } "
    "fragment C on AnchorObj { ...B ...A }",
    # impossible spread below a list typed field; unknown input field below a non-null input object
    "{ anchor(req: 1, inn: {v: 1}, lnn: [1]) { others { ...Q } } } fragment Q on Query { __typename }",
    "{ anchor(req: 1, inn: {zzz: 1}, lnn: [1]) { id } }",
    # seeded C06-a: one key under exclusive parents, the spread fragment clashes with the second entry only
    "{ anchor(req: 1, inn: {v: 1}, lnn: [1]) { ... on Query { n: __typename } ... on AnchorObj { n: name } ...ExF } } "
    "fragment ExF on AnchorObj { ... on AnchorObj { n: id } }",
    "{ anchor(req: 1, inn: {v: 1}, lnn: [1]) { ... on AnchorObj { n: name } ... on Query { n: __typename } ...ExF } } "
    "fragment ExF on AnchorObj { ... on AnchorObj { n: id } }",
]
_EXCL = (_W[-2], _W[-1])   # the two orders of the seeded C06-a witness
# C05-07: a fragment spread inside its own nested same-key fields (RecursionError before the fix)
_W += ["{ anchor(req: 1, inn: {v: 1}, lnn: [1]) { ...G } } fragment G on AnchorObj { self { ...G self { ...G } } }",
       "{ anchor(req: 1, inn: {v: 1}, lnn: [1]) { ...G } } fragment G on AnchorObj { self { self { ...G } ...G } }",
       "{ anchor(req: 1, inn: {v: 1}, lnn: [1]) { ...G } } fragment G on AnchorObj { self { ...G self { ...G x: id } x: name } }"]
# C06-04 (new): object literal at a position of unknown type hid its variables from the later rules
_W += ["mutation ($v0: Int = 42) { k8: anchor(req: 42, inn: {v: $v0}, lnn: [1]) { id } }"]
# seeded C05-b / C06-b: variable positions (see gen_valid.variable_position_forms)
_W += [gen_valid.render({"defs": defs}, "plain") for _n, defs in gen_valid.variable_position_forms(random.Random(7))]
# seeded C06-c: fragment names coinciding with names of other namespaces
_NS = gen_valid.namespace_collision_forms(random.Random(7))
_W += [gen_valid.render({"defs": defs}, "plain") for _n, _l, defs in _NS]
# seeded C06-d: repeated spreads of one fragment, one occurrence carrying a directive that matters
_RS = [f for f in gen_valid.repeated_spread_forms(random.Random(7)) if f[0].split("-")[-1] in ("adjacent", "nested")]
_W += [gen_valid.render({"defs": defs}, "plain") for _n, _l, _o, defs in _RS]
# seeded C05-e: the first spread of a selection set is reached through an inline fragment
_CP = [f for f in gen_valid.conflict_placement_forms(random.Random(7))
       if ("earlier" not in f[0] or "inline-typed" in f[0]) and ("deep" not in f[0] or f[0].startswith("inline"))]
_W += [gen_valid.render({"defs": defs}, "plain") for _n, defs in _CP]
# seeded C05-a: a fragment's field node is the first of two merged nodes at two places
_MERGE = ("{ a: anchor(req: 1, inn: {v: 1}, lnn: [1]) { ...MF self { name } } "
          "b: anchor(req: 1, inn: {v: 1}, lnn: [1]) { ...MF self { count } } } "
          "fragment MF on AnchorObj { self { id } }")
# row 18: transitive fragment use through 3 fragments in every definition order
_CHAIN = ["fragment Ta on AnchorObj { ...Tb }", "fragment Tb on AnchorObj { ...Tc }",
          "fragment Tc on AnchorObj { others(first: $v) { id } }"]


# documents parsed without locations / assembled from separately parsed sources (seeded C06-e, fix 5e820aa)
NL_SDL = ("union U = A | B | C\ntype Query { a: A b: B u: U }\n"
          "type A { x: Int y: String z: A k: Int }\ntype B { x: String y: String z: B k: String }\n"
          "type C { x: String y: String z: C k: String }\n")
# seeded C05-h: one response key twice with related argument literals (gen_valid.object_argument_forms)
_OA = [f for f in gen_valid.object_argument_forms(random.Random(7))
       if f[0].endswith("-direct") or f[0].split("-")[0] in ("subset", "empty")]
_W += [gen_valid.render({"defs": defs}, "plain") for _n, defs in _OA]
# seeded C06-h: required input object fields written in every order (gen_valid.required_order_forms)
_RO = [f for f in gen_valid.required_order_forms(random.Random(7))
       if not f[0].startswith(("argument-optional-", "list-default-"))]
_W += [gen_valid.render({"defs": defs}, "plain") for _n, defs in _RO]

# seeded C05-i: introspection meta fields at the query root and below it (gen_valid.meta_field_forms)
_MF = gen_valid.meta_field_forms(random.Random(7))
_W += [gen_valid.render({"defs": defs}, "plain") for _n, _ok, defs in _MF]

_NL = [
    # 5e820aa: a nested conflict reported on a document without locations (sorted by loc raised TypeError)
    ("{ a { z { k: x } } a { z { k: y } } }", None),
    # structurally equal selection sets `{ k }` under different parent types with different return types
    ("{ u { ... on A { n: z { k } } ... on B { n: z { k } } } }", None),
    ("{ u { ... on B { n: z { k } } ... on A { n: z { k } } } }", None),
    ("{ a { k } u { ... on B { n: z { k } } ... on C { n: z { k t: __typename } } } }", None),
    ("{ u { ... on B { n: z { k } } ... on C { n: z { k t: __typename } } } a { k } }", None),
    ("{ u { ...FA ...FB } } fragment FA on A { n: z { k } } fragment FB on B { n: z { k } }",
     ["{ u { ...FA ...FB } }", "fragment FA on A { n: z { k } }", "fragment FB on B { n: z { k } }"]),
    ("{ u { ...FB ...FA } } fragment FB on B { n: z { k } } fragment FA on A { n: z { k } }",
     ["{ u { ...FB ...FA } }", "fragment FB on B { n: z { k } }", "fragment FA on A { n: z { k } }"]),
    ("{ u { ...FB ...FC } a { k } } fragment FB on B { n: z { k } } fragment FC on C { n: z { k } }",
     ["{ u { ...FB ...FC } a { k } }", "fragment FB on B { n: z { k } }", "fragment FC on C { n: z { k } }"]),
]


# seeded C06-f: the memo keys of OverlappingFieldsCanBeMerged must keep the exclusivity flag -- one
# response name selected three / four times under inline fragments on object types (two on the same
# type), sub-selections mixing a plain field and spreads of one fragment, in all orders
MEMO_SDL = ("union Pet = Dog | Cat\ntype Human { name: String nickname: String }\n"
            "type Dog { owner: Human }\ntype Cat { owner: Human }\ntype Query { pet: Pet }\n")
_MEMO_FRAGS = "fragment F on Human { x: nickname } fragment G on Human { x: name }"
_MEMO_SETS = {
    "fields-vs-fragment": ["... on Dog { owner { x: name } }", "... on Cat { owner { ...F } }", "... on Dog { owner { ...F } }"],
    "fragment-pair": ["... on Dog { owner { ...G } }", "... on Cat { owner { ...F } }", "... on Dog { owner { ...F } }"],
    "quadruple": ["... on Dog { owner { x: name } }", "... on Cat { owner { ...F } }", "... on Dog { owner { ...F } }",
                  "... on Cat { owner { x: nickname } }"],
    "valid-exclusive-only": ["... on Dog { owner { x: name } }", "... on Cat { owner { ...F } }", "... on Cat { owner { x: nickname } }"],
}


def memo_cases():
    import itertools
    out = []
    for name, parts in _MEMO_SETS.items():
        perms = list(itertools.permutations(parts))
        for perm in (perms if len(parts) == 3 else perms[::3]):
            out.append((name, "{ pet { %s } } %s" % (" ".join(perm), _MEMO_FRAGS)))
    return out


def nl_cases():
    out = []
    for text, parts in _NL:
        c = {"kind": "rules", "sdl": NL_SDL, "text": text, "origin": "witness"}
        if parts:
            c["parts"] = parts
        out.append(c)
    return out


def corpus():
    import itertools
    out = [{"kind": "rules", "sdl": WITNESS_SDL, "text": t, "origin": "witness"} for t in _W]
    for perm in itertools.permutations(_CHAIN):
        for head in ("query Q($v: Int) { anchor(req: 1, inn: {v: 1}, lnn: [1]) { ...Ta } }",
                     "query Q { anchor(req: 1, inn: {v: 1}, lnn: [1]) { ...Ta } }"):
            out.append({"kind": "rules", "sdl": WITNESS_SDL, "text": head + " " + " ".join(perm), "origin": "witness"})
    out.extend(nl_cases())
    out.extend({"kind": "rules", "sdl": MEMO_SDL, "text": t, "origin": "witness"} for _n, t in memo_cases())
    out.append({"kind": "shape", "sdl": WITNESS_SDL, "text": _W[0], "opname": None, "vars": {}, "world": 0, "origin": "witness"})
    for name, defs in gen_valid.variable_position_forms(random.Random(7)):
        if name.startswith("shared"):
            for o in defs[:-1]:
                out.append({"kind": "shape", "sdl": WITNESS_SDL, "text": gen_valid.render({"defs": defs}, "plain"),
                            "opname": o["name"], "vars": {"zf": None if o["vars"][0]["type"] == "Boolean" else True},
                            "world": 0, "origin": "witness"})
    # 5d4e174: a null for a defaulted `Boolean` variable used in @skip no longer escapes as CoercionError
    for text in ("query ($s: Boolean = true) { anchor(req: 1, inn: {v: 1}, lnn: [1]) @skip(if: $s) { id } }",
                 "query ($s: Boolean = true) { anchor(req: 1, inn: {v: 1}, lnn: [1]) { id self @include(if: $s) { id } } }"):
        out.append({"kind": "shape", "sdl": WITNESS_SDL, "text": text, "opname": None, "vars": {"s": None}, "world": 0,
                    "origin": "witness"})
    # seeded C05-i: every meta-field form is executed when the implementation accepts it
    for _n, _ok, defs in _MF:
        if _n.endswith("typename") and _n not in ("root-typename", "below-typename"):
            continue
        out.append({"kind": "shape", "sdl": WITNESS_SDL, "text": gen_valid.render({"defs": defs}, "plain"), "opname": "ZM",
                    "vars": {}, "world": 0, "origin": "witness"})
    for world in (0, 1, 2):
        out.append({"kind": "shape", "sdl": WITNESS_SDL, "text": _MERGE, "opname": None, "vars": {}, "world": world,
                    "origin": "witness"})
    return out


def _var_type(schema, texpr):
    return schema.get_type_from_literal(
        parse("query($x: %s){a}" % texpr).definitions[0].variable_definitions[0].type)


def _exec_cases(rng, schema, sdl, tree, origin, null_bias=False):
    from py_gql.exc import UnknownType
    from py_gql.schema import NonNullType
    out = []
    text = gen_valid.render(tree, "plain")
    for op in [d for d in tree["defs"] if d["kind"] == "op" and d["op"] != "subscription" and d["name"]][:4]:
        vs = {}
        try:
            for v in op["vars"]:
                t = _var_type(schema, v["type"])
                if null_bias and not isinstance(t, NonNullType):
                    vs[v["name"]] = None
                else:
                    vs[v["name"]] = gen_valid.gen_var_value(rng, t)
        except (UnknownType, GraphQLError):
            continue
        out.append({"kind": "shape", "sdl": sdl, "text": text, "opname": op["name"], "vars": vs, "world": 0,
                    "origin": origin})
    return out


def generate(rng, tier):
    quick = tier == "quick"
    vc.ALT_RULES_ALL = not quick
    n_schemas = 5 if quick else 16
    n_valid = 16 if quick else 40
    n_mut = 11 if quick else 40
    cases = []
    for si in range(n_schemas):
        sdl = gen_valid.gen_schema(rng)
        schema = vc.schema_of(sdl)
        valid = []
        for _ in range(n_valid):
            tree = gen_valid.gen_document(rng, schema)
            valid.append(tree)
            cases.append(_case(sdl, tree, "valid"))
            # execution of accepted documents
            text = gen_valid.render(tree, "plain")
            ops = [d for d in tree["defs"] if d["kind"] == "op" and d["op"] != "subscription"]
            if ops:
                op = rng.choice(ops)
                for world in (0, 1, 2):
                    vs = {}
                    for v in op["vars"]:
                        t = schema.get_type_from_literal(parse("query($x: %s){a}" % v["type"]).definitions[0].variable_definitions[0].type)
                        if v["default"] is None or rng.random() < 0.5:
                            vs[v["name"]] = gen_valid.gen_var_value(rng, t)
                    cases.append({"kind": "shape", "sdl": sdl, "text": text, "opname": op["name"], "vars": vs,
                                  "world": world, "origin": "valid"})
        for label in range(1, 27):
            for _ in range(1 if quick else 2):
                for _try in range(6):
                    t = gen_valid.violate(rng, schema, rng.choice(valid), label)
                    if t is not None:
                        cases.append(_case(sdl, t, "violator", label))
                        if label == 9:
                            # executed when the implementation accepts it (a meta field below the root)
                            cases.extend(_exec_cases(rng, schema, sdl, t, "violator")[:1])
                        if label == 24:
                            # executed (when the implementation accepts it) per operation with
                            # values each declaration accepts, null where nullable
                            cases.extend(_exec_cases(rng, schema, sdl, t, "violator", null_bias=True))
                        break
        for _ in range(n_mut):
            t = rng.choice(valid)
            for _k in range(rng.randint(1, 2)):
                t = gen_valid.mutate(rng, t)
            cases.append(_case(sdl, t, "mutant"))
        if si < (1 if quick else 4):
            for t in gen_valid.special_mutants(rng):
                cases.append(_case(sdl, t, "special"))
    ok = []
    for c in cases:
        try:
            parse(c["text"], allow_type_system=bool(c.get("ats")))
            ok.append(c)
        except GraphQLError:
            pass
    vc.prefetch(ok + [c for c in corpus()])
    return ok


_EXEC_SCHEMAS = {}


def _exec_schema(sdl, world):
    k = (sdl, world)
    if k not in _EXEC_SCHEMAS:
        s = build_schema(sdl)
        s.default_resolver = gen_valid.make_resolver(s, world)
        _EXEC_SCHEMAS[k] = s
    return _EXEC_SCHEMAS[k]


def run_impl(case):
    obs = vc.run_rules(case)
    if case["kind"] == "rules":
        return obs
    if obs["raised"] or obs["reported"] or obs.get("full") or "full_exc" in obs:
        obs["not_executed"] = True
        return obs
    schema = _exec_schema(case["sdl"], case["world"])
    doc = vc.parse_case(case)
    idx = [i for i, d in enumerate(doc.definitions)
           if getattr(d, "operation", None) and (d.name.value if d.name else None) == case["opname"]]
    try:
        res = graphql_blocking(schema, case["text"], variables=case["vars"], operation_name=case["opname"])
        obs.update({"opidx": idx[0], "data": res.data, "errors": [str(e)[:160] for e in (res.errors or [])]})
    except Exception as e:  # noqa
        obs["exec_exc"] = [type(e).__name__, str(e)[:200]]
    return obs


def to_coq(case, obs):
    global EXTRA_HEADER
    head = vc.rules_term(case, obs)
    EXTRA_HEADER = vc.header()
    if case["kind"] == "shape" and "data" in obs:
        o = "(ObsShape %d %s %s)" % (obs["opidx"], ser.cbool(bool(obs["errors"])), ser_valid.cdata(obs["data"]))
    else:
        o = "(ObsRules %s %s)" % (vc.nlist([r[0] for r in obs["raised"]]), vc.nlist(obs["reported"]))
    return "(%s, %s)" % (head, o)


def show_expr(case, obs):
    return "model_C05 %s" % vc.rules_term(case, obs)


def nontrivial(case, obs):
    t = case["text"]
    return "raised" in obs and ("..." in t or "@" in t or "$" in t or "(" in t)


def canonical(case):
    return (case["sdl"], case["text"], case["kind"], case.get("world"))


def classify(case, obs):
    if "exec_exc" in obs:
        return "executing-a-validated-document-raises-nothing", None
    if case["kind"] == "shape" and "data" in obs:
        return "response-data-has-the-shape-of-selection-and-schema", None
    if obs.get("raised"):
        return "validation-returns-its-error-list-without-raising", None
    return "per-rule-verdict-equals-the-model", None


def direct_checks(case, obs):
    out = vc.rules_direct_checks(case, obs)
    if "exec_exc" in obs:
        out.append(("executing-a-validated-document-raises-nothing", None))
    if case["kind"] == "shape" and "data" in obs and case["world"] < 2 and any(
            "internal" in e.lower() or "Traceback" in e for e in obs["errors"]):
        out.append(("executing-a-validated-document-raises-nothing", None))
    return out


def shrink(case, is_bad):
    """drop whole definitions while the disagreement persists (rules cases)"""
    if case["kind"] != "rules":
        return case
    doc = vc.parse_case(case)
    from py_gql.lang import print_ast
    defs = list(doc.definitions)
    changed = True
    cur = case
    while changed and len(defs) > 1:
        changed = False
        for i in range(len(defs)):
            cand_defs = defs[:i] + defs[i + 1:]
            try:
                text = "\n".join(print_ast(d) for d in cand_defs)
                parse(text, allow_type_system=bool(case.get("ats")))
            except Exception:  # noqa
                continue
            cand = dict(cur, text=text)
            if is_bad(cand):
                defs, cur, changed = cand_defs, cand, True
                break
    return cur


def extra_evidence(cases, obss):
    by_origin, labels, reported, executed, exec_errors = {}, {}, {}, 0, 0
    for c, o in zip(cases, obss):
        by_origin[c["origin"] + ":" + c["kind"]] = by_origin.get(c["origin"] + ":" + c["kind"], 0) + 1
        if c.get("label"):
            labels[vc.label_name(c["label"])] = labels.get(vc.label_name(c["label"]), 0) + 1
        if c["kind"] == "rules":
            for r in o.get("reported", []):
                reported[vc.label_name(r)] = reported.get(vc.label_name(r), 0) + 1
        if "data" in o:
            executed += 1
            exec_errors += 1 if o["errors"] else 0
    rules_cases = [o for c, o in zip(cases, obss) if c["kind"] == "rules"]
    return {"distribution": {
        "cases_by_origin_and_kind": by_origin,
        "schemas": len({c["sdl"] for c in cases}),
        "violators_per_label": labels,
        "documents_reported_per_rule": reported,
        "documents_accepted": sum(1 for o in rules_cases if not o.get("reported") and not o.get("raised")),
        "documents_rejected": sum(1 for o in rules_cases if o.get("reported")),
        "executions_checked_for_shape": executed,
        "executions_with_response_errors": exec_errors,
    }}
