# -*- coding: utf-8 -*-
"""C20 -- schema diffing reports every difference with a severity matching
client impact."""
import json
import os
import subprocess
import sys

from py_gql.exc import SchemaValidationError
from py_gql.lang import parse
from py_gql.schema import EnumType, InputField, InputObjectType, ListType, NonNullType, ScalarType
from py_gql.schema.scalars import SPECIFIED_SCALAR_TYPES
from py_gql.schema.differ import (
    _is_safe_input_type_change,
    _is_safe_output_type_change,
    diff_schema,
)
from py_gql.validation import validate_ast

from .. import common, ser
from .. import gen_schema_full as G

PROP = "C20"
THEOREMS = ["C20_safe_output", "C20_safe_input", "C20_reflexive", "C20_order",
            "C20_unfixed_output_rule_refuted", "C20_edit_reported_partial", "C20_edit_reported_full_refuted",
            "C20_reportable_exact", "C20_positions_sound", "C20_no_breaking_sound_partial",
            "C20_no_spurious_change", "C20_no_breaking_sound_guarded",
            "C20_safe_retype_unreported", "C20_safe_retype_really_safe", "C20_same_response_shape_refuted"]
AXIOMS_OK = []
RUN_MODULE = "Run.C20run Schema.SchemaFull Schema.DifferModel Schema.SchemaValidateModel"
AGREE = "agree_C20"
CASE_TYPE = "case_C20"
EXTRA_HEADER = G.coq_header()
SHARD = 60
LEVEL_NOTE = ("Theorems are about the Gallina model Schema/DifferModel.v of schema/differ/__init__.py "
              "+ changes.py severities (after fixes C20-01, C20-02) over the by-name schema model "
              "Schema/SchemaFull.v; the model is tied to /repo by running both on generated schema "
              "pairs on every run. Root operation types are not an elementary edit of the statement "
              "and are not compared by the differ; message texts are not modelled.")
RULE = ("pairs (valid generated schema over all six kinds, code- or SDL-built; the same schema after "
        "1 or 2-4 elementary edits of the 30 kinds, retypes drawn from all wrappings of depth <= 3 over every "
        "built-in scalar and the schema's own types; "
        "identical and type-order-permuted pairs) + all ordered pairs of wrappings (depth <= 2 quick, 3 thorough) "
        "over nine concrete names (built-in scalars, enum, custom scalar, two input objects) for the two "
        "safe-change predicates; non-trivial = pair built by both routes and the "
        "diff ran; distinct = distinct (old, new) spec pairs")

PATHS = {
    "TypeChangedKind": lambda c: [c.type_name],
    "TypeRemoved": lambda c: [c.type_name],
    "TypeAdded": lambda c: [c.type_name],
    "TypeRemovedFromUnion": lambda c: [c.union.name, c.type_name],
    "TypeAddedToUnion": lambda c: [c.union.name, c.type_name],
    "TypeRemovedFromInterface": lambda c: [c.type.name, c.interface.name],
    "TypeAddedToInterface": lambda c: [c.type.name, c.interface.name],
    "EnumValueRemoved": lambda c: [c.enum.name, c.value.name],
    "EnumValueAdded": lambda c: [c.enum.name, c.value.name],
    "EnumValueDeprecated": lambda c: [c.enum.name, c.old_value.name],
    "EnumValueDeprecationRemoved": lambda c: [c.enum.name, c.old_value.name],
    "EnumValueDeprecationReasonChanged": lambda c: [c.enum.name, c.old_value.name],
    "DirectiveRemoved": lambda c: [c.directive.name],
    "DirectiveAdded": lambda c: [c.directive.name],
    "DirectiveLocationRemoved": lambda c: [c.directive.name, c.location],
    "DirectiveLocationAdded": lambda c: [c.directive.name, c.location],
    "DirectiveArgumentRemoved": lambda c: [c.directive.name, c.argument.name],
    "DirectiveArgumentAdded": lambda c: [c.directive.name, c.argument.name],
    "DirectiveArgumentDefaultValueChange": lambda c: [c.directive.name, c.old_argument.name],
    "DirectiveArgumentChangedType": lambda c: [c.directive.name, c.old_argument.name],
    "FieldArgumentRemoved": lambda c: [c.type.name, c.field.name, c.argument.name],
    "FieldArgumentAdded": lambda c: [c.type.name, c.field.name, c.argument.name],
    "FieldArgumentDefaultValueChange": lambda c: [c.type.name, c.field.name, c.old_argument.name],
    "FieldArgumentChangedType": lambda c: [c.type.name, c.field.name, c.old_argument.name],
    "FieldChangedType": lambda c: [c.type.name, c.old_field.name],
    "FieldRemoved": lambda c: [c.type.name, c.field.name],
    "FieldAdded": lambda c: [c.type.name, c.field.name],
    "FieldDeprecated": lambda c: [c.type.name, c.old_field.name],
    "FieldDeprecationRemoved": lambda c: [c.type.name, c.old_field.name],
    "FieldDeprecationReasonChanged": lambda c: [c.type.name, c.old_field.name],
    "InputFieldRemoved": lambda c: [c.type.name, c.field.name],
    "InputFieldAdded": lambda c: [c.type.name, c.field.name],
    "InputFieldDefaultValueChange": lambda c: [c.type.name, c.old_field.name],
    "InputFieldChangedType": lambda c: [c.type.name, c.old_field.name],
}
SEV = {0: "Compatible", 1: "Dangerous", 2: "Breaking"}


def _py_type(t):
    if t[0] == "N":
        return _NAMED[t[1]]
    if t[0] == "L":
        return ListType(_py_type(t[1]))
    return NonNullType(_py_type(t[1]))


_NAMED = {n: ScalarType(n, serialize=lambda x: x, parse=lambda x: x) for n in ("A", "B", "Sc")}
_NAMED.update({t.name: t for t in SPECIFIED_SCALAR_TYPES})
_NAMED["E"] = EnumType("E", ["V"])
_NAMED["InA"] = InputObjectType("InA", [InputField("a", _NAMED["Int"])])
_NAMED["InB"] = InputObjectType("InB", [InputField("a", _NAMED["Int"])])
# concrete names for the exhaustive predicate sweep: the model compares names for
# equality only, so special treatment of any pair of built-ins is a disagreement
PRED_NAMES = ["Int", "Float", "String", "ID", "Boolean", "E", "Sc", "InA", "InB"]


def _wrappings(base, depth):
    """like G.all_wrappings but also NonNull directly inside NonNull is left out"""
    return G.all_wrappings(base, depth)


# ------------------------------------------------------------------ cases
def _pair(old, new, edits):
    return {"kind": "diff", "old": old, "new": new, "edits": edits}


def _t(s):
    """'[Int!]!' -> type json"""
    s = s.strip()
    if s.endswith("!"):
        return G.NN(_t(s[:-1]))
    if s.startswith("["):
        return G.L(_t(s[1:-1]))
    return G.N(s)


def _mini(fields, extra=None, via="sdl"):
    q = {"kind": "object", "name": "Query", "interfaces": [], "default_resolver": None, "fields": [
        {"name": n, "type": _t(t), "args": [dict(name=a, type=_t(at), default=ad) for a, at, ad in args],
         "depr": None, "resolver": None} for n, t, args in fields]}
    return {"types": [q] + (extra or []), "directives": [], "query": "Query", "mutation": None,
            "subscription": None, "default_resolver": None, "via": via}


def corpus():
    out = []
    # DESIGN section 6 row 38 (fix C20-01): list items relaxed in output position
    for o, n in [("[Int!]", "[Int]"), ("[[Int!]!]", "[[Int!]]"), ("[Int!]!", "[Int]!"), ("[[Int!]]", "[[Int]]"),
                 ("[Int]", "[Int!]"), ("Int", "Int!"), ("[Int]", "[Int]!")]:
        for via in ("sdl", "code"):
            old, new = _mini([("f", o, [])], via=via), _mini([("f", n, [])], via=via)
            out.append(_pair(old, new, [{"edit": "retype_field", "path": ["Query", "f"], "old": _t(o), "new": _t(n)}]))
    # fix C20-02: default of a non-null argument / input field / directive argument dropped
    d3 = {"py": 3, "gql": "3"}
    old, new = _mini([("f", "Int", [("x", "Int!", d3)])]), _mini([("f", "Int", [("x", "Int!", None)])])
    out.append(_pair(old, new, [{"edit": "default_arg", "path": ["Query", "f", "x"]}]))
    inp = lambda d: [{"kind": "input", "name": "I", "fields": [  # noqa: E731
        {"name": "a", "type": _t("Int!"), "default": d}, {"name": "b", "type": _t("Int"), "default": None}]}]
    old = _mini([("f", "Int", [("x", "I", None)])], inp(d3))
    new = _mini([("f", "Int", [("x", "I", None)])], inp(None))
    out.append(_pair(old, new, [{"edit": "default_input_field", "path": ["I", "a"]}]))
    old, new = _mini([("f", "Int", [])]), _mini([("f", "Int", [])])
    old["directives"] = [{"name": "d", "locations": ["FIELD"], "args": [{"name": "x", "type": _t("Int!"), "default": d3}]}]
    new["directives"] = [{"name": "d", "locations": ["FIELD"], "args": [{"name": "x", "type": _t("Int!"), "default": None}]}]
    out.append(_pair(old, new, [{"edit": "default_dir_arg", "path": ["d", "x"]}]))
    # seeded C20-f: a memoised InputObjectType.field_map survives clone() / the fields setter / transforms
    d2 = lambda fs: [{"kind": "input", "name": "I", "fields": [  # noqa: E731
        {"name": n_, "type": _t(t_), "default": None} for n_, t_ in fs]}]
    o_ = _mini([("f", "Int", [("x", "I", None)])], d2([("a", "Int"), ("b", "Int")]), via="code")
    for mode in ("in_place", "clone_setter", "transform"):
        n_ = _mini([("f", "Int", [("x", "I", None)])], d2([("a", "Int")]), via="code")
        out.append(dict(_pair(o_, n_, [{"edit": "remove_input_field", "path": ["I", "b"]}]), derive=mode))
    n_ = _mini([("f", "Int", [("x", "I", None)])], d2([("a", "Int"), ("b", "String"), ("c", "Int")]), via="code")
    out.append(dict(_pair(o_, n_, [{"edit": "retype_input_field", "path": ["I", "b"], "old": _t("Int"), "new": _t("String")},
                                   {"edit": "add_input_field", "path": ["I", "c"]}]), derive="clone_setter"))
    # seeded C20-i: the implemented-interface maps must be real dicts (membership tested repeatedly)
    def _ifs(order):
        fld = lambda n_, t_="Int": {"name": n_, "type": G.N(t_), "args": [], "depr": None, "resolver": None}  # noqa: E731
        return {"types": [
            {"kind": "object", "name": "Query", "interfaces": [], "default_resolver": None, "fields": [fld("o", "Ob")]},
            {"kind": "object", "name": "Ob", "interfaces": list(order), "default_resolver": None,
             "fields": [fld("a"), fld("b"), fld("c")]},
            {"kind": "interface", "name": "A", "fields": [fld("a")]},
            {"kind": "interface", "name": "B", "fields": [fld("b")]},
            {"kind": "interface", "name": "C", "fields": [fld("c")]}],
            "directives": [], "query": "Query", "mutation": None, "subscription": None,
            "default_resolver": None, "via": "sdl"}
    out.append(dict(_pair(_ifs("ABC"), _ifs("CBA"), []), expect_no_change=True))
    out.append(dict(_pair(_ifs("ABC"), _ifs("BCA"), []), expect_no_change=True))
    out.append(_pair(_ifs("ABC"), _ifs("BC"), [{"edit": "remove_interface", "path": ["Ob", "A"]}]))
    out.append(_pair(_ifs("ABC"), _ifs("AC"), [{"edit": "remove_interface", "path": ["Ob", "B"]}]))
    out.append(_pair(_ifs("AC"), _ifs("ABC"), [{"edit": "add_interface", "path": ["Ob", "B"]}]))
    out.append(_pair(_ifs("BC"), _ifs("ABC"), [{"edit": "add_interface", "path": ["Ob", "A"]}]))
    # seeded C20-g: types built from the same SDL definition nodes are not skipped -- clone(), transforms and
    # public setters rewrite a type and keep its `nodes`
    w_old = {"types": [
        {"kind": "object", "name": "Query", "interfaces": [], "default_resolver": None, "fields": [
            {"name": "items", "type": _t("[Item]"), "depr": None, "resolver": None,
             "args": [{"name": "limit", "type": _t("Int"), "default": {"py": 3, "gql": "3"}},
                      {"name": "filter", "type": _t("Filter"), "default": None}]},
            {"name": "internal_count", "type": _t("Int"), "args": [], "depr": None, "resolver": None}]},
        {"kind": "object", "name": "Item", "interfaces": [], "default_resolver": None, "fields": [
            {"name": "name", "type": _t("String"), "args": [], "depr": None, "resolver": None}]},
        {"kind": "input", "name": "Filter", "fields": [{"name": "q", "type": _t("String"), "default": None},
                                                        {"name": "internal_flag", "type": _t("Boolean"), "default": None}]}],
        "directives": [], "query": "Query", "mutation": None, "subscription": None, "default_resolver": None, "via": "sdl"}
    import copy as _copy
    w_hide = _copy.deepcopy(w_old)      # transform_schema(old, HideInternals()): FieldRemoved + InputFieldRemoved
    w_hide["types"][0]["fields"].pop()
    w_hide["types"][2]["fields"].pop()
    out.append(dict(_pair(w_old, w_hide, [{"edit": "remove_field", "path": ["Query", "internal_count"]},
                                          {"edit": "remove_input_field", "path": ["Filter", "internal_flag"]}]),
                    derive="transform"))
    w_def = _copy.deepcopy(w_old)       # clone + `del limit.default_value`: the default change
    w_def["types"][0]["fields"][0]["args"][0]["default"] = None
    for mode in ("clone_setter", "in_place"):
        out.append(dict(_pair(w_old, w_def, [{"edit": "default_arg", "path": ["Query", "items", "limit"]}]), derive=mode))
    out.append(dict(_pair(w_old, w_old, [{"edit": "camel_case", "path": []}]), derive="camel_case"))
    # open finding: safe retype not reported at all
    old, new = _mini([("f", "Int", [("x", "Int!", None)])]), _mini([("f", "Int!", [("x", "Int", None)])])
    out.append(_pair(old, new, [{"edit": "retype_field", "path": ["Query", "f"], "old": _t("Int"), "new": _t("Int!")}]))
    return out


_SEED_OBS = {}
_TIER = ["quick"]
_BUILT = {}


def _build(spec):
    """build once per spec object (diff_schema does not modify the schemas
    apart from their validation memo)"""
    e = _BUILT.get(id(spec))
    if e is not None and e[0] is spec:
        return e[1]
    sch = G.build(spec)
    _BUILT[id(spec)] = (spec, sch)
    return sch


def _buildable(spec):
    try:
        _build(spec)
        return True
    except Exception:
        return False


def generate(rng, tier):
    _TIER[0] = tier
    n_base = 36 if tier == "quick" else 280
    per_base = 6 if tier == "quick" else 8
    cases = []
    for i in range(n_base):
        via = "code" if i % 2 else "sdl"
        base = G.gen_valid_spec(rng, via)
        if not _buildable(base):
            continue
        # identical and permuted
        if i % 4 == 0:
            cases.append(_pair(base, G.permute_types(rng, base), []))
        made = 0
        tries = 0
        while made < per_base and tries < 40:
            tries += 1
            n_edits = 1 if rng.random() < 0.65 else rng.randint(2, 4)
            cur, descs = base, []
            for _ in range(n_edits):
                r = G.apply_edit(rng, cur, rng.choice(G.EDIT_KINDS))
                if r is not None:
                    cur, d = r
                    descs.append(d)
            if not descs or not _buildable(cur):
                continue
            if rng.random() < 0.3:
                cur = G.permute_types(rng, cur)
            cases.append(_pair(base, cur, descs))
            made += 1
    # every edit kind at least a few times as a single edit
    for k in G.EDIT_KINDS:
        got = 0
        for _ in range(60):
            if got >= (2 if tier == "quick" else 10):
                break
            base = G.gen_valid_spec(rng, rng.choice(["code", "sdl"]))
            r = G.apply_edit(rng, base, k)
            if r is None or not _buildable(base) or not _buildable(r[0]):
                continue
            cases.append(_pair(base, r[0], [r[1]]))
            got += 1
    # two different edits of the SAME element (e.g. an argument both retyped and given another
    # default): each must still be reported (comparison chains must not stop at the first hit)
    same_pairs = [("retype_arg", "default_arg"), ("retype_input_field", "default_input_field"),
                  ("retype_dir_arg", "default_dir_arg"), ("retype_field", "deprecate_field"),
                  ("default_arg", "retype_arg"), ("default_input_field", "retype_input_field")]
    for k1, k2 in same_pairs:
        got = 0
        for _ in range(80):
            if got >= (4 if tier == "quick" else 25):
                break
            base = G.gen_valid_spec(rng, rng.choice(["code", "sdl"]))
            if not _buildable(base):
                continue
            r1 = G.apply_edit(rng, base, k1)
            if r1 is None:
                continue
            r2 = None
            for _t2 in range(40):
                r = G.apply_edit(rng, r1[0], k2)
                if r is not None and r[1]["path"] == r1[1]["path"]:
                    r2 = r
                    break
            if r2 is None or not _buildable(r2[0]):
                continue
            cases.append(_pair(base, r2[0], [r1[1], r2[1]]))
            got += 1
    # single retypes at every wrapper depth <= 3, all pairs over one name (output and input position)
    ws = _wrappings("Int", 3)
    pairs = [(o, n) for o in ws for n in ws if o != n]
    if tier == "quick":
        pairs = rng.sample(pairs, 30)
    for o, n in pairs:
        cases.append(_pair(_mini([("f", G.tstr(o), [])]), _mini([("f", G.tstr(n), [])]),
                           [{"edit": "retype_field", "path": ["Query", "f"], "old": o, "new": n}]))
        cases.append(_pair(_mini([("f", "Int", [("x", G.tstr(o), None)])]), _mini([("f", "Int", [("x", G.tstr(n), None)])]),
                           [{"edit": "retype_arg", "path": ["Query", "f", "x"], "old": o, "new": n}]))
    # retypes across every ordered pair of built-in scalars, in argument / input field /
    # directive argument / field position, bare and under wrappers (also with a dropped non-null)
    shapes = [("%s", "%s"), ("%s!", "%s"), ("[%s]", "[%s]"), ("[%s!]!", "[%s]")]
    bpairs = [(a, b) for a in G.BUILTIN_NAMES for b in G.BUILTIN_NAMES if a != b]
    for a, b in bpairs:
        for so, sn in (shapes if tier == "thorough" else [shapes[0], rng.choice(shapes[1:])]):
            o, n = _t(so % a), _t(sn % b)
            cases.append(_pair(_mini([("f", "Int", [("x", G.tstr(o), None)])]), _mini([("f", "Int", [("x", G.tstr(n), None)])]),
                               [{"edit": "retype_arg", "path": ["Query", "f", "x"], "old": o, "new": n}]))
            inp = lambda t: [{"kind": "input", "name": "I", "fields": [  # noqa: E731
                {"name": "a", "type": t, "default": None}, {"name": "b", "type": _t("Int"), "default": None}]}]
            cases.append(_pair(_mini([("f", "Int", [("x", "I", None)])], inp(o)), _mini([("f", "Int", [("x", "I", None)])], inp(n)),
                               [{"edit": "retype_input_field", "path": ["I", "a"], "old": o, "new": n}]))
            if tier == "thorough" or rng.random() < 0.3:
                od, nd = _mini([("f", "Int", [])]), _mini([("f", "Int", [])])
                od["directives"] = [{"name": "d", "locations": ["FIELD"], "args": [{"name": "x", "type": o, "default": None}]}]
                nd["directives"] = [{"name": "d", "locations": ["FIELD"], "args": [{"name": "x", "type": n, "default": None}]}]
                cases.append(_pair(od, nd, [{"edit": "retype_dir_arg", "path": ["d", "x"], "old": o, "new": n}]))
                cases.append(_pair(_mini([("f", G.tstr(o), [])]), _mini([("f", G.tstr(n), [])]),
                                   [{"edit": "retype_field", "path": ["Query", "f"], "old": o, "new": n}]))
    # histories: the edited schema is DERIVED from a schema object that has already been diffed
    # (in place through public setters, clone() + setters, transform_schema with a visibility /
    # camel-case transform, extend_schema); sources are SDL-built (types carry their definition
    # `nodes`) and code-built alternately; every member-level edit kind
    member_kinds = ["add_field", "remove_field", "retype_field", "deprecate_field",
                    "add_arg", "remove_arg", "retype_arg", "default_arg",
                    "add_input_field", "remove_input_field", "retype_input_field", "default_input_field",
                    "deprecate_enum_value", "add_union_member", "remove_union_member",
                    "add_interface", "remove_interface"]
    mode_kinds = {"in_place": member_kinds, "clone_setter": member_kinds,
                  "transform": ["remove_field", "remove_input_field"],
                  "extend": ["add_field", "add_input_field", "add_enum_value"],
                  "camel_case": [None]}
    for mode in G.DERIVE_MODES:
        kinds = mode_kinds[mode]
        want = {"in_place": 14, "clone_setter": 14, "transform": 8, "extend": 6, "camel_case": 3}[mode]
        if tier != "quick":
            want *= 5
        got = 0
        for attempt in range(want * 30):
            if got >= want:
                break
            via = "sdl" if attempt % 3 else "code"
            base = G.gen_valid_spec(rng, via)
            kind = kinds[got % len(kinds)]
            if kind is None:
                new, descs = base, [{"edit": "camel_case", "path": []}]
            else:
                r = G.apply_edit(rng, base, kind)
                if r is None:
                    continue
                new, descs = r[0], [r[1]]
                if mode == "extend":    # an extension appends: move the added member to the end
                    for td in new["types"]:
                        if td["name"] == r[1]["path"][0]:
                            lst = td.get("values") if td["kind"] == "enum" else td.get("fields")
                            x = next(m for m in lst if m["name"] == r[1]["path"][-1])
                            lst.remove(x)
                            lst.append(x)
            if not _buildable(base) or not _buildable(new):
                continue
            try:
                _build(new).validate()
                G.derive_schema(base, new, mode)
            except Exception:  # the edited schema must be valid and derivable that way
                continue
            cases.append(dict(_pair(base, new, descs), derive=mode))
            got += 1
    # objects implementing 2-4 interfaces: the `implements` list permuted (no change expected: the result
    # is a multiset and interface membership is a set), an interface removed at every position, a missing
    # one added at every position; code- and SDL-built
    for i in range(3 if tier == "quick" else 12):
        base = G.gen_multi_iface_spec(rng, "sdl" if i % 2 else "code", n_ifaces=2 + i % 3)
        if not _buildable(base):
            continue
        variants = G.interface_list_edits(base)
        if tier == "quick":
            variants = [v for v in variants if v[0] == "permute"] + rng.sample(
                [v for v in variants if v[0] != "permute"], min(8, len([v for v in variants if v[0] != "permute"])))
        for vk, new, desc in variants:
            if not _buildable(new):
                continue
            c = _pair(base, new, [desc] if desc else [])
            if vk == "permute":
                c["expect_no_change"] = True
            cases.append(c)
    # safe retypes of input positions (same name, non-null dropped): nothing BREAKING is reported, so the
    # variable-through-old-type operations are re-validated on them
    for a in (G.BUILTIN_NAMES if tier == "thorough" else ["Int", "Float"]):
        for so, sn in [("%s!", "%s"), ("[%s!]!", "[%s]"), ("[[%s!]]", "[[%s]]")]:
            o, n = _t(so % a), _t(sn % a)
            cases.append(_pair(_mini([("f", "Int", [("x", G.tstr(o), None)])]), _mini([("f", "Int", [("x", G.tstr(n), None)])]),
                               [{"edit": "retype_arg", "path": ["Query", "f", "x"], "old": o, "new": n}]))
            inp = lambda t: [{"kind": "input", "name": "I", "fields": [  # noqa: E731
                {"name": "a", "type": t, "default": None}, {"name": "b", "type": _t("Int"), "default": None}]}]
            cases.append(_pair(_mini([("f", "Int", [("x", "I", None)])], inp(o)), _mini([("f", "Int", [("x", "I", None)])], inp(n)),
                               [{"edit": "retype_input_field", "path": ["I", "a"], "old": o, "new": n}]))
            od, nd = _mini([("f", "Int", [])]), _mini([("f", "Int", [])])
            od["directives"] = [{"name": "d", "locations": ["FIELD"], "args": [{"name": "x", "type": o, "default": None}]}]
            nd["directives"] = [{"name": "d", "locations": ["FIELD"], "args": [{"name": "x", "type": n, "default": None}]}]
            cases.append(_pair(od, nd, [{"edit": "retype_dir_arg", "path": ["d", "x"], "old": o, "new": n}]))
    # the two predicates, exhaustively on all ordered pairs of wrappings (depth <= 2 quick, <= 3
    # thorough) over nine concrete names: the five built-in scalars, an enum, a custom scalar,
    # two input objects (+ the two abstract names used to classify the open finding)
    depth = 2 if tier == "quick" else 3
    allw = [w for nme in PRED_NAMES for w in _wrappings(nme, depth)]
    for o in allw:
        for n in allw:
            cases.append({"kind": "pred", "o": o, "n": n})
    allw = _wrappings("A", 3) + _wrappings("B", 3)
    for o in allw:
        for n in allw:
            if tier == "thorough" or rng.random() < 0.25:
                cases.append({"kind": "pred", "o": o, "n": n})
    if tier == "thorough":
        _run_hash_seeds([c for c in cases if c["kind"] == "diff"])
    return cases


# ------------------------------------------------------------------ implementation side
def _changes(old_s, new_s):
    out = []
    for c in diff_schema(old_s, new_s):
        cls = type(c).__name__
        out.append([cls, int(c.severity), PATHS[cls](c)])
    return sorted(out)


def _diff_obs(case):
    derived = case.get("derive")
    if derived:
        # `new` is derived from a schema object that has been diffed before; the model gets the
        # structures as dumped from the real objects (.fields), after the diff
        old_s, new_s = G.derive_schema(case["old"], case["new"], derived)
    else:
        old_s, new_s = _build(case["old"]), _build(case["new"])
    try:
        obs = {"changes": _changes(old_s, new_s)}
        if derived:
            obs["coq"] = [G.cschema(old_s), G.cschema(new_s)]
        return obs, old_s, new_s
    except SchemaValidationError:
        return {"invalid": True}, old_s, new_s
    except Exception as e:  # noqa
        return {"exc": type(e).__name__, "msg": str(e)[:300]}, old_s, new_s


def _case_key(case):
    return json.dumps([case["old"], case["new"]], sort_keys=True)


def _run_hash_seeds(cases):
    """thorough: the same diffs in fresh interpreters under three PYTHONHASHSEEDs"""
    d = common.scratch_dir()
    inp = os.path.join(d, "c20_seed_cases.json")
    with open(inp, "w") as f:
        json.dump(cases, f)
    for seed in ("1", "2", "12345"):
        env = dict(os.environ)
        env["PYTHONHASHSEED"] = seed
        env["PYTHONPATH"] = os.path.join(common.REPO, "src") + os.pathsep + common.VERIF
        r = subprocess.run(
            ["timeout", "900", sys.executable, "-m", "harness.props.c20", inp],
            env=env, stdout=subprocess.PIPE, stderr=subprocess.PIPE, text=True, cwd=common.VERIF)
        if r.returncode != 0:
            raise RuntimeError("hash seed run failed: " + r.stderr[-500:])
        for case, obs in zip(cases, json.loads(r.stdout)):
            _SEED_OBS.setdefault(_case_key(case), []).append([seed, obs])


def run_impl(case):
    if case["kind"] == "pred":
        o, n = _py_type(case["o"]), _py_type(case["n"])
        return {"safe_in": bool(_is_safe_input_type_change(o, n)),
                "safe_out": bool(_is_safe_output_type_change(o, n))}
    obs, old_s, new_s = _diff_obs(case)
    if "changes" in obs and not any(c[1] == 2 for c in obs["changes"]):
        # implementation-side clause: operations valid against old stay valid when nothing BREAKING
        import random
        rng = random.Random(len(json.dumps(case["old"], sort_keys=True)))
        ops = []
        texts = G.gen_operations(rng, old_s, 3 if _TIER[0] == "quick" else 5)
        # every retyped input position is also reached through a variable declared with the OLD type
        for d in case["edits"]:
            try:
                texts = G.variable_operations(rng, old_s, d) + texts
            except Exception:  # noqa - the route finder is best effort
                pass
        for text in texts:
            try:
                doc = parse(text)
                if validate_ast(old_s, doc).errors:
                    continue
                errs = [str(e)[:200] for e in validate_ast(new_s, doc).errors]
            except Exception as e:  # noqa
                errs = ["exception %s: %s" % (type(e).__name__, str(e)[:200])]
            ops.append({"op": text, "new_errors": errs})
        obs["ops"] = ops
    k = _case_key(case)
    if k in _SEED_OBS:
        obs["seed_runs"] = _SEED_OBS[k]
    return obs


def _cchange(c):
    return "(mkChange C%s %s %s)" % (c[0], SEV[c[1]], ser.clist(c[2], ser.cstr))


def _cty(t):
    if t[0] == "N":
        return "(TyNamed %s)" % ser.cstr(t[1])
    return "(%s %s)" % ("TyList" if t[0] == "L" else "TyNonNull", _cty(t[1]))


def to_coq(case, obs):
    if case["kind"] == "pred":
        return "(CasePred %s %s %s %s)" % (_cty(case["o"]), _cty(case["n"]),
                                           ser.cbool(obs["safe_in"]), ser.cbool(obs["safe_out"]))
    if "coq" in obs:
        told, tnew = obs["coq"]
    else:
        told, tnew = G.cschema(_build(case["old"])), G.cschema(_build(case["new"]))
    if "changes" in obs:
        o = "(ObsChanges %s)" % ser.clist(obs["changes"], _cchange)
    elif obs.get("invalid"):
        o = "ObsInvalid"
    else:
        o = "ObsOther"
    return "(CaseDiff %s %s %s)" % (told, tnew, o)


def show_expr(case, obs):
    if case["kind"] == "pred":
        return "(safe_in %s %s, safe_out %s %s)" % ((_cty(case["o"]), _cty(case["n"])) * 2)
    if "coq" in obs:
        return "model_C20 %s %s" % tuple(obs["coq"])
    return "model_C20 %s %s" % (G.cschema(G.build(case["old"])), G.cschema(G.build(case["new"])))


def nontrivial(case, obs):
    return case["kind"] == "diff" and "changes" in obs


def canonical(case):
    return json.dumps(case, sort_keys=True)


def classify(case, obs):
    if case["kind"] == "pred":
        return "safe-type-change-predicates", None
    if "exc" in obs:
        return "raises-nothing", None
    return "change-multiset", None


def _retype_is_safe(d):
    o, n = _py_type(_rename(d["old"])), _py_type(_rename(d["new"]))
    if d["edit"] == "retype_field":
        return bool(_is_safe_output_type_change(o, n))
    return bool(_is_safe_input_type_change(o, n))


def _rename(t):
    return ["N", "A"] if t[0] == "N" else [t[0], _rename(t[1])]


def direct_checks(case, obs):
    out = []
    if case["kind"] != "diff":
        return out
    if "exc" in obs:
        return [("raises-nothing: %s" % obs["exc"], None)]
    if "changes" not in obs:
        return out
    changes = obs["changes"]
    # every elementary edit is reported with a change naming the edited element
    if len(case["edits"]) == 1 and case["edits"][0]["edit"] != "camel_case":
        d = case["edits"][0]
        if not any(c[2] == d["path"] for c in changes):
            if d["edit"].startswith("retype_") and G.tbase(d["old"]) == G.tbase(d["new"]) and _retype_is_safe(d):
                out.append(("edit-reported", "safe-retype-unreported"))
            else:
                out.append(("edit-reported: %s %s" % (d["edit"], d["path"]), None))
    if case.get("expect_no_change") and changes:
        out.append(("order-independent: permuted implements list yields %s" % changes[:2], None))
    if not case["edits"] and changes and json.dumps(sorted(map(json.dumps, case["old"]["types"]))) == \
            json.dumps(sorted(map(json.dumps, case["new"]["types"]))):
        out.append(("reflexive", None))
    # nothing BREAKING => operations valid against old are valid against new
    if not any(c[1] == 2 for c in changes):
        for o in obs.get("ops", []):
            if o["new_errors"]:
                out.append(("no-breaking-sound: %s" % o["op"][:120], None))
                break
    for seed, so in obs.get("seed_runs", []):
        if so != {k: v for k, v in obs.items() if k in ("changes", "invalid", "exc", "msg")}:
            out.append(("hash-seed-independent: PYTHONHASHSEED=%s" % seed, None))
            break
    return out


def shrink(case, is_bad):
    if case["kind"] != "diff":
        return case
    # drop types that are identical on both sides and unreferenced
    cur = case
    changed = True
    while changed:
        changed = False
        for td in list(cur["old"]["types"]):
            if td["name"] in ("Query",) or td not in cur["new"]["types"]:
                continue
            cand = dict(cur, old=dict(cur["old"], types=[t for t in cur["old"]["types"] if t != td]),
                        new=dict(cur["new"], types=[t for t in cur["new"]["types"] if t != td]))
            try:
                G.build(cand["old"]), G.build(cand["new"])
            except Exception:
                continue
            if is_bad(cand):
                cur, changed = cand, True
                break
    return cur


def extra_evidence(cases, obss):
    import collections
    kinds = collections.Counter()
    classes = collections.Counter()
    n_ops = n_ops_checked = 0
    for c, o in zip(cases, obss):
        if c["kind"] != "diff":
            kinds["pred"] += 1
            continue
        kinds["diff:" + ("invalid" if o.get("invalid") else "ok" if "changes" in o else "exc")] += 1
        if c.get("derive"):
            kinds["derived:" + c["derive"]] += 1
        for e in c["edits"]:
            kinds["edit:" + e["edit"]] += 1
        for ch in o.get("changes", []):
            classes["%s/%s" % (ch[0], SEV[ch[1]])] += 1
        n_ops += len(o.get("ops", []))
        if "changes" in o and not any(ch[1] == 2 for ch in o["changes"]):
            n_ops_checked += len(o.get("ops", []))
    return {"distribution": {"cases": dict(kinds), "change_classes_seen": dict(classes),
                             "operations_valid_against_old": n_ops,
                             "operations_revalidated_without_breaking_change": n_ops_checked,
                             "operations_through_variable_of_old_type": sum(
                                 1 for o in obss for x in o.get("ops", []) if "($v:" in x["op"]),
                             "hash_seed_runs": sum(len(o.get("seed_runs", [])) for o in obss)},
            "exhaustive_part": "safe_in/safe_out on all ordered pairs of wrappings (depth <= 2 quick / 3 thorough) over Int, Float, String, ID, Boolean, an enum, a custom scalar, two input objects"}


if __name__ == "__main__":
    # hash-seed worker: diff the cases of the given file in this interpreter
    cs = json.load(open(sys.argv[1]))
    res = []
    for c in cs:
        o = _diff_obs(c)[0]
        o.pop("coq", None)
        res.append(o)
    json.dump(res, sys.stdout)
