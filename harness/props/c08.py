# -*- coding: utf-8 -*-
"""C08 -- results do not depend on runtime, executor variant or completion order."""
import json
import os
import random
import sys

from .. import gen_sched, sched, sched_comb, sched_prog as sp

PROP = "C08"
THEOREMS = ["C08_gather", "C08_gather_mixed", "C08_unwrap_mixed", "C08_gather_once", "C08_chain", "C08_chain_done", "C08_chain_plain", "C08_unwrap",
            "C08_confluence", "C08_termination", "C08_unexpected", "C08_blocking_configs",
            "C08_blocking_configs_fail", "C08_progress", "C08_schedule_bounded", "C08_complete_schedule_exists",
            "C08_refine_gather", "C08_refine_gather_fire", "C08_refine_chain", "C08_refine_chain_else",
            "C08_refine_unwrap"]
AXIOMS_OK = []
RUN_MODULE = "Exec.RuntimeMachine Exec.RuntimeFutures Run.C08run"
AGREE = "agree_C08"
CASE_TYPE = "case_C08"
SHARD = 40
# corpus() is not told the tier: the quick tier replays every corpus witness under at most 120 completion
# orders (exhaustive up to 5 deferred calls) + samples, the thorough tier under 720 + samples
QUICK = "thorough" not in sys.argv and os.environ.get("VERIF_TIER") != "thorough"
CORPUS_ORDERS = (120, 12) if QUICK else (720, 20)
LEVEL_NOTE = ("Theorems are about two Gallina models: Exec/RuntimeFutures.v (callback-level heap machine for "
              "runtime/threadpool.py chain / gather_futures / unwrap_future) and Exec/RuntimeMachine.v "
              "(small-step machine for the generic Executor over deferred values; programs are behaviour trees, "
              "i.e. operations with the resolvers' behaviour folded in). Both are tied to /repo by running the "
              "unmodified runtimes under every completion order chosen by harness/sched.py. A callback body is "
              "atomic in the model (CPython executes it without pre-emption at the modelled points; stated, not "
              "proved); asyncio.gather / await and concurrent.futures.Future are modelled by their documented "
              "contract; cancellation is outside the quantifier.")
RULE = ("behaviour-tree programs with 1-6 deferred resolver calls (modes S/P/C, nested deferred values, objects, "
        "lists, non-null, custom-scalar leaves that serialise to null or whose serialisation raises, ResolverError / RuntimeError at any field) x 5 configurations (BlockingExecutor; Executor on BlockingRuntime, AsyncIORuntime without and with thread offload, ThreadPoolRuntime; plus a third-party promise-style Runtime written against the public Runtime ABC); asyncio and thread pool "
        "under every admissible completion order (depth-first replay, exhaustive up to the tier's bound, sampled "
        "beyond); thread pool also with every subset of the submitted calls completing before submit returns "
        "(configuration poole: small operations, failures at every position, exhaustive); non-trivial = a deferred configuration with at least two completion orders or a failure; "
        "distinct = distinct (program, configuration)")

CFG = {"bexec": "CBlockingExec", "brt": "CBlockingRt", "aio": "CAsyncio", "aiot": "CAsyncio", "pool": "CPool",
       "poole": "CPool", "poolh": "CPool", "prom": "CPool", "threads": "CThreads"}


def F(k, m, b, nn=False, lv=0, **kw):
    return dict(k=k, m=m, lv=lv, nn=nn, b=b, **kw)


def _corpus_programs():
    I = lambda z: ["int", z]  # noqa
    ps = []
    # the spike of DESIGN.md section 10
    ps.append({"op": "query", "fields": [
        F(0, "C", ["obj", [F(1, "C", I(1)), F(2, "C", I(2))]]),
        F(3, "C", ["obj", [F(4, "C", I(4)), F(5, "C", ["err"], sh="i")]]), F(6, "C", I(6))]})
    # failures at gather: first failure wins, later completions must not disturb it
    ps.append({"op": "query", "fields": [F(0, "C", ["exn", 1], sh="i"), F(1, "C", ["exn", 2], sh="i"), F(2, "C", I(2))]})
    ps.append({"op": "query", "fields": [F(0, "C", I(0)), F(1, "C", ["obj", [F(2, "C", ["exn", 3], sh="i"), F(3, "C", I(3))]]),
                                         F(4, "P", I(4))]})
    # nested deferred values (unwrap)
    ps.append({"op": "query", "fields": [F(0, "C", I(0), lv=2), F(1, "C", ["obj", [F(2, "C", I(2), lv=1)]], lv=1)]})
    # synchronous exception while siblings are in flight
    ps.append({"op": "query", "fields": [F(0, "C", I(0)), F(1, "S", ["exn", 7], sh="i"), F(2, "C", I(2))]})
    ps.append({"op": "query", "fields": [F(0, "C", ["obj", [F(1, "C", I(1)), F(2, "S", ["exn", 7], sh="i")]]), F(3, "C", I(3))]})
    # lists of deferred objects, non-null violations
    ps.append({"op": "query", "fields": [F(0, "C", ["list", True, "obj", [
        ["obj", [F(1, "C", I(1)), F(2, "S", ["null"], nn=True, sh="in")]], ["null"],
        ["obj", [F(1, "C", ["err"], sh="i"), F(2, "S", I(5), nn=True)]]]], nn=True)]})
    ps.append({"op": "mutation", "fields": [F(0, "C", ["obj", [F(1, "C", I(1))]]), F(2, "C", ["err"], sh="i"), F(3, "P", I(3))]})
    # a leaf that *completes* to null from a non-null resolved value (custom scalar serialising to
    # null) at non-null positions, immediate and deferred; a serialisation that raises
    ps.append({"op": "query", "fields": [F(0, "S", ["snull"], nn=True), F(1, "C", ["snull"], nn=True), F(2, "P", ["snull"]),
                                         F(3, "S", ["list", True, "sc", [["int", 1], ["snull"], ["null"]]], nn=True),
                                         F(4, "C", ["list", True, "sc", [["snull"]]])]})
    ps.append({"op": "query", "fields": [F(0, "C", ["obj", [F(1, "S", ["snull"], nn=True), F(2, "C", ["sbad", 11])]]),
                                         F(3, "C", I(3))]})
    ps.append({"op": "query", "fields": [F(0, "S", ["sbad", 12], nn=True), F(1, "C", I(1))]})
    # resolver attachment through the default resolver: method returning a deferred value (D),
    # attribute (A), dict value (V); with a middleware
    ps.append({"op": "query", "fields": [F(0, "D", ["obj", [F(1, "C", I(1)), F(2, "A", I(2)), F(3, "D", ["err"], sh="i")]]),
                                         F(4, "A", ["list", False, "obj", [["obj", [F(5, "D", I(5))]], ["obj", [F(5, "D", ["exn", 4], sh="i")]]]])]})
    ps.append({"op": "query", "fields": [F(0, "V", ["obj", [F(1, "V", I(1)), F(2, "C", I(2), lv=1)]]), F(3, "V", ["null"], nn=True, sh="in")],
               "mw": True})
    # field arguments named like parameters of the library's / the runtimes' plumbing (`fn`: the
    # first parameter of Runtime.submit), on resolvers of every kind
    ps.append({"op": "query", "fields": [dict(F(0, "P", I(0)), args={"fn": 1}), dict(F(1, "C", I(1)), args={"fn": 2, "func": 3}),
                                         dict(F(2, "S", I(2)), args={"self": 1, "args": 2}), dict(F(3, "D", I(3)), args={"kwargs": 1, "loop": 2}),
                                         dict(F(4, "P", ["obj", [dict(F(5, "P", I(5)), args={"root": 1, "info": 2})]]), args={"ctx": 1, "callback": 2}),
                                         dict(F(6, "A", I(6)), args={"executor": 1, "future": 2}), dict(F(7, "P", I(7), lv=1), args={"timeout": 1, "value": 2})]})
    # a list item that cannot be completed, after items with deferred / failing sub-fields
    ps.append({"op": "query", "fields": [F(0, "C", ["list", False, "abs", [["obj", [F(1, "C", I(1)), F(2, "C", ["err", 2], sh="i")]], ["bad"],
                                                                            ["obj", [F(1, "C", I(5)), F(2, "C", I(6))]]]]),
                                         F(3, "C", I(3)),
                                         F(4, "P", ["list", True, "abs", [["obj", [F(1, "S", I(1)), F(2, "C", I(2))]], ["null"], ["bad"]]], nn=True)]})
    # lists resolved by lazy iterables that raise part-way (scalars, objects, union items)
    ps.append({"op": "query", "fields": [F(0, "C", ["list", False, "int", [["int", 1], ["raise", 0], ["int", 2]]]),
                                         F(1, "P", ["list", True, "obj", [["obj", [F(2, "C", I(2)), F(3, "C", ["err", 1], sh="i")]], ["obj", [F(2, "C", I(4)), F(3, "C", I(5))]],
                                                                          ["raise", 1]]], nn=True),
                                         F(4, "S", ["list", False, "abs", [["raise", 0], ["obj", [F(5, "C", I(5))]]]]), F(6, "C", I(6))]})
    # a list that cannot be completed inside an item of another one: the inner field's own error stays
    ps.append({"op": "mutation", "fields": [F(0, "P", ["list", False, "abs", [
        ["obj", [F(1, "S", ["list", True, "abs", [["bad"], ["obj", [F(2, "D", ["null"], sh="lI")]]]], nn=True),
                 F(3, "P", ["list", False, "obj", [["null"], ["obj", [F(4, "C", ["err", 3], sh="i")]]]])]],
        ["bad"]]], nn=True)]})
    # one AST field node (selected on the interface IF) executed against two concrete types whose
    # declarations of that field differ in an argument default; resolvers echo the coerced argument:
    # a mixed list, and two sibling root fields completing in any order
    ps.append({"op": "query", "fields": [F(0, "C", ["list", False, "abs", [["obj", [F(1, "C", ["echo"])]], ["obj", [F(1, "C", ["echo"])], "T2"],
                                                                            ["obj", [F(1, "C", ["echo"])], "T2"], ["obj", [F(1, "C", ["echo"])]]]])]})
    ps.append({"op": "query", "fields": [F(0, "C", ["list", False, "abs", [["obj", [F(2, "P", ["echo"]), F(3, "S", ["echo"], nn=True)], "T2"]]]),
                                         F(1, "C", ["list", False, "abs", [["obj", [F(2, "P", ["echo"]), F(3, "S", ["echo"], nn=True)]]]]),
                                         dict(F(4, "D", ["echo"]), args={"dflt": 7}), F(5, "C", ["echo"])], "render":
               [["f", 0], ["f", 1], ["f", 4], ["f", 5]]})
    # the family of resolver-error classes (domain constructors, keyword-only, shared instance)
    ps.append({"op": "query", "fields": [F(k, m, ["err", k], sh="i") for k, m in enumerate(["S", "P", "C", "D", "A", "C"])]
                                        + [F(6, "C", ["err", 5], sh="i"), F(7, "C", I(7))]})
    return ps


CHUNK = 300          # completion orders per Coq case (one program/configuration may span several cases)
_EXPLORED = {}


def _explore(case):
    """all runs of one program under one scheduled configuration (cached per process)"""
    key = json.dumps([case["prog"], case["config"], case["limit"], case["samples"], case["seed"]], sort_keys=True)
    if key not in _EXPLORED:
        if len(_EXPLORED) > 6000:
            _EXPLORED.clear()
        res = _explore_once(case)
        if any(r.get("hang") for r in res["runs"]) and sched.TIMEOUT[0] > 3.0:
            # confirm before reporting: the machine may just be overloaded
            old = sched.TIMEOUT[0]
            sched.TIMEOUT[0] = 2 * old
            res = _explore_once(case)
            sched.TIMEOUT[0] = old
            if any(r.get("hang") for r in res["runs"]):
                sched.hang_seen()
        _EXPLORED[key] = res
    return _EXPLORED[key]


def _explore_once(case):
    if True:
        prog, cfg = case["prog"], case["config"]
        rng = random.Random(case["seed"])
        if cfg == "threads":
            runs = []
            for _ in range(case["samples"]):
                runs.append(sp.run_threads(prog, rng))
                if runs[-1].get("hang"):
                    break
            res = {"runs": runs, "exhaustive": False}
        else:
            runs, exhaustive = sched.explore(lambda ch: sp.run_scheduled(prog, cfg, ch),
                                             case["limit"], rng, case["samples"],
                                             stop=lambda r: bool(r.get("hang")))
            res = {"runs": runs, "exhaustive": exhaustive}
        outcomes = {json.dumps([r.get("data"), sorted(map(json.dumps, r.get("errors", []))), "fail" in r])
                    for r in res["runs"] if not _bad_run(r)}
        res["order_dependent"] = len(outcomes) > 1
        return res


def _cases_for(prog, limit, samples, seed, configs=("bexec", "brt", "aio", "aiot", "pool", "prom")):
    out = []
    for c in configs:
        case = {"prog": prog, "config": c, "limit": limit, "samples": samples, "seed": seed}
        if c in ("aio", "aiot", "pool", "poole", "poolh", "prom"):
            try:
                n = len(_explore(case)["runs"])
            except Exception:  # noqa: reported per case by the runner (run_impl raises again)
                n = 1
            chunks = max(1, -(-n // CHUNK))
            for k in range(chunks):
                out.append(dict(case, chunk=[k, chunks]) if chunks > 1 else case)
        else:
            out.append(case)
    return out


def corpus():
    out = []
    for i, p in enumerate(_corpus_programs()):
        out.extend(_cases_for(p, CORPUS_ORDERS[0], CORPUS_ORDERS[1], i))
    # witness of the open finding nested-list-row-failure-start-depends-on-runtime
    out.append({"nested": {"op": "query", "fields": [F(0, "C", ["list2", "llr", [
        ["row", [["obj", [F(1, "C", ["int", 1])]], ["bad"]]], ["row", [["obj", [F(1, "C", ["err", 0], sh="i")]]]]]])]},
        "limit": 40, "seed": 7})
    # resolvers gathering through the runtime API from inside: a generator of plain values only; plain
    # values ahead of the first deferred one; an iterator; inside a coroutine / pool task
    for k, (m, kind, entries, wrap) in enumerate([
            ("S", "gen", [["p", 1], ["p", 2], ["p", 3]], ""),
            ("C", "gen", [["p", 1], ["p", 2], ["a", 3], ["p", 4], ["s", 5]], "m"),
            ("P", "iter", [["p", 7], ["s", 1], ["w", 2], ["m", 3]], "w"),
            ("D", "tuple", [["a", 1], ["p", 2]], "")]):
        p = {"op": "query", "fields": [F(0, m, ["fan", kind, entries, wrap]), F(1, "C", ["int", 1])]}
        out.append({"nested": p, "limit": 24, "seed": 11 + k, "configs": list(FAN_CONFIGS), "expect": fan_expected(p)})
    # meta fields selected at the root of a wide operation, introspection disabled / enabled
    wide = [F(k, "C" if k in (2, 5) else ("S", "P", "A", "S")[k % 4], ["int", k + 1]) for k in range(8)]
    for k, (op, meta, ni) in enumerate([("query", [[2, "__typename"], [6, "__schema"]], True), ("query", [[0, "__schema"], [8, "__typename"]], False),
                                        ("mutation", [[4, "__typename"]], True)]):
        out.extend(_cases_for({"op": op, "fields": wide, "meta": meta, "nointro": ni}, 24, 4, 40 + k,
                              configs=("bexec", "brt", "aio", "pool", "prom")))
    return out


def eager_programs(quick, op="query"):
    """small operations for the eager dimension (config poole: every subset of the submitted
    calls completes before submit returns x every completion order of the others): fixed
    shapes with int / ResolverError / RuntimeError at every deferred position"""
    import itertools
    leafs = [["int", 5], ["err", 3], ["exn", 3]]

    def leaf(k, b, m="C", lv=0):
        f = F(k, m, list(b), lv=lv)
        if b[0] != "int":
            f["sh"] = "i"
        return f

    out = []
    for a, b in itertools.product(leafs, repeat=2):
        out.append({"op": op, "fields": [leaf(0, a), leaf(1, b)]})                         # two siblings
        out.append({"op": op, "fields": [F(0, "C", ["obj", [leaf(1, a), leaf(2, b, "P")]])]})  # nested selection
        out.append({"op": op, "fields": [leaf(0, a, lv=1), leaf(1, b)]})                   # nested future
        out.append({"op": op, "fields": [F(0, "S", ["list", False, "obj",
                                                     [["obj", [leaf(1, a)]], ["obj", [leaf(1, b)]]]])]})
    for a, b, c in itertools.product(leafs, repeat=3):
        if quick and [a[0], b[0], c[0]].count("int") == 0:
            continue
        out.append({"op": op, "fields": [leaf(0, a), leaf(1, b), F(2, "S", ["int", 1]), leaf(3, c)]})
        out.append({"op": op, "fields": [leaf(0, a), F(1, "C", ["obj", [leaf(2, b), leaf(3, c)]], nn=True)]})
    return out


# ------------------------------------------------------------------ nested lists (model-free)
# The Coq tree language has no lists of lists. Programs with a [[U]] / [[U]!] / [[U!]!]! field are
# therefore checked without the model: every configuration and every completion order must return
# the same response (C08), nothing may be left pending, and for mutations no resolver of a later
# top-level field may be invoked before every resolver started under the earlier one has returned
# (C09).
TRIVIAL_CASE = ("(CaseProg CBlockingExec (Prog true FNil) "
                "[MkObs [] (OData (VObj []) []) [] 0 false [] []])")
NESTED_CONFIGS = ("bexec", "brt", "aio", "pool", "prom")


def nested_programs(rng, quick):
    I = lambda z: ["int", z]  # noqa
    out = []

    def item(k, m, body, tag=None):
        it = ["obj", [F(k, m, body, **({"sh": "i"} if body[0] != "int" else {}))]]
        return it + [tag] if tag else it

    for op in ("mutation", "query"):
        for sh in ("llu", "llr", "llR"):
            for fail_row in (0, 1, 2):
                for m in ("C", "P", "S"):
                    if quick and rng.random() < 0.7:
                        continue
                    # rows of items with a (deferred) sub-field; one row fails *late*: an item that
                    # cannot be typed after an item whose sub-field is deferred; sibling rows are slow
                    rows = [["row", [item(1, m, I(10 + r), "T2" if r % 2 else None), item(1, m, I(20 + r))]] for r in range(3)]
                    rows[fail_row] = ["row", [item(1, m, I(7)), ["bad"]]]
                    if rng.random() < 0.3:
                        rows.insert(rng.randrange(len(rows) + 1), ["null"] if sh == "llu" else ["row", []])
                    if rng.random() < 0.4:
                        later = [r for r in range(len(rows)) if r > fail_row and rows[r][0] == "row" and rows[r][1]]
                        if later:   # a failing sub-field in a row after the failing one
                            rows[rng.choice(later)][1][0] = item(1, m, ["err", rng.randrange(6)])
                    out.append({"op": op, "fields": [F(0, rng.choice(["C", "S", "P"]), ["list2", sh, rows], nn=(sh == "llR")),
                                                     F(3, rng.choice(["C", "S"]), I(3)), F(4, "C", I(4))]})
    return out


FAN_CONFIGS = ("bexec", "brt", "aio", "aiot", "pool", "prom")


def fan_programs(rng, quick):
    """resolvers that fan out through the runtime API themselves (runtime.submit / map_value /
    ensure_wrapped, gathered with runtime.gather_values over a generator, an iterator, a list or a
    tuple), mixing plain and deferred entries"""
    I = lambda z: ["int", z]  # noqa
    out = []
    for j in range(10 if quick else 120):
        n = rng.randint(0, 4)
        fams = [["p"], ["p", "p", "s", "a"], ["p", "s", "a", "w", "m"], ["s", "a"]][j % 4]
        entries = [[rng.choice(fams), rng.randrange(50)] for _ in range(n)]
        kind = ["gen", "iter", "list", "tuple", "gen"][j % 5]
        wrap = ["", "m", "w", "mw"][(j // 2) % 4]
        fan = F(1, ["S", "P", "C", "D"][j % 4], ["fan", kind, entries, wrap], nn=(j % 3 == 0))
        other = F(2, rng.choice(["C", "S"]), I(2))
        fields = [F(0, rng.choice(["S", "C"]), ["obj", [fan, other]]), F(3, "C", I(3))] if j % 3 == 1 else [fan, other]
        out.append({"op": "mutation" if j % 4 == 3 else "query", "fields": fields})
    return out


def fan_expected(prog):
    """the response data (sp._data form) of a program made of int / obj / fan fields"""
    def val(f):
        b = f["b"]
        return b[1] if b[0] == "int" else {"l": sp.fan_value(b)} if b[0] == "fan" else {"o": [[g["k"], val(g)] for g in b[1]]}
    return {"o": [[f["k"], val(f)] for f in prog["fields"]]}


def fan_cases(rng, quick):
    return [{"nested": p, "limit": 12 if quick else 60, "seed": rng.randrange(1 << 30), "configs": list(FAN_CONFIGS),
             "expect": fan_expected(p)} for p in fan_programs(rng, quick)]


def nested_cases(rng, quick):
    return [{"nested": p, "limit": 40 if quick else 150, "seed": rng.randrange(1 << 30)} for p in nested_programs(rng, quick)]


def run_nested(case):
    prog = case["nested"]
    by = {}
    for cfg in case.get("configs", NESTED_CONFIGS):
        if cfg in ("bexec", "brt"):
            by[cfg] = [sp.run_blocking(prog, cfg)]
        else:
            runs, _ex = sched.explore(lambda ch: sp.run_scheduled(prog, cfg, ch), case["limit"],
                                      random.Random(case["seed"]), 10, stop=lambda r: bool(r.get("hang")))
            by[cfg] = runs
    return {"by_config": by}


def _response(r):
    return json.dumps([r.get("data"), sorted(map(json.dumps, r.get("errors", []))), r.get("fail"), r.get("fail_other")])


def _late_row_errors_only(prog, by):
    """exactly the open finding: the configurations differ only in field errors recorded under rows
    *after* the first failing row of a nested list (rows the blocking configurations never start)"""
    fails = {}   # field key -> index of the first failing row
    for f in prog["fields"]:
        if f["b"][0] == "list2":
            for i, row in enumerate(f["b"][2]):
                if row[0] == "row" and any(it[0] == "bad" for it in row[1]):
                    fails[f["k"]] = i
                    break
    datas, errsets = set(), []
    for runs in by.values():
        for r in runs:
            if _bad_run(r) or "fail" in r:
                return False
            datas.add(json.dumps(r.get("data")))
            errsets.append({json.dumps(e) for e in r.get("errors", [])})
    if len(datas) != 1:
        return False
    common_errs = set.intersection(*errsets)
    for es in errsets:
        for e in es - common_errs:
            path = json.loads(e)[0]
            if not (len(path) >= 2 and path[0] in fails and path[1] > fails[path[0]]):
                return False
    return True


def nested_checks(case, obs, serial_violation=None):
    out = []
    prog, by = case["nested"], obs["by_config"]
    for cfg, runs in by.items():
        for r in runs:
            if r.get("hang"):
                out.append(("completes-once-all-resolvers-completed: implementation blocked (%s)" % cfg, None))
            elif r.get("pending") or r.get("leftover"):
                out.append(("completes-once-all-resolvers-completed: result or inner future left pending (%s)" % cfg, None))
            elif serial_violation is not None and prog["op"] == "mutation" and serial_violation(prog, r.get("events", [])):
                out.append(("later top-level field invoked before every resolver started under the earlier one returned (%s)" % cfg, None))
            elif "expect" in case and (r.get("data") != case["expect"] or r.get("errors") or "fail" in r or "fail_other" in r):
                out.append(("values gathered through the runtime API from inside a resolver: response differs from the "
                            "value the resolver stands for (%s)" % cfg, None))
            if out:
                return out[:1]
    if len({_response(r) for runs in by.values() for r in runs}) > 1:
        key = "nested-list-row-failure-start-depends-on-runtime" if _late_row_errors_only(prog, by) else None
        out.append(("same response under every configuration and completion order (nested list)", key))
    return out


def _comb_cases(rng, quick):
    out = [{"comb": sc} for sc in sched_comb.families(rng, quick)]
    for _ in range(100 if quick else 3000):
        out.append({"comb": sched_comb.random_script(rng)})
    return out


def generate(rng, tier):
    global SHARD
    quick = tier == "quick"
    SHARD = 10
    limit, samples = (120, 12) if quick else (5040, 200)
    cases = _comb_cases(rng, quick) + nested_cases(rng, quick) + fan_cases(rng, quick)
    plan = []
    if quick:
        plan += [dict(n=24, min_tasks=2, max_tasks=5, p_exn=0.0), dict(n=14, min_tasks=2, max_tasks=5, p_exn=0.12),
                 dict(n=6, min_tasks=4, max_tasks=6, p_exn=0.05), dict(n=6, min_tasks=1, max_tasks=1, p_exn=0.1)]
    else:
        plan += [dict(n=260, min_tasks=2, max_tasks=5, p_exn=0.0), dict(n=150, min_tasks=2, max_tasks=5, p_exn=0.12),
                 dict(n=120, min_tasks=4, max_tasks=6, p_exn=0.05), dict(n=30, min_tasks=6, max_tasks=7, p_exn=0.03),
                 dict(n=20, min_tasks=1, max_tasks=1, p_exn=0.1)]
    for i, p in enumerate(eager_programs(quick)):
        cases.extend(_cases_for(p, limit, samples, rng.randrange(1 << 30), configs=("poole",)))
        if i % 3 == 0 or not quick:
            cases.extend(_cases_for(p, limit, samples, rng.randrange(1 << 30), configs=("poolh",)))
    for _ in range(12 if quick else 150):
        p = gen_sched.gen_program(rng, rng.choice(["query", "query", "mutation"]), 1, 3 if quick else 4,
                                  p_exn=0.2, p_err=0.2)
        cases.extend(_cases_for(p, limit, samples, rng.randrange(1 << 30), configs=("poole",)))
    for spec in plan:
        for _ in range(spec["n"]):
            op = "mutation" if rng.random() < 0.25 else "query"
            p = gen_sched.gen_program(rng, op, spec["min_tasks"], spec["max_tasks"], p_exn=spec["p_exn"])
            p["layout"] = rng.choice(["distinct", "distinct", "shared", "mutnested"])
            if rng.random() < 0.3:
                p = gen_sched.add_render(rng, p)
            if rng.random() < 0.2:
                gen_sched.add_meta(rng, p)
            cases.extend(_cases_for(p, limit, samples, rng.randrange(1 << 30)))
            if not quick and rng.random() < 0.5:
                cases.append({"prog": p, "config": "threads", "limit": 0, "samples": 25, "seed": rng.randrange(1 << 30)})
    return cases


def run_impl(case):
    if "comb" in case:
        return sched_comb.run_script(case["comb"])
    if "nested" in case:
        return run_nested(case)
    prog, cfg = case["prog"], case["config"]
    if cfg in ("bexec", "brt"):
        return {"runs": [sp.run_blocking(prog, cfg)], "exhaustive": True}
    res = _explore(case)
    runs = res["runs"]
    if "chunk" in case and len(runs) > CHUNK:
        k = case["chunk"][0]
        runs = runs[k * CHUNK:(k + 1) * CHUNK] or runs[:1]
    return {"runs": runs, "exhaustive": res["exhaustive"], "orders_total": len(res["runs"]),
            "order_dependent": res["order_dependent"]}


def to_coq(case, obs):
    if "comb" in case:
        return sched_comb.c_case(case["comb"], obs)
    if "nested" in case:
        return TRIVIAL_CASE      # checked by direct_checks (model-free)
    cfg = case["config"]
    acfg = "pool" if cfg in ("threads", "poole", "poolh", "prom") else cfg
    bad = sp.bad_paths(case["prog"])
    return "(CaseProg %s %s [%s])" % (CFG[cfg], sp.c_prog(case["prog"], acfg),
                               ";\n ".join(sp.c_obs(o, bad) for o in obs["runs"]))


def show_expr(case, obs):
    if "nested" in case:
        return "0"
    if "comb" in case:
        return "model_C08 %s" % to_coq(case, obs)
    return "model_C08 %s" % to_coq(case, dict(obs, runs=obs["runs"][:3]))


def nontrivial(case, obs):
    if "nested" in case:
        return True
    if "comb" in case:
        return len(case["comb"]["sigma"]) >= 2
    return case["config"] in ("aio", "aiot", "pool", "poole", "poolh", "prom", "threads") and (
        len(obs["runs"]) > 1 or any("fail" in r for r in obs["runs"]))


def canonical(case):
    if "nested" in case:
        return json.dumps(case["nested"], sort_keys=True)
    if "comb" in case:
        return json.dumps(case["comb"])
    return (json.dumps(case["prog"], sort_keys=True), case["config"], tuple(case.get("chunk", ())))


def _bad_run(r):
    return (r.get("hang") or r.get("pending") or "fail_other" in r or r.get("leftover")
            or r.get("changed_after_completion"))


def classify(case, obs):
    if "nested" in case:
        return "nested list (model-free)", None
    if "comb" in case:
        return "future combinators complete the outer future exactly once with the specified result", None
    runs = obs["runs"]
    if any(r.get("hang") for r in runs):
        return "completes-once-all-resolvers-completed (implementation blocked)", None
    if any(r.get("pending") or r.get("leftover") for r in runs):
        return "completes-once-all-resolvers-completed (result or inner future left pending)", None
    if any("fail_other" in r for r in runs):
        return "unexpected-exception-surfaces (overall result failed with a foreign exception)", None
    return "same-data-and-error-multiset-for-every-completion-order", None


def direct_checks(case, obs):
    out = []
    if "nested" in case:
        return nested_checks(case, obs)
    if "comb" in case:
        return [("future combinator blocked", None)] if obs.get("hang") else []
    for r in obs["runs"]:
        if r.get("hang"):
            out.append(("completes-once-all-resolvers-completed: implementation blocked", None))
        elif r.get("pending"):
            out.append(("completes-once-all-resolvers-completed: result left pending", None))
        elif r.get("changed_after_completion"):
            out.append(("result changed after it was completed", None))
        if out:
            break
    # all runs of one program/configuration must agree with each other (model-free)
    if obs.get("order_dependent"):
        out.append(("result depends on the completion order", None))
    return out


def shrink(case, is_bad):
    if "comb" in case or "nested" in case:
        return case
    cur = case
    changed = True
    while changed:
        changed = False
        for p in gen_sched.sub_programs(cur["prog"]):
            if gen_sched.n_tasks(p, "pool") < 1 and cur["config"] in ("aio", "aiot", "pool", "poole", "poolh", "prom", "threads"):
                continue
            cand = dict(cur, prog=p)
            cand.pop("chunk", None)
            if is_bad(cand):
                cur, changed = cand, True
                break
    return cur


def extra_evidence(cases, obss):
    ncomb = sum(1 for c in cases if "comb" in c)
    nnested = sum(1 for c in cases if "nested" in c)
    pairs = [(c, o) for c, o in zip(cases, obss) if "comb" not in c and "nested" not in c]
    cases, obss = [c for c, _o in pairs], [o for _c, o in pairs]
    ev = _extra_evidence(cases, obss)
    ev["distribution"]["combinator_scripts"] = ncomb
    ev["distribution"]["nested_list_programs_model_free"] = nnested
    return ev


def _extra_evidence(cases, obss):
    per_cfg, orders, exhaustive, tasks = {}, 0, 0, {}
    fails = errs = 0
    for c, o in zip(cases, obss):
        per_cfg[c["config"]] = per_cfg.get(c["config"], 0) + 1
        if c["config"] in ("aio", "aiot", "pool", "poole", "poolh", "prom"):
            if c.get("chunk", [0])[0] != 0:
                continue
            orders += o.get("orders_total", len(o["runs"]))
            exhaustive += 1 if o["exhaustive"] else 0
            n = gen_sched.n_tasks(c["prog"], c["config"])
            tasks[n] = tasks.get(n, 0) + 1
        fails += 1 if any("fail" in r for r in o["runs"]) else 0
        errs += 1 if any(r.get("errors") for r in o["runs"]) else 0
    sched_cases = sum(1 for c in cases if c["config"] in ("aio", "aiot", "pool", "poole", "poolh", "prom") and c.get("chunk", [0])[0] == 0)
    return {"exhaustive": bool(sched_cases) and exhaustive == sched_cases,
            "distribution": {
                "cases_per_configuration": per_cfg,
                "completion_orders_run": orders,
                "scheduled_cases_explored_exhaustively": exhaustive,
                "scheduled_cases": sched_cases,
                "deferred_calls_histogram": {str(k): v for k, v in sorted(tasks.items())},
                "cases_with_unexpected_exception": fails,
                "cases_with_field_errors": errs,
                "mutations": sum(1 for c in cases if c["prog"]["op"] == "mutation")}}
