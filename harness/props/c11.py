# -*- coding: utf-8 -*-
"""C11 -- schemas built from SDL contain exactly what the SDL declares."""
import os
import random

from py_gql.lang import parse

from .. import gen_sdl, sdl_impl, ser, ser_sdl

PROP = "C11"
THEOREMS = ["C11_exact_refuted", "C11_exact_refuted_divergence", "C11_reject_partial",
            "C11_ignore_extensions", "C11_order_partial", "C11_merge_object", "C11_merge_interface", "C11_merge_enum",
            "C11_merge_input", "C11_merge_union"]
AXIOMS_OK = []
RUN_MODULE = "Run.C11run Schema.SdlBuild Spec.SdlSpec"
AGREE = "agree_C11"
CASE_TYPE = "case_C11"
SHARD = 60
LEVEL_NOTE = ("Theorems are about the Gallina model Schema/SdlBuild.v of sdl/schema_from_ast.py, "
              "sdl/ast_type_builder.py, Schema._build_type_map and (verdict only) schema/validation.py over "
              "the by-name schema of Schema/SdlSchema.v; the model is tied to /repo by running both on the "
              "same generated documents on every run. Parsing is outside (the model starts from the AST).")
RULE = ("type-system documents from harness/gen_sdl.py: all six kinds, wrappers, defaults of every input "
        "kind, descriptions, deprecations, custom directives, schema definitions, members split "
        "arbitrarily over extend blocks, blocks permuted, recursive input types, unreachable types, "
        "ignore_extensions on/off, additional_types; plus labelled invalid documents (one broken rule); "
        "non-trivial = the document has an extension, a default value or an additional type, or is invalid; "
        "distinct = distinct (text, flags, additional)")

KNOWN_LABELS = {
    # label -> finding key (see known_findings.d/C11.json)
    "implements-object": "implements-non-interface",
    "implements-nonfields": "implements-non-interface",
    "input-default-self-cycle": "input-default-self-cycle",
    "default-vs-extension": "default-vs-extension",
}


def _case(sdl, label="valid", ignore=False, additional=None, expect=None):
    return {"sdl": sdl, "ignore_extensions": ignore, "additional": additional or [], "label": label,
            "expect": expect}


ADD_ENUM = {"kind": "enum", "name": "Color", "values": [["RED", {"t": "int", "v": "1"}], ["GREEN", {"t": "int", "v": "2"}],
                                                         ["BLUE", {"t": "str", "v": "b"}]]}
ADD_SCALAR = {"kind": "scalar", "name": "Date", "desc": "code scalar"}
ADD_INPUT = {"kind": "input", "name": "Paging", "desc": "code input", "fields": [
    {"name": "pageSize", "py": "page_size", "type": "Int", "default": {"t": "int", "v": "10"}},
    {"name": "sortBy", "py": "sort_by", "type": {"list": {"nn": "String"}}},
    {"name": "color", "type": "Color", "default": {"t": "int", "v": "2"}}]}
ADD_IFACE = {"kind": "interface", "name": "Node", "fields": [{"name": "id", "type": {"nn": "ID"}}]}
ADD_OBJECT = {"kind": "object", "name": "User", "desc": "code object", "ifaces": ["Node"], "default_resolver": True,
              "fields": [{"name": "id", "type": {"nn": "ID"}},
                         {"name": "fullName", "py": "full_name", "type": "String", "resolver": True,
                          "args": [{"name": "upperCase", "py": "upper_case", "type": "Boolean",
                                    "default": {"t": "bool", "v": False}}]},
                         {"name": "events", "type": {"list": "String"}, "subscription": True, "dep": "old"}]}
ADD_UNION = {"kind": "union", "name": "Media", "desc": "code union", "members": ["User"]}


def corpus():
    out = []
    # DESIGN section 6 row 26: recursive / mutually recursive input types
    out.append(_case("type Query { a(i: A): Int }\ninput A { x: Int, a: A, l: [A!] }", "row26"))
    out.append(_case("type Query { a(i: A): Int }\ninput A { x: Int, b: B }\ninput B { a: A = null, n: [B] }", "row26"))
    out.append(_case("type Query { a(i: A): Int }\ninput A { x: Int, a: A }\nextend input A { y: A = null, z: [A!] = [] }", "row26"))
    # row 27: declared types that are not reachable from the roots survive an extension
    out.append(_case("type Query { a: Int }\ntype Orphan { b: Int }\nextend type Query { c: Int }", "row27"))
    out.append(_case("interface Node { id: ID }\ntype Query { a: Int }\ntype Orphan implements Node { id: ID }\n"
                     "extend type Query { c: Int }", "row27"))
    # row 28: an unrelated extension keeps descriptions / resolvers / python names
    out.append(_case('type Query { a: U }\n"udesc"\nunion U = A | B\ntype A { a: Int }\ntype B { b: Int }\n'
                     "extend type Query { c: Int }", "row28"))
    out.append(_case("type Query { u: User, m: Media, n: Node, p(paging: Paging): Int }\nextend type Query { c: Int }\n"
                     "extend type User { extra: Int }", "row28",
                     additional=[ADD_ENUM, ADD_INPUT, ADD_IFACE, ADD_OBJECT, ADD_UNION]))
    # extension input fields use the extended types (C11-02)
    out.append(_case("type Query { a(i: A): Int }\ninput A { x: Int }\nenum E { X }\nextend input A { e: E }\n"
                     "extend enum E { Y }", "ext-input-field-types"))
    # duplicate enum value is an SDL error (C11-05); undefined extension target (C11-06);
    # default on an output type (C11-07)
    out.append(_case("type Query { a: E }\nenum E { A A }", "dup-enum-value", expect=1))
    out.append(_case("type Query { a: Int }\nextend type Foo { a: Int }", "ext-undefined", expect=2))
    out.append(_case("type Query { a: Int }\nextend type Foo { a: Int }", "valid", ignore=True))
    out.append(_case("type Query { f(e: O = 1): Int }\ntype O { x: Int }", "output-in-input-position-default", expect=1))
    # row 29 (schema validation side, C13's fix): wrong kind in implements
    out.append(_case("scalar S\ntype Query implements S { a: Int }", "implements-nonfields", expect=3))
    out.append(_case("type O { a: Int }\ntype Query implements O { a: Int }", "implements-object", expect=3))
    # open findings
    out.append(_case("type Query { a(i: A): Int }\ninput A { x: Int, a: A = {a: null, x: 2} }", "input-default-self-cycle"))
    out.append(_case("type Query { f(e: E = Y): Int }\nenum E { X }\nextend enum E { Y }", "default-vs-extension"))
    out.append(_case("type Query { f(e: I = {x: 1, y: 2}): Int }\ninput I { x: Int }\nextend input I { y: Int }",
                     "default-vs-extension"))
    # misc behaviours
    out.append(_case('type Query { a: Int @deprecated(reason: null) b: Int @deprecated c: Int @deprecated(reason: "") '
                     'd: Int @deprecated(reason: "x") @deprecated(reason: "y") }', "valid"))
    out.append(_case("schema { query: Query }\ntype Query { a: Int }\ntype Mutation { b: Int }", "valid"))
    out.append(_case("scalar String\ntype Query { a: String }", "valid"))
    out.append(_case("type Query { c(x: Color = RED, y: [Color!] = [GREEN, BLUE], p: Paging = {sortBy: \"a\"}): Date }\n"
                     "enum Color { WHATEVER }", "valid", additional=[ADD_ENUM, ADD_SCALAR, ADD_INPUT]))
    out.append(_case("type Query { f(e: I = {x: 1, x: 2, zzz: 3}): Int }\ninput I { x: Int, y: Int = 5, z: [Int] = 7 }", "valid"))
    return out


def _gen_additional(rng, spec):
    """replace / provide some of the spec's types from code"""
    recipe = []
    names = {t["name"]: t for t in spec["types"]}
    enums = [t for t in spec["types"] if t["kind"] == "enum"]
    if enums and rng.random() < 0.7:
        e = rng.choice(enums)
        vals = []
        for i, v in enumerate(e["values"]):
            internal = rng.choice([{"t": "int", "v": str(i + 1)}, {"t": "str", "v": v["name"].lower() + "_"},
                                   {"t": "str", "v": v["name"]}])
            vals.append([v["name"], internal])
        recipe.append({"kind": "enum", "name": e["name"], "values": vals, "desc": "from code", "_drop": rng.random() < 0.5})
    scalars = [t for t in spec["types"] if t["kind"] == "scalar"]
    if scalars and rng.random() < 0.5:
        s = rng.choice(scalars)
        recipe.append({"kind": "scalar", "name": s["name"], "desc": "from code", "_drop": rng.random() < 0.5})
    return recipe


def _make_valid(rng, tier_size=None, with_additional=False):
    g = gen_sdl.Gen(rng)
    spec = g.schema(tier_size)
    recipe = _gen_additional(rng, spec) if with_additional else []
    dropped = {r["name"] for r in recipe if r.pop("_drop", False)}
    if dropped:
        spec = dict(spec, types=[t for t in spec["types"] if t["name"] not in dropped])
    for t in spec["types"]:
        if t["name"] in {r["name"] for r in recipe}:
            t["pinned"] = True      # the definition is shadowed by the supplied type: keep members out of extensions
    text, blocks = gen_sdl.render(spec, rng, split=rng.random() < 0.8)
    return spec, text, recipe


def generate(rng, tier):
    n_valid, n_invalid = (260, 140) if tier == "quick" else (3000, 1500)
    cases = []
    for i in range(n_valid):
        spec, text, recipe = _make_valid(rng, with_additional=(i % 5 == 0))
        cases.append(_case(text, "valid", ignore=rng.random() < 0.2, additional=recipe))
        if i % 10 == 0:
            # same schema, different split / order: C11_order on the implementation side is
            # checked through the model (both must give equivalent schemas)
            text2, _ = gen_sdl.render(spec, rng)
            cases.append(_case(text2, "valid", additional=recipe))
    tries = 0
    made = 0
    while made < n_invalid and tries < n_invalid * 4:
        tries += 1
        g = gen_sdl.Gen(rng)
        spec = g.schema(rng.choice([1, 1, 2]))
        res = gen_sdl.invalidate(spec, rng)
        if res is None:
            continue
        label, text, kind = res
        cases.append(_case(text, label, ignore=False, expect=kind))
        made += 1
    return cases


def run_impl(case):
    o = sdl_impl.call({"op": "c11", "case": case})
    if "harness_error" in o:
        raise RuntimeError(o["harness_error"])
    return o


def _obs_term(obs):
    if "schema" in obs:
        return "(ObsSchema %s)" % ser_sdl.cschema(obs["schema"])
    e = obs["exc"]
    if e == "rejected":
        return "(ObsRejected %d)" % obs["kind"]
    if e in ("recursion", "timeout", "died"):
        return "ObsDiverged"
    return "ObsOther"


def _input_term(case, obs):
    doc = parse(case["sdl"], allow_type_system=True)
    return "(%s, %s, %s)" % (ser.cdoc(doc), ser.cbool(case["ignore_extensions"]),
                             ser.clist(obs.get("additional", []), ser_sdl.cjtype))


def to_coq(case, obs):
    return "(%s, %s)" % (_input_term(case, obs), _obs_term(obs))


def show_expr(case, obs):
    return "show_C11 %s" % _input_term(case, obs)


def nontrivial(case, obs):
    t = case["sdl"]
    return ("extend " in t or " = " in t or bool(case["additional"]) or case["label"] != "valid")


def canonical(case):
    return (case["sdl"], case["ignore_extensions"], repr(case["additional"]))


def _finding_key(case, obs):
    key = KNOWN_LABELS.get(case["label"])
    if key == "implements-non-interface":
        # the validator does not check the kind of an implemented type: AttributeError for
        # kinds without output fields, silently accepted for object types
        if "schema" in obs or (obs.get("exc") == "other" and obs.get("type") in ("AttributeError", "TypeError")):
            return key
        return None
    if key == "input-default-self-cycle":
        return key if obs.get("exc") in ("recursion", "timeout", "died") else None
    if key == "default-vs-extension":
        # model and implementation agree; the Spec (coercion at the declared type) does not
        if obs.get("exc") == "rejected" and obs.get("kind") == 4:
            return key
        return key if "schema" in obs else None
    return None


def classify(case, obs):
    key = _finding_key(case, obs)
    if "schema" in obs:
        return "contains-exactly-the-declared-schema", key
    if obs.get("exc") == "rejected":
        return "rejected-with-the-documented-error", key
    return "no-unrelated-exception", key


def direct_checks(case, obs):
    out = []
    e = obs.get("exc")
    if e in ("other", "graphql-other"):
        out.append(("no-unrelated-exception: %s" % obs.get("type"), _finding_key(case, obs)))
    if e in ("recursion", "timeout", "died"):
        out.append(("build-terminates: %s" % e, _finding_key(case, obs)))
    if obs.get("lost_resolvers"):
        out.append(("extension-keeps-resolvers: %s" % ",".join(obs["lost_resolvers"][:4]), None))
    if case["label"] == "default-vs-extension":
        # the default is valid for the declared (extended) type but is coerced against the
        # un-extended one: rejected, or silently truncated
        out.append(("default-coerced-to-declared-type", "default-vs-extension"))
    if case.get("expect") is not None and "schema" in obs and case["label"] not in KNOWN_LABELS:
        out.append(("invalid-document-rejected: %s accepted" % case["label"], None))
    return out


def shrink(case, is_bad):
    """drop whole blocks while the failure persists"""
    if os.environ.get("VERIF_NO_SHRINK"):
        return case
    blocks = case["sdl"].rstrip("\n").split("\n\n")
    changed = True
    while changed and len(blocks) > 1:
        changed = False
        for i in range(len(blocks)):
            cand = dict(case, sdl="\n\n".join(blocks[:i] + blocks[i + 1:]) + "\n")
            try:
                parse(cand["sdl"], allow_type_system=True)
            except Exception:
                continue
            if is_bad(cand):
                blocks = blocks[:i] + blocks[i + 1:]
                changed = True
                break
    return dict(case, sdl="\n\n".join(blocks) + "\n")


def extra_evidence(cases, obss):
    labels, outcomes = {}, {}
    for c, o in zip(cases, obss):
        labels[c["label"]] = labels.get(c["label"], 0) + 1
        k = "schema" if "schema" in o else ("rejected-%s" % o.get("kind") if o.get("exc") == "rejected" else o.get("exc"))
        outcomes[k] = outcomes.get(k, 0) + 1
    return {"distribution": {
        "labels": labels, "outcomes": outcomes,
        "with_extensions": sum(1 for c in cases if "extend " in c["sdl"]),
        "with_defaults": sum(1 for c in cases if " = " in c["sdl"]),
        "with_additional_types": sum(1 for c in cases if c["additional"]),
        "ignore_extensions": sum(1 for c in cases if c["ignore_extensions"]),
        "with_input_types": sum(1 for c in cases if "input " in c["sdl"]),
        "with_schema_definition": sum(1 for c in cases if "schema" in c["sdl"]),
    }}
