# -*- coding: utf-8 -*-
"""C11 -- schemas built from SDL contain exactly what the SDL declares."""
import os
import random

from py_gql.lang import parse

from .. import gen_sdl, sdl_impl, ser, ser_sdl

PROP = "C11"
THEOREMS = ["C11_exact_partial", "C11_exact_build", "C11_order_declared", "C11_order_build",
            "C11_order_rules", "C11_order_guard",
            "C11_reject_duplicates", "C11_exact_refuted", "C11_exact_refuted_divergence", "C11_reject_partial",
            "C11_ignore_extensions", "C11_order_partial", "C11_merge_object", "C11_merge_interface", "C11_merge_enum",
            "C11_merge_input", "C11_merge_union"]
AXIOMS_OK = []
RUN_MODULE = "Run.C11run Schema.SdlBuild Spec.SdlSpec"
AGREE = "agree_C11"
CASE_TYPE = "case_C11"
SHARD = 60
LEVEL_NOTE = ("Theorems are about the Gallina model Schema/SdlBuild.v of sdl/schema_from_ast.py, "
              "sdl/ast_type_builder.py, Schema._build_type_map and (verdict only) schema/validation.py over "
              "the by-name schema of Schema/SdlSchema.v; the model is tied to /repo by running both on the "
              "same generated documents on every run. Parsing is outside (the model starts from the AST).")
RULE = ("type-system documents from harness/gen_sdl.py: all six kinds, wrappers, defaults of every input "
        "kind, descriptions, deprecations, custom directives, schema definitions, members split "
        "arbitrarily over extend blocks, blocks permuted, recursive input types, unreachable types, "
        "ignore_extensions on/off, additional_types; plus labelled invalid documents (one broken rule); plus "
        "call histories: 2-4 build_schema / extend_schema calls sharing code-built additional types of all six "
        "kinds, with documents that extend them (every extension kind) or not, each call compared with the "
        "model on that document and the pristine types, and the caller's type objects dumped after each call; "
        "non-trivial = the document has an extension, a default value or an additional type, or is invalid; "
        "distinct = distinct (text, flags, additional)")

KNOWN_LABELS = {
    # label -> finding key (see known_findings.d/C11.json)
    "input-default-self-cycle": "input-default-self-cycle",
    "default-vs-extension": "default-vs-extension",
}


def _case(sdl, label="valid", ignore=False, additional=None, expect=None):
    return {"sdl": sdl, "ignore_extensions": ignore, "additional": additional or [], "label": label,
            "expect": expect}


ADD_ENUM = {"kind": "enum", "name": "Color", "values": [["RED", {"t": "int", "v": "1"}], ["GREEN", {"t": "int", "v": "2"}],
                                                         ["BLUE", {"t": "str", "v": "b"}]]}
ADD_SCALAR = {"kind": "scalar", "name": "Date", "desc": "code scalar"}
ADD_INPUT = {"kind": "input", "name": "Paging", "desc": "code input", "fields": [
    {"name": "pageSize", "py": "page_size", "type": "Int", "default": {"t": "int", "v": "10"}},
    {"name": "sortBy", "py": "sort_by", "type": {"list": {"nn": "String"}}},
    {"name": "color", "type": "Color", "default": {"t": "int", "v": "2"}}]}
ADD_IFACE = {"kind": "interface", "name": "Node", "fields": [{"name": "id", "type": {"nn": "ID"}}]}
ADD_OBJECT = {"kind": "object", "name": "User", "desc": "code object", "ifaces": ["Node"], "default_resolver": True,
              "fields": [{"name": "id", "type": {"nn": "ID"}},
                         {"name": "fullName", "py": "full_name", "type": "String", "resolver": True,
                          "args": [{"name": "upperCase", "py": "upper_case", "type": "Boolean",
                                    "default": {"t": "bool", "v": False}}]},
                         {"name": "events", "type": {"list": "String"}, "subscription": True, "dep": "old"}]}
ADD_UNION = {"kind": "union", "name": "Media", "desc": "code union", "members": ["User"]}


def corpus():
    out = []
    # DESIGN section 6 row 26: recursive / mutually recursive input types
    out.append(_case("type Query { a(i: A): Int }\ninput A { x: Int, a: A, l: [A!] }", "row26"))
    out.append(_case("type Query { a(i: A): Int }\ninput A { x: Int, b: B }\ninput B { a: A = null, n: [B] }", "row26"))
    out.append(_case("type Query { a(i: A): Int }\ninput A { x: Int, a: A }\nextend input A { y: A = null, z: [A!] = [] }", "row26"))
    # row 27: declared types that are not reachable from the roots survive an extension
    out.append(_case("type Query { a: Int }\ntype Orphan { b: Int }\nextend type Query { c: Int }", "row27"))
    out.append(_case("interface Node { id: ID }\ntype Query { a: Int }\ntype Orphan implements Node { id: ID }\n"
                     "extend type Query { c: Int }", "row27"))
    # row 28: an unrelated extension keeps descriptions / resolvers / python names
    out.append(_case('type Query { a: U }\n"udesc"\nunion U = A | B\ntype A { a: Int }\ntype B { b: Int }\n'
                     "extend type Query { c: Int }", "row28"))
    out.append(_case("type Query { u: User, m: Media, n: Node, p(paging: Paging): Int }\nextend type Query { c: Int }\n"
                     "extend type User { extra: Int }", "row28",
                     additional=[ADD_ENUM, ADD_INPUT, ADD_IFACE, ADD_OBJECT, ADD_UNION]))
    # extension input fields use the extended types (C11-02)
    out.append(_case("type Query { a(i: A): Int }\ninput A { x: Int }\nenum E { X }\nextend input A { e: E }\n"
                     "extend enum E { Y }", "ext-input-field-types"))
    # duplicate enum value is an SDL error (C11-05); undefined extension target (C11-06);
    # default on an output type (C11-07)
    out.append(_case("type Query { a: E }\nenum E { A A }", "dup-enum-value", expect=1))
    out.append(_case("type Query { a: Int }\nextend type Foo { a: Int }", "ext-undefined", expect=2))
    out.append(_case("type Query { a: Int }\nextend type Foo { a: Int }", "valid", ignore=True))
    out.append(_case("type Query { f(e: O = 1): Int }\ntype O { x: Int }", "output-in-input-position-default", expect=1))
    # row 29 (repaired by C13-02 = 1a49f1d in schema/validation.py): wrong kind in implements
    out.append(_case("scalar S\ntype Query implements S { a: Int }", "implements-nonfields", expect=3))
    out.append(_case("type O { a: Int }\ntype Query implements O { a: Int }", "implements-object", expect=3))
    # open findings
    out.append(_case("type Query { a(i: A): Int }\ninput A { x: Int, a: A = {a: null, x: 2} }", "input-default-self-cycle"))
    out.append(_case("type Query { f(e: E = Y): Int }\nenum E { X }\nextend enum E { Y }", "default-vs-extension"))
    out.append(_case("type Query { f(e: I = {x: 1, y: 2}): Int }\ninput I { x: Int }\nextend input I { y: Int }",
                     "default-vs-extension"))
    # misc behaviours
    out.append(_case('type Query { a: Int @deprecated(reason: null) b: Int @deprecated c: Int @deprecated(reason: "") '
                     'd: Int @deprecated(reason: "x") @deprecated(reason: "y") }', "valid"))
    out.append(_case("schema { query: Query }\ntype Query { a: Int }\ntype Mutation { b: Int }", "valid"))
    # seeded C11-i: a root operation the base does not define may be given by ONE extension only
    _b = "schema { query: Query }\ntype Query { a: Int }\ntype M1 { b: Int }\ntype M2 { c: Int }\n"
    out.append(_case(_b + "extend schema { mutation: M1 }\nextend schema { mutation: M2 }", "ext-dup-new-operation", expect=2))
    out.append(_case(_b + "extend schema { mutation: M1 }\nextend schema { mutation: M1 }", "ext-dup-new-operation", expect=2))
    out.append(_case("extend schema { subscription: M2 }\n" + _b + "extend schema { subscription: M1 }",
                     "ext-dup-new-operation", expect=2))
    out.append(_case(_b + "extend schema { mutation: M1 }\nextend schema { subscription: M1 }\n"
                     "extend schema { subscription: M2 }", "ext-dup-new-operation", expect=2))
    out.append(_case(_b + "extend schema {\n  mutation: M1\n  mutation: M2\n}", "ext-dup-new-operation", expect=2))
    out.append(_case(_b + "extend schema { mutation: M1 }\nextend schema { subscription: M2 }", "valid"))
    # seeded C11-h: implementing fields anywhere in the covariance lattice of the interface field's type --
    # [T]! / [T!]! / [T!] for [T], [[T]!] for [[T]], T! for T, object-for-interface and member-for-union inside
    # the wrappers; direct, through `extend type ... implements`, any definition order
    out.append(_case("interface I { a: [Int], b: [Int], c: [[Int]], d: Int, e: [I], f: [U], g: [[I]] }\n"
                     "union U = A | B\n"
                     "type A implements I { a: [Int]!, b: [Int!]!, c: [[Int]!], d: Int!, e: [A]!, f: [B!]!, g: [[A!]!]! }\n"
                     "type B implements I { a: [Int!], b: [Int], c: [[Int!]!]!, d: Int, e: [I!], f: [U]!, g: [[B]!] }\n"
                     "type Query { i: I }", "implements-covariant"))
    out.append(_case("type Query { n: Node }\ntype Item { id: ID!, tags: [String!]!, grid: [[Int]!] }\n"
                     "extend type Item implements Node\n"
                     "interface Node { id: ID, tags: [String], grid: [[Int]] }", "implements-covariant"))
    out.append(_case("type Query { n: Node }\ntype Item { id: ID!, tags: [String!]!, grid: [[Int]!] }\n"
                     "extend type Item implements Node\n"
                     "interface Node { id: ID, tags: [String], grid: [[Int]] }", "implements-covariant", ignore=True))
    # ... and the contravariant direction is rejected
    out.append(_case("interface I { a: [Int]! }\ntype A implements I { a: [Int] }\ntype Query { i: I }",
                     "interface-field-contravariant", expect=3))
    out.append(_case("interface I { a: [Int!] }\ntype A implements I { a: [Int]! }\ntype Query { i: I }",
                     "interface-field-contravariant", expect=3))
    out.append(_case("interface I { a: [[Int]!] }\ntype A implements I { a: [[Int]] }\ntype Query { i: I }",
                     "interface-field-contravariant", expect=3))
    # seeded C14-g: an explicit `= null` default is a default (has_default_value, value None), also after the
    # document went through extend_schema because of an unrelated extension -- field arguments, input fields,
    # directive arguments; named, list and enum types
    out.append(_case("directive @tag(label: String = null, ns: [Int] = null, c: Color = null) on FIELD_DEFINITION\n"
                     "enum Color { RED GREEN }\n"
                     "input Filter { prefix: String = null, ids: [Int] = null, color: Color = null, plain: Int, n: Int = 0 }\n"
                     "type Query { greet(name: String = null, xs: [Int] = null, c: Color = null, f: Filter = null, "
                     "plain: Int, e: String = \"\"): Int @tag\n  version: Int }\n"
                     "extend type Query { extra: Int }", "explicit-null-defaults"))
    out.append(_case("type Query { greet(name: String = null, c: Color = null): Int }\n"
                     "input Filter { prefix: String = null, ids: [Int!] = null }\n"
                     "enum Color { RED }\nextend enum Color { GREEN }", "explicit-null-defaults"))
    # seeded C11-f: default root names are matched exactly (case-sensitive), whatever the definition order
    out.append(_case("type mutation { b: Int }\ntype QUERY { c: Int }\ntype Query { a: Int }\ntype SubScription { d: Int }\n"
                     "type query { e: Int }", "root-case-variants"))
    out.append(_case("type Query { a: Int }\ntype Mutation { m: Int }\ntype MUTATION { x: Int }\ntype subscription { s: Int }\n"
                     "interface query { q: Int }", "root-case-variants"))
    out.append(_case("schema { query: Query }\ntype Query { a: Int }\ntype mutation { b: Int }\ntype Subscription { c: Int }",
                     "root-case-variants"))
    out.append(_case("type query { a: Int }", "no-query", expect=3))
    out.append(_case("type QUERY { a: Int }\ntype Mutation { b: Int }", "no-query", expect=3))
    out.append(_case("scalar String\ntype Query { a: String }", "valid"))
    out.append(_case("type Query { c(x: Color = RED, y: [Color!] = [GREEN, BLUE], p: Paging = {sortBy: \"a\"}): Date }\n"
                     "enum Color { WHATEVER }", "valid", additional=[ADD_ENUM, ADD_SCALAR, ADD_INPUT]))
    out.append(_case("type Query { f(e: I = {x: 1, x: 2, zzz: 3}): Int }\ninput I { x: Int, y: Int = 5, z: [Int] = 7 }", "valid"))
    out.extend(_history_corpus())
    return out


# ---- call histories over shared additional_types objects ------------------
ADD_NAMED = {"kind": "interface", "name": "Named", "fields": [{"name": "fullName", "type": "String"}]}
HIST_ADDITIONAL = [ADD_ENUM, ADD_SCALAR, ADD_INPUT, ADD_IFACE, ADD_OBJECT, ADD_UNION]
HIST_BASE = ("type Query { u: User, m: Media, n: Node, d: Date\n"
             "  p(paging: Paging = {sortBy: [\"a\"]}, c: Color = RED, cs: [Color!] = [GREEN]): Int }\n"
             "type Other { id: ID!, c: Color }")
HIST_EXTENSIONS = [
    ("enum", "extend enum Color { PURPLE @deprecated(reason: \"no\") }"),
    ("enum2", "extend enum Color @tag { PINK\n  TEAL }"),
    ("object", "extend type User { extra(a: Color = BLUE): Int }"),
    ("object-iface", "extend type Other implements Node"),
    ("interface", "extend interface Node { created: Date }\nextend type User { created: Date }"),
    ("union", "extend union Media = Other"),
    ("input", "extend input Paging { offset: Int = 0, more: Paging }"),
    ("scalar", "extend scalar Date @tag(name: \"d\")"),
    ("query", "extend type Query { z: [Media] }"),
    ("schema", "extend schema @tag"),
]


def _hist_step(rng, names):
    exts = [t for n, t in HIST_EXTENSIONS if n in names]
    rng.shuffle(exts)
    c = rng.random()
    if c < 0.25 and exts:
        # extend_schema on the schema built without extensions
        return {"op": "extend", "base": HIST_BASE, "sdl": "\n".join(exts)}
    blocks = [HIST_BASE] + exts
    if rng.random() < 0.5:
        rng.shuffle(blocks)
    return {"op": "build", "sdl": "\n".join(blocks), "ignore_extensions": rng.random() < 0.15}


def _history_case(rng, n_steps=None, label="history"):
    steps = []
    all_names = [n for n, _ in HIST_EXTENSIONS]
    for i in range(n_steps or rng.randint(2, 4)):
        c = rng.random()
        if c < 0.25:
            names = []
        elif c < 0.5 and steps:
            names = steps[-1]["_names"]            # the same document again
        else:
            names = rng.sample(all_names, rng.randint(1, 4))
        st = _hist_step(rng, names)
        st["_names"] = names
        steps.append(st)
    for st in steps:
        st.pop("_names")
    return {"additional": HIST_ADDITIONAL, "steps": steps, "label": label}


def _history_corpus():
    out = []
    ext_enum = HIST_BASE + "\n" + HIST_EXTENSIONS[0][1]
    b = lambda sdl, ign=False: {"op": "build", "sdl": sdl, "ignore_extensions": ign}  # noqa: E731
    # seeded C11-a: extend enum appended in place to the caller's EnumType
    out.append({"additional": HIST_ADDITIONAL, "label": "history-enum", "steps": [b(ext_enum), b(ext_enum), b(HIST_BASE)]})
    # extend_schema with a type / directive defined twice in the extension document
    # (build_schema rejects such documents in _collect_definitions: C11_reject_duplicates)
    for dup in ("input X { a: Int }\ninput X { b: Int }\nextend type Query { x(i: X): Int }",
                "directive @d on FIELD\ndirective @d on QUERY"):
        out.append({"additional": HIST_ADDITIONAL, "label": "history-extend-duplicate-definitions",
                    "steps": [b(HIST_BASE), {"op": "extend", "base": HIST_BASE, "sdl": dup, "model": False,
                                              "expect_reject": 2}]})
    for name, text in HIST_EXTENSIONS:
        doc = HIST_BASE + "\n" + text
        out.append({"additional": HIST_ADDITIONAL, "label": "history-" + name,
                    "steps": [b(doc), b(HIST_BASE), {"op": "extend", "base": HIST_BASE, "sdl": text}, b(doc)]})
    return out


def _gen_additional(rng, spec):
    """replace / provide some of the spec's types from code"""
    recipe = []
    names = {t["name"]: t for t in spec["types"]}
    enums = [t for t in spec["types"] if t["kind"] == "enum"]
    if enums and rng.random() < 0.7:
        e = rng.choice(enums)
        vals = []
        for i, v in enumerate(e["values"]):
            internal = rng.choice([{"t": "int", "v": str(i + 1)}, {"t": "str", "v": v["name"].lower() + "_"},
                                   {"t": "str", "v": v["name"]}])
            vals.append([v["name"], internal])
        recipe.append({"kind": "enum", "name": e["name"], "values": vals, "desc": "from code", "_drop": rng.random() < 0.5})
    scalars = [t for t in spec["types"] if t["kind"] == "scalar"]
    if scalars and rng.random() < 0.5:
        s = rng.choice(scalars)
        recipe.append({"kind": "scalar", "name": s["name"], "desc": "from code", "_drop": rng.random() < 0.5})
    return recipe


def _make_valid(rng, tier_size=None, with_additional=False):
    g = gen_sdl.Gen(rng)
    spec = g.schema(tier_size)
    recipe = _gen_additional(rng, spec) if with_additional else []
    dropped = {r["name"] for r in recipe if r.pop("_drop", False)}
    if dropped:
        spec = dict(spec, types=[t for t in spec["types"] if t["name"] not in dropped])
    for t in spec["types"]:
        if t["name"] in {r["name"] for r in recipe}:
            t["pinned"] = True      # the definition is shadowed by the supplied type: keep members out of extensions
    text, blocks = gen_sdl.render(spec, rng, split=rng.random() < 0.8)
    return spec, text, recipe


def generate(rng, tier):
    n_valid, n_invalid = (260, 140) if tier == "quick" else (3000, 1500)
    cases = []
    for i in range(n_valid):
        spec, text, recipe = _make_valid(rng, with_additional=(i % 5 == 0))
        cases.append(_case(text, "valid", ignore=rng.random() < 0.2, additional=recipe))
        if i % 10 == 0:
            # same schema, different split / order: C11_order on the implementation side is
            # checked through the model (both must give equivalent schemas)
            text2, _ = gen_sdl.render(spec, rng)
            cases.append(_case(text2, "valid", additional=recipe))
    for _ in range(30 if tier == "quick" else 400):
        cases.append(_history_case(rng))
    tries = 0
    made = 0
    while made < n_invalid and tries < n_invalid * 4:
        tries += 1
        g = gen_sdl.Gen(rng)
        spec = g.schema(rng.choice([1, 1, 2]))
        res = gen_sdl.invalidate(spec, rng)
        if res is None:
            continue
        label, text, kind = res
        cases.append(_case(text, label, ignore=False, expect=kind))
        made += 1
    return cases


def run_impl(case):
    o = sdl_impl.call({"op": "c11", "case": case})
    if "harness_error" in o:
        raise RuntimeError(o["harness_error"])
    return o


def _obs_term(obs):
    if "schema" in obs:
        return "(ObsSchema %s)" % ser_sdl.cschema(obs["schema"])
    e = obs["exc"]
    if e == "rejected":
        return "(ObsRejected %d)" % obs["kind"]
    if e in ("recursion", "timeout", "died"):
        return "ObsDiverged"
    return "ObsOther"


def _doc_term(sdl, base=None):
    doc = parse(sdl, allow_type_system=True)
    if base is None:
        return ser.cdoc(doc)
    # extend_schema(build_schema(base, ignore_extensions=True), doc): the definitions of the
    # base document followed by the nodes of the extension document
    bdoc = parse(base, allow_type_system=True)
    from py_gql.lang import ast as A
    defs = [d for d in bdoc.definitions if not isinstance(d, A.TypeSystemExtension)] + list(doc.definitions)
    return "(Doc %s NL)" % ser.clist(defs, ser.cdef)


def _steps_of(case, obs):
    """-> [(input term, observable)] : one pair for a plain case, one per call of a history"""
    add = ser.clist(obs.get("additional", []), ser_sdl.cjtype)
    if "steps" in case:
        out = []
        for st, o in zip(case["steps"], obs["steps"]):
            if st.get("model") is False:
                continue      # outside the build_schema model: model-free check only
            term = "(%s, %s, %s)" % (_doc_term(st["sdl"], st.get("base")),
                                     ser.cbool(bool(st.get("ignore_extensions"))), add)
            out.append((term, o))
        return out
    return [("(%s, %s, %s)" % (_doc_term(case["sdl"]), ser.cbool(case["ignore_extensions"]), add), obs)]


def to_coq(case, obs):
    return ser.clist(_steps_of(case, obs), lambda p: "(%s, %s)" % (p[0], _obs_term(p[1])))


def show_expr(case, obs):
    return "show_C11 %s" % ser.clist(_steps_of(case, obs), lambda p: p[0])


def nontrivial(case, obs):
    if "steps" in case:
        return True
    t = case["sdl"]
    return ("extend " in t or " = " in t or bool(case["additional"]) or case["label"] != "valid")


def canonical(case):
    if "steps" in case:
        return repr(case["steps"])
    return (case["sdl"], case["ignore_extensions"], repr(case["additional"]))


def _finding_key(case, obs):
    key = KNOWN_LABELS.get(case["label"])
    if key == "input-default-self-cycle":
        return key if obs.get("exc") in ("recursion", "timeout", "died") else None
    if key == "default-vs-extension":
        # model and implementation agree; the Spec (coercion at the declared type) does not
        if obs.get("exc") == "rejected" and obs.get("kind") == 4:
            return key
        return key if "schema" in obs else None
    return None


def classify(case, obs):
    if "steps" in case:
        return "every-call-contains-exactly-what-its-document-declares (history)", None
    key = _finding_key(case, obs)
    if "schema" in obs:
        return "contains-exactly-the-declared-schema", key
    if obs.get("exc") == "rejected":
        return "rejected-with-the-documented-error", key
    return "no-unrelated-exception", key


def direct_checks(case, obs):
    out = []
    if "steps" in case:
        if obs.get("mutated"):
            out.append(("additional-types-unchanged: the caller's type objects differ after call(s) %s"
                        % obs["mutated"], None))
        for n, (st, o) in enumerate(zip(case["steps"], obs["steps"])):
            if st.get("expect_reject") is not None and not (
                    o.get("exc") == "rejected" and o.get("kind") == st["expect_reject"]):
                out.append(("extend_schema-rejects-duplicate-definitions: call %d" % n,
                            "extend-schema-duplicate-definitions" if "schema" in o else None))
        for n, o in enumerate(obs["steps"]):
            if o.get("exc") in ("other", "graphql-other", "recursion", "timeout", "died"):
                out.append(("no-unrelated-exception: call %d %s" % (n, o.get("type", o.get("exc"))), None))
            if o.get("lost_resolvers"):
                out.append(("extension-keeps-resolvers: call %d %s" % (n, ",".join(o["lost_resolvers"][:4])), None))
        return out
    e = obs.get("exc")
    if e in ("other", "graphql-other"):
        out.append(("no-unrelated-exception: %s" % obs.get("type"), _finding_key(case, obs)))
    if e in ("recursion", "timeout", "died"):
        out.append(("build-terminates: %s" % e, _finding_key(case, obs)))
    if obs.get("lost_resolvers"):
        out.append(("extension-keeps-resolvers: %s" % ",".join(obs["lost_resolvers"][:4]), None))
    if case["label"] == "default-vs-extension":
        # the default is valid for the declared (extended) type but is coerced against the
        # un-extended one: rejected, or silently truncated
        out.append(("default-coerced-to-declared-type", "default-vs-extension"))
    if case.get("expect") is not None and "schema" in obs and case["label"] not in KNOWN_LABELS:
        out.append(("invalid-document-rejected: %s accepted" % case["label"], None))
    return out


def shrink(case, is_bad):
    """drop whole blocks while the failure persists"""
    if os.environ.get("VERIF_NO_SHRINK"):
        return case
    if "steps" in case:
        steps = case["steps"]
        changed = True
        while changed and len(steps) > 1:
            changed = False
            for i in range(len(steps)):
                cand = dict(case, steps=steps[:i] + steps[i + 1:])
                if is_bad(cand):
                    steps = cand["steps"]
                    changed = True
                    break
        return dict(case, steps=steps)
    blocks = case["sdl"].rstrip("\n").split("\n\n")
    changed = True
    while changed and len(blocks) > 1:
        changed = False
        for i in range(len(blocks)):
            cand = dict(case, sdl="\n\n".join(blocks[:i] + blocks[i + 1:]) + "\n")
            try:
                parse(cand["sdl"], allow_type_system=True)
            except Exception:
                continue
            if is_bad(cand):
                blocks = blocks[:i] + blocks[i + 1:]
                changed = True
                break
    return dict(case, sdl="\n\n".join(blocks) + "\n")


def extra_evidence(cases, obss):
    labels, outcomes = {}, {}
    hist = [c for c in cases if "steps" in c]
    pairs = [(c, o) for c, o in zip(cases, obss) if "steps" not in c]
    cases = [c for c, _ in pairs]
    for c, o in pairs:
        labels[c["label"]] = labels.get(c["label"], 0) + 1
        k = "schema" if "schema" in o else ("rejected-%s" % o.get("kind") if o.get("exc") == "rejected" else o.get("exc"))
        outcomes[k] = outcomes.get(k, 0) + 1
    return {"distribution": {
        "labels": labels, "outcomes": outcomes,
        "with_extensions": sum(1 for c in cases if "extend " in c["sdl"]),
        "with_defaults": sum(1 for c in cases if " = " in c["sdl"]),
        "with_additional_types": sum(1 for c in cases if c["additional"]),
        "ignore_extensions": sum(1 for c in cases if c["ignore_extensions"]),
        "with_input_types": sum(1 for c in cases if "input " in c["sdl"]),
        "with_schema_definition": sum(1 for c in cases if "schema" in c["sdl"]),
        "history_cases": len(hist),
        "history_calls": sum(len(c["steps"]) for c in hist),
        "history_extend_schema_calls": sum(1 for c in hist for st in c["steps"] if st["op"] == "extend"),
    }}
