# -*- coding: utf-8 -*-
"""C06 -- validation verdicts match the specification and ignore irrelevant order."""
import itertools

from py_gql.exc import GraphQLError
from py_gql.lang import parse

from .. import gen_valid, valid_common as vc
from . import c05

PROP = "C06"
THEOREMS = [
    "C06_rule_equiv_NoFragmentCycles", "C06_rule_equiv_NoUnusedFragments_joint",
    "C06_rule_equiv_NoUndefinedVariables", "C06_rule_equiv_NoUnusedVariables",
    "C06_rule_equiv_KnownFragmentNames", "C06_rule_equiv_LoneAnonymousOperation",
    "C06_rule_equiv_UniqueFragmentNames", "C06_rule_equiv_ValuesOfCorrectType_position",
    "C06_rule_equiv_ExecutableDefinitions", "C06_rule_equiv_SingleFieldSubscriptions", "C06_rule_equiv_KnownTypeNames", "C06_rule_equiv_FragmentsOnCompositeTypes", "C06_rule_equiv_VariablesAreInputTypes", "C06_rule_equiv_ScalarLeafs", "C06_rule_equiv_FieldsOnCorrectType", "C06_rule_equiv_PossibleFragmentSpreads", "C06_rule_equiv_UniqueVariableNames", "C06_rule_equiv_KnownDirectives", "C06_rule_equiv_UniqueDirectivesPerLocation", "C06_rule_equiv_KnownArgumentNames", "C06_rule_equiv_UniqueArgumentNames", "C06_rule_equiv_ProvidedRequiredArguments", "C06_rule_equiv_UniqueInputFieldNames", "C06_rule_equiv_UniqueOperationName_joint", "C06_verdict_partial", "C06_perm_definitions", "C06_perm_selections_arguments", "C06_rename_partial", "C06_rename",
    "C06_rule_equiv_ValuesOfCorrectType", "C06_rule_equiv_VariablesInAllowedPosition", "C06_verdict_25", "C06_perm_definitions_25", "C06_perm_selections_arguments_25", "C06_rename_25",
    "C06_rule_equiv_OverlappingFieldsCanBeMerged_memo_free", "C06_overlap_reports_only_conflicts", "C06_conflict_free_symmetric", "C06_verdict_26", "C06_perm_definitions_all26",
    "C06_perm_definitions_partial", "C06_perm_selections_arguments_partial", "C06_close_reachability",
]
AXIOMS_OK = []
RUN_MODULE = "Run.C06run"
AGREE = "agree_C06"
CASE_TYPE = "case_C06"
EXTRA_HEADER = ""
SHARD = 30
LEVEL_NOTE = ("Theorems relate the Gallina model coq/Valid/*.v of the rule visitors (tree with fixes/C05-*.patch and "
              "fixes/C06-*.patch applied) to order-free specification forms in coq/Spec/Valid*.v for 25 of the 26 rules; "
              "OverlappingFieldsCanBeMerged is related to its own memo-free search (caching proved transparent) and "
              "otherwise tied to the repository by the per-rule correspondence. The set of rule "
              "labels is obtained by running each rule class alone through the public validators= parameter.")
RULE = ("base documents = valid-by-construction documents and single labelled violators (26 labels) over generated schemas; "
        "for each base: a permutation of the definitions, of all selection lists, of all argument lists, of the fields of all input object literals, a re-spelling of every line terminator (LF, CRLF, CR) with comments added and stripped, a consistent renaming "
        "of aliases/fragments/variables to fresh names, and re-spellings of insignificant trivia (commas, line breaks, "
        "comments, tight); the label set of every variant must equal the base's and the model's. "
        "non-trivial = variant text differs from the base text; distinct = distinct (schema, text)")

RESPELL_PER_BASE = 1   # thorough tier: 2
VARIANTS = ["base", "perm_defs", "perm_sels", "perm_args", "perm_fields", "rename", "trivia", "respell_lines"]


def _mk(sdl, tree, base_text, variant, label, origin, style="plain"):
    c = {"sdl": sdl, "text": gen_valid.render(tree, style), "base_text": base_text, "variant": variant,
         "origin": origin}
    if tree.get("allow_type_system"):
        c["ats"] = True
    if label:
        c["label"] = label
    return c


def variants_of(rng, sdl, tree, label, origin, styles, respell=None):
    base_text = gen_valid.render(tree, "plain")
    out = [_mk(sdl, tree, base_text, "base", label, origin)]
    out.append(_mk(sdl, gen_valid.permute_defs(rng, tree), base_text, "perm_defs", label, origin))
    out.append(_mk(sdl, gen_valid.permute_selections(rng, tree), base_text, "perm_sels", label, origin))
    if not gen_valid.duplicate_arg_names(tree):
        out.append(_mk(sdl, gen_valid.permute_arguments(rng, tree), base_text, "perm_args", label, origin))
    if not any(d["kind"] == "raw" for d in tree["defs"]):
        # the fields of every input object literal (arguments, list items, nested fields, variable
        # defaults) in another order -- one ranking of the names, so that equal literals stay equal
        pf = gen_valid.permute_input_fields(rng, tree)
        if pf is not None and gen_valid.render(pf, "plain") != base_text:
            out.append(_mk(sdl, pf, base_text, "perm_fields", label, origin))
        out.append(_mk(sdl, gen_valid.rename(rng, tree), base_text, "rename", label, origin))
    for st in styles:
        out.append(_mk(sdl, tree, base_text, "trivia", label, origin, st))
    if not any(d["kind"] == "raw" for d in tree["defs"]):
        # presentation only: the multi-line spelling (with comments at line ends in one of the two styles), every line
        # terminator re-spelled \n / \r\n / \r, comments added and stripped
        for _ in range(RESPELL_PER_BASE if respell is None else respell):
            c = _mk(sdl, tree, base_text, "respell_lines", label, origin)
            c["text"] = gen_valid.respell_lines(rng, gen_valid.render(tree, rng.choice(["comments", "lines"])))
            out.append(c)
    return out


def _respell_guard(c):
    """a re-spelling that no longer parses while its base does is a violation of its own: the case is
    kept, on the base text, with the failing text recorded"""
    if c["variant"] != "respell_lines":
        return c
    try:
        parse(c["base_text"], allow_type_system=bool(c.get("ats")))
    except GraphQLError:
        return c
    try:
        parse(c["text"], allow_type_system=bool(c.get("ats")))
        return c
    except GraphQLError as e:
        return dict(c, text=c["base_text"], respell_failed=[c["text"], str(e)[:120]])


def corpus():
    out = []
    # row 18 / C06-01: definition orders of a transitive fragment chain
    for c in c05.corpus():
        if c["kind"] == "rules":
            out.append({"sdl": c["sdl"], "text": c["text"], "base_text": c["text"], "variant": "base", "origin": "witness"})
    # seeded C06-a: the same document with the two exclusive inline fragments swapped
    out.append({"sdl": c05.WITNESS_SDL, "text": c05._EXCL[1], "base_text": c05._EXCL[0], "variant": "perm_sels",
                "origin": "witness"})
    out.append({"sdl": c05.WITNESS_SDL, "text": c05._EXCL[0], "base_text": c05._EXCL[1], "variant": "perm_sels",
                "origin": "witness"})
    # seeded C05-b / C06-b: the two orders of each variable-position form are variants of each other
    forms = dict((n, gen_valid.render({"defs": defs}, "plain"))
                 for n, defs in gen_valid.variable_position_forms(__import__("random").Random(7)))
    for a, b, variant in (("one-field-0", "one-field-1", "perm_args"), ("two-fields-0", "two-fields-1", "perm_sels"),
                          ("input-field-0", "input-field-1", "perm_args"),
                          ("shared-compatible-first", "shared-incompatible-first", "perm_defs"),
                          ("shared-3-ops-a", "shared-3-ops-b", "perm_defs"), ("shared-3-ops-a", "shared-3-ops-c", "perm_defs")):
        out.append({"sdl": c05.WITNESS_SDL, "text": forms[b], "base_text": forms[a], "variant": variant, "origin": "witness"})
        out.append({"sdl": c05.WITNESS_SDL, "text": forms[a], "base_text": forms[b], "variant": variant, "origin": "witness"})
    # seeded C06-c: consistent renaming of fragments / operations / variables of the collision forms
    for _n, lab, defs in c05._NS:
        tree = {"defs": defs}
        c = {"sdl": c05.WITNESS_SDL, "text": gen_valid.render(gen_valid.rename(__import__("random").Random(3), tree), "plain"),
             "base_text": gen_valid.render(tree, "plain"), "variant": "rename", "origin": "witness"}
        if lab:
            c["label"] = lab
        out.append(c)
    # seeded C06-d: the two orders of the occurrences are perm_sels variants of each other
    rs = {}
    for n, lab, order, defs in c05._RS:
        rs[(n, order)] = (lab, gen_valid.render({"defs": defs}, "plain"))
    for (n, order), (lab, text) in rs.items():
        c = {"sdl": c05.WITNESS_SDL, "text": text, "base_text": rs[(n, 1 - order)][1], "variant": "perm_sels", "origin": "witness"}
        if lab:
            c["label"] = lab
        out.append(c)
    # seeded C06-e: no_location parses / separately parsed sources, both orders as variants of each other
    nl = c05.nl_cases()
    for i, j in ((1, 2), (2, 1), (3, 4), (4, 3), (5, 6), (6, 5)):
        c = {"sdl": c05.NL_SDL, "text": nl[i]["text"], "base_text": nl[j]["text"], "variant": "perm_sels" if i < 5 else "perm_defs",
             "origin": "witness"}
        if nl[i].get("parts"):
            c["parts"] = nl[i]["parts"]
        out.append(c)
    for i in (0, 7):
        c = {"sdl": c05.NL_SDL, "text": nl[i]["text"], "base_text": nl[i]["text"], "variant": "base", "origin": "witness"}
        if nl[i].get("parts"):
            c["parts"] = nl[i]["parts"]
        out.append(c)
    # seeded C06-f: every order of the same-key inline fragments is a perm_sels variant of the first
    first = {}
    for name, text in c05.memo_cases():
        first.setdefault(name, text)
        out.append({"sdl": c05.MEMO_SDL, "text": text, "base_text": first[name],
                    "variant": "base" if text == first[name] else "perm_sels", "origin": "witness"})
    # seeded C06-h: every order of the required fields of an input object literal is a perm_fields
    # variant of the declaration order (argument value, list item, nested field, variable default)
    ro = [(n, gen_valid.render({"defs": defs}, "plain")) for n, defs in c05._RO]
    first = {}
    for n, text in ro:
        kind = n.rsplit("-", 1)[0]
        first.setdefault(kind, text)
        out.append({"sdl": c05.WITNESS_SDL, "text": text, "base_text": first[kind],
                    "variant": "base" if text == first[kind] else "perm_fields", "origin": "witness"})
    # seeded C05-h: the two orders of two same-key fields with related argument literals
    oa = dict((n, gen_valid.render({"defs": defs}, "plain")) for n, defs in c05._OA)
    for n, text in oa.items():
        name, order, place = n.rsplit("-", 2)
        out.append({"sdl": c05.WITNESS_SDL, "text": text, "base_text": oa["%s-%d-%s" % (name, 1 - int(order), place)],
                    "variant": "perm_sels", "origin": "witness"})
    # seeded C06-i: line terminators and comments re-spelled (a comment ends at \r as well as at \n)
    anc = "anchor(req: 1, inn: {v: 1}, lnn: [1])"
    for base, texts in (
            ("{ %s { name meowVolume } }" % anc,
             ["{ %s {\r    name # its name\r    meowVolume\n  }\r}" % anc,
              "{ %s {\r\n    name # its name\r\n    meowVolume\r\n  }\r\n}" % anc,
              "{ %s { # open\r name\r # alone\r meowVolume # last\r } }\n" % anc]),
            ("{ %s { id name } }" % anc,
             ["{ %s { # c\r id # d\r name }\r}" % anc,
              "{ %s {\r id #\r name\r}\r}\r" % anc,
              "# head\r{ %s { id, name } } # tail" % anc,
              "{ %s { id # one\r\n name # two\n } } # three\r" % anc]),
            ("query Q($v: Int = 1) { %s { id @skip(if: false) } }" % anc,
             ["query Q( # vars\r $v: Int = 1 # default\r) # dirs\r{ %s { id @skip( # arg\r if: false) } }" % anc])):
        for text in texts:
            out.append(_respell_guard({"sdl": c05.WITNESS_SDL, "text": text, "base_text": base, "variant": "respell_lines",
                                       "origin": "witness"}))
    chain = c05._CHAIN
    head = "query Q($v: Int) { anchor(req: 1, inn: {v: 1}, lnn: [1]) { ...Ta } }"
    base = head + " " + " ".join(chain)
    for perm in itertools.permutations(chain):
        out.append({"sdl": c05.WITNESS_SDL, "text": " ".join(perm) + " " + head, "base_text": base,
                    "variant": "perm_defs", "origin": "witness"})
    return out


def generate(rng, tier):
    quick = tier == "quick"
    global RESPELL_PER_BASE
    RESPELL_PER_BASE = 1 if quick else 2
    vc.ALT_RULES_ALL = not quick
    n_schemas = 3 if quick else 10
    n_valid = 6 if quick else 20
    cases = []
    for _ in range(n_schemas):
        sdl = gen_valid.gen_schema(rng)
        schema = vc.schema_of(sdl)
        valid = [gen_valid.gen_document(rng, schema) for _ in range(n_valid)]
        for t in valid:
            cases.extend(variants_of(rng, sdl, t, None, "valid", [rng.choice(gen_valid.STYLES[1:])] if quick else gen_valid.STYLES[1:]))
        for label in range(1, 27):
            for _try in range(6):
                t = gen_valid.violate(rng, schema, rng.choice(valid), label)
                if t is not None:
                    cases.extend(variants_of(rng, sdl, t, label, "violator", [rng.choice(gen_valid.STYLES[1:])],
                                             respell=(1 if label % 3 == 0 else 0) if quick else None))
                    break
        if not quick:
            for t in gen_valid.special_mutants(rng)[:: 3]:
                cases.extend(variants_of(rng, sdl, t, None, "special", []))
    ok = []
    for c in cases:
        c = _respell_guard(c)
        try:
            parse(c["text"], allow_type_system=bool(c.get("ats")))
            parse(c["base_text"], allow_type_system=bool(c.get("ats")))
            ok.append(c)
        except GraphQLError:
            pass
    allc = ok + list(corpus())
    vc.prefetch(allc + [{k: v for k, v in dict(c, text=c["base_text"]).items() if k != "parts"} for c in allc])
    return ok


def run_impl(case):
    obs = vc.run_rules(case)
    base = vc.run_rules({k: v for k, v in dict(case, text=case["base_text"]).items() if k != "parts"})
    obs["base_reported"] = base["reported"]
    obs["base_raised"] = base["raised"]
    obs["base_full"] = base.get("full")
    return obs


def to_coq(case, obs):
    global EXTRA_HEADER
    head = vc.rules_term(case, obs)
    EXTRA_HEADER = vc.header()
    return "(%s, %s)" % (head, vc.nlist(obs["reported"]))


def show_expr(case, obs):
    return "model_C06 %s" % vc.rules_term(case, obs)


def nontrivial(case, obs):
    return case["text"] != case["base_text"] and "raised" in obs


def canonical(case):
    return (case["sdl"], case["text"])


def classify(case, obs):
    return "set-of-reporting-rules-equals-the-model", None


def direct_checks(case, obs):
    out = vc.rules_direct_checks(case, obs)
    if case.get("respell_failed"):
        out.append(("parse-unchanged-by-respell_lines", None))
    if not obs["raised"] and not obs["base_raised"] and obs["reported"] != obs["base_reported"]:
        out.append(("verdict-unchanged-by-%s" % case["variant"], None))
    elif "full" in obs and obs.get("base_full") is not None and bool(obs["full"]) != bool(obs["base_full"]):
        out.append(("default-validator-verdict-unchanged-by-%s" % case["variant"], None))
    return out


def shrink(case, is_bad):
    return case


def extra_evidence(cases, obss):
    by_variant, by_origin, labels = {}, {}, {}
    for c, o in zip(cases, obss):
        by_variant[c["variant"]] = by_variant.get(c["variant"], 0) + 1
        by_origin[c["origin"]] = by_origin.get(c["origin"], 0) + 1
        if c.get("label") and c["variant"] == "base":
            labels[vc.label_name(c["label"])] = labels.get(vc.label_name(c["label"]), 0) + 1
    return {"distribution": {
        "cases_by_variant": by_variant, "cases_by_origin": by_origin, "base_violators_per_label": labels,
        "schemas": len({c["sdl"] for c in cases}),
        "accepted": sum(1 for o in obss if not o.get("reported") and not o.get("raised")),
        "rejected": sum(1 for o in obss if o.get("reported")),
        "label_sets_seen": len({tuple(o.get("reported", [])) for o in obss}),
    }}
