# -*- coding: utf-8 -*-
"""C07 -- resolvers only receive arguments that conform to the declared input types."""
import itertools
import json
import random

from py_gql import build_schema, graphql_blocking
from py_gql.sdl import SchemaDirective
from py_gql.exc import (
    CoercionError,
    InvalidValue,
    ValidationError,
    VariableCoercionError,
    VariablesCoercionError,
)
from py_gql.lang import parse, parse_value
from py_gql.utilities import (
    coerce_argument_values,
    coerce_value,
    coerce_variable_values,
    value_from_ast,
)

from .. import gen_coerce as G
from .. import ser

PROP = "C07"
THEOREMS = [
    "C07_var_sound", "C07_lit_sound", "C07_args_sound", "C07_vars_sound", "C07_exec_sound",
    "C07_nonnull_never_null", "C07_routes_agree", "C07_arg_routes_agree",
    "C07_complete", "C07_rejects_var", "C07_rejects_lit", "C07_absent_omitted",
    "C07_required_present", "C07_total", "C07_rejects_foreign_kind_refuted", "C07_foreign_kind_gap",
    "C07_rejects_var_exact", "C07_rejects_lit_exact", "C07_no_other_leniency", "C07_lenient_witnesses",
    "C07_total_lit", "C07_total_args", "C07_total_vars", "C07_total_request",
    "C07_directive_args_sound", "C07_directive_args_total", "C07_skip_if_is_boolean",
    "C07_usage_from_rule24", "C07_valid_schema_of_agree", "C07_subtype_agree",
    "C07_usage_ok_from_validation", "C07_validated_request_sound", "C07_validated25_request_sound",
    "C07_usage_ok_example", "C07_dir_if_is_directive_arguments", "C07_collector_skip_is_general",
    "C07_user_exception_bubbles", "C07_user_exception_bubbles_list", "C07_user_exception_bubbles_request",
    "C07_exec_directive_sound", "C07_validated_directive_args_sound",
    "C07_single_value_wraps_every_level", "C07_single_literal_wraps_every_level", "C07_list_corners",
    "C07_checkers_sound", "C07_agree_checkers_sound", "C07_validated_request_sound_checked",
    "C07_wrong_accepted_only_if_lenient", "C07_wrong_full_iff", "C07_foreign_accepted_iff",
    "C07_request_routes_agree",
    "C07_example",
]
AXIOMS_OK = []
RUN_MODULE = "Run.C07run Exec.CoerceModel"
AGREE = "agree_C07"
CASE_TYPE = "case_C07"
SHARD = 150
EXTRA_HEADER = ""
LEVEL_NOTE = ("Theorems are about the Gallina model Exec/CoerceModel.v of coerce_value.py, "
              "value_from_ast.py, the scalar input parsers and argument/variable assembly (after "
              "fixes C07-01..05); the model is tied to /repo by running both on the same generated "
              "(type, value) pairs and requests on every run, the resolver's kwargs being captured "
              "from a real execution. Floats are canonical positional decimal text on both sides "
              "(generator restricted to values whose repr is injective: <= 15 significant digits, "
              "1e-4 <= |x| < 1e16); Python's wider number-text syntax (underscores, blanks, inf/nan) "
              "for the pinned numeric-string leniency is outside the modelled domain.")
RULE = ("(type, value) pairs: every wrapper shape to depth 3 over the 5 specified scalars, a "
        "transparent custom scalar, a strict user scalar, enums with internal values != names and "
        "(recursive) input objects with defaults and python names != names, in one fixed and several "
        "seeded random schemas; values natural (incl. +-2^31, +-(2^31-1), single value in list "
        "position, provided/omitted/null fields) or carrying exactly one labelled mistake; both the "
        "JSON route (coerce_value) and the literal route (value_from_ast, with nested variables); "
        "requests executed end to end (coerce_variable_values + argument_values + resolver kwargs) "
        "with variables of equal / stricter / defaulted-nullable type; requests selecting ONE field "
        "node on an interface / union position whose concrete types declare the field with their own "
        "defaults, extra nullable arguments and python names, objects of several concrete types "
        "returned in varying order, each resolver's kwargs compared with coerce_argument_values for "
        "that type's own definition; requests with @skip / @include (literal, variable, missing, null, "
        "ill-typed `if`) and a custom directive whose arguments are read through "
        "info.get_directive_arguments and, written in SDL, through a schema directive; non-trivial = the type has a "
        "wrapper, enum or input object, or the value is a boundary / wrong one; distinct = distinct "
        "(schema, type or argument definitions, value / request text, variables)")

_SCHEMAS = {}      # coq name -> term
_VSCHEMAS = {}     # coq name -> term of the validation model's schema type
_BUILT = {}


def _header():
    h = "From Coq Require Import ZArith.\nLocal Open Scope N_scope.\n" + "".join(
        "Definition %s : schema :=\n %s.\n" % (n, t) for n, t in sorted(_SCHEMAS.items()))
    if _VSCHEMAS:
        h += "Module VSch.\nImport PyGql.Valid.ValidSchema.\n" + "".join(
            "Definition %s : schema :=\n %s.\n" % (n, t) for n, t in sorted(_VSCHEMAS.items())) + "End VSch.\n"
    return h


def _vschema_ref(term):
    global EXTRA_HEADER
    name = "vs_%d" % (abs(hash(term)) % (10 ** 12))
    if name not in _VSCHEMAS:
        _VSCHEMAS[name] = term
        EXTRA_HEADER = _header()
    return "VSch." + name


def _schema_ref(sd):
    global EXTRA_HEADER
    key = json.dumps(sd, sort_keys=True)
    name = "sch_%d" % (abs(hash(key)) % (10 ** 12))
    if name not in _SCHEMAS:
        _SCHEMAS[name] = G.cschema(sd)
        EXTRA_HEADER = _header()
    return name


def _built(sd, argdefs=()):
    key = json.dumps([sd, list(argdefs)], sort_keys=True)
    b = _BUILT.get(key)
    if b is None:
        if len(_BUILT) > 400:
            _BUILT.clear()
        b = _BUILT[key] = G.Built(sd, argdefs)
    return b


def _built_abs(case):
    key = json.dumps(["abs", case["schema"], case["iface_args"], case["impls"]], sort_keys=True)
    b = _BUILT.get(key)
    if b is None:
        if len(_BUILT) > 400:
            _BUILT.clear()
        b = _BUILT[key] = G.BuiltAbs(case["schema"], case["iface_args"], case["impls"])
    return b


def _built_dir(case):
    key = json.dumps(["dir", case["schema"], case["cdefs"]], sort_keys=True)
    b = _BUILT.get(key)
    if b is None:
        if len(_BUILT) > 400:
            _BUILT.clear()
        b = _BUILT[key] = G.BuiltDir(case["schema"], case["cdefs"])
    return b


# ------------------------------------------------------------------ corpus
def corpus():
    sd = G.fixed_schema()
    out = []

    def val(t, j, label="corpus"):
        out.append({"kind": "val", "schema": sd, "type": t, "json": j, "label": label})

    def lit(t, text, vs=None, label="corpus"):
        out.append({"kind": "lit", "schema": sd, "type": t, "lit": text, "vars": vs or {}, "label": label})

    def ex(args, query, raw, label="corpus"):
        out.append({"kind": "exec", "schema": sd, "args": args, "query": query, "raw": raw, "label": label})

    # C07-01 (row 21): 32-bit boundaries, both routes
    for n in (2 ** 31 - 1, -2 ** 31, 2 ** 31, -2 ** 31 - 1):
        val(G.N("Int"), n, "fixed:C07-01")
        lit(G.N("Int"), str(n), label="fixed:C07-01")
    # C07-02 (row 20): defaults through the variable route
    val(G.N("Point"), {"x": 1}, "fixed:C07-02")
    val(G.N("Node"), {"value": 1}, "fixed:C07-02")          # ratio: Float! = 1.5 omitted
    lit(G.N("Node"), "{value: 1}", label="fixed:C07-02")
    ex([{"name": "p", "py": "p_py", "type": G.N("Node"), "default": None}],
       "query ($v: Node) { f(p: $v) }", {"v": {"value": 3, "next": {"value": 4}}}, "fixed:C07-02")
    ex([{"name": "p", "py": "p_py", "type": G.N("Node"), "default": None}],
       "{ f(p: {value: 3, next: {value: 4}}) }", {}, "fixed:C07-02")
    # C07-03 (row 22): null variable for a non-null argument
    a_nn = [{"name": "x", "py": "x_py", "type": G.N("Int", True), "default": None}]
    ex(a_nn, "query ($v: Int = 3) { f(x: $v) }", {"v": None}, "fixed:C07-03")
    ex(a_nn, "query ($v: Int = 3) { f(x: $v) }", {}, "fixed:C07-03")
    ex(a_nn, "query ($v: Int = 3) { f(x: $v) }", {"v": 5}, "fixed:C07-03")
    # C07-04 (row 23): wrong JSON kinds for the specified scalars
    for t, vals in (("String", [{"a": 1}, True]), ("ID", [{"a": 1}, [1], True, 1.5]),
                    ("Boolean", [0, 1, "x", "", 1.5]), ("Int", [True, False]), ("Float", [True])):
        for v in vals:
            val(G.N(t), v, "fixed:C07-04")
    ex([{"name": "b", "py": "b", "type": G.N("Boolean"), "default": None}],
       "query ($v: Boolean) { f(b: $v) }", {"v": "false"}, "fixed:C07-04")
    # C07-05: transparent custom scalar, number literals
    lit(G.N("Any1"), "12", label="fixed:C07-05")
    lit(G.N("Any1"), "1.5", label="fixed:C07-05")
    val(G.N("Any1"), 12, "fixed:C07-05")
    # C07-07: an integer beyond the range of doubles for Float
    for n in (10 ** 400, -2 ** 1024, 2 ** 1024 - 2 ** 970):
        val(G.N("Float"), n, "fixed:C07-07")
    val(G.L(G.N("Float", True)), [1, 10 ** 310], "fixed:C07-07")
    ex([{"name": "x", "py": "x", "type": G.N("Float"), "default": None}],
       "query ($v: Float) { f(x: $v) }", {"v": 10 ** 400}, "fixed:C07-07")
    # C07-06: unknown field of a literal at a wrapped position (validation)
    for t in (G.N("Point", True), G.L(G.N("Point")), G.N("Point")):
        ex([{"name": "p", "py": "p_py", "type": t, "default": None}],
           "{ f(p: {x: 1, zzUnknown: 2}) }", {}, "unknown-field")
    # /repo 9ab1e9d: a non-finite JSON number for Int (json.loads("1e999")) is a coercion error
    for j in (float("inf"), float("-inf"), float("nan")):
        val(G.N("Int"), j, "fixed:int-infinite-float-overflow")
        val(G.L(G.N("Int", True)), [1, j], "fixed:int-infinite-float-overflow")
    ex([{"name": "x", "py": "x_py", "type": G.N("Int"), "default": None}],
       "query ($v: Int) { f(x: $v) }", {"v": float("inf")}, "fixed:int-infinite-float-overflow")
    # a user scalar raising an arbitrary exception: it bubbles up, also past
    # CoercionErrors already collected for earlier items / fields
    val(G.N("Odd"), 13, "user-exception")
    val(G.N("Odd"), 7, "user-exception")
    val(G.L(G.N("Odd")), [2, 13], "user-exception")
    val(G.L(G.N("Odd")), [13, 2], "user-exception")
    val(G.L(G.N("Odd", True)), [None, 4, 13, 5], "user-exception")
    val(G.N("Node"), {"odds": [1, 13]}, "user-exception")           # `value` missing AND the exception
    val(G.N("Node"), {"value": 1, "odds": [2], "zz": 1}, "user-exception")
    # a provided field is refused (held back) and a later field raises: the exception wins
    val(G.N("Node"), {"value": "x", "odds": [13]}, "user-exception")
    val(G.N("Node"), {"odds": [13], "value": "x", "next": {"value": None}}, "user-exception")
    lit(G.N("Odd"), "13", label="user-exception")
    lit(G.L(G.N("Odd")), "[3, 13, 2]", label="user-exception")
    ex([{"name": "o", "py": "o_py", "type": G.L(G.N("Odd", True)), "default": None}],
       "query ($v: [Odd!]) { f(o: $v) }", {"v": [1, 13]}, "user-exception")
    ex([{"name": "o", "py": "o_py", "type": G.N("Odd"), "default": None}],
       "{ f(o: 13) }", {}, "user-exception")
    ex([{"name": "o", "py": "o_py", "type": G.N("Odd"), "default": None}],
       "{ f(o: 3) }", {}, "user-exception")
    # one field node on an abstract position, resolved against several concrete
    # field definitions (seeded C07-b: argument cache keyed by the node alone)
    ia = [{"name": "scale", "py": "scale", "type": G.N("Int"), "default": [1]},
          {"name": "p", "py": "p", "type": G.N("Point"), "default": None}]
    impls = [
        {"name": "ThingA", "args": [
            {"name": "scale", "py": "scale_a", "type": G.N("Int"), "default": [10]},
            {"name": "p", "py": "p", "type": G.N("Point"), "default": [{"x": 3, "y_py": 7, "label": "pt"}]},
            {"name": "label", "py": "label_py", "type": G.N("String"), "default": ["a"]}]},
        {"name": "ThingB", "args": [
            {"name": "scale", "py": "scale", "type": G.N("Int"), "default": [20]},
            {"name": "p", "py": "p_b", "type": G.N("Point"), "default": None},
            {"name": "verbose", "py": "verbose", "type": G.N("Boolean"), "default": None}]},
    ]
    for pos in ("iface", "union"):
        for vd, call, raw in (("", "", {}), ("", "(scale: 5)", {}), ("", "(p: {x: 1})", {}),
                              ("($v: Int, $w: Point)", "(scale: $v, p: $w)", {"w": {"x": 2}}),
                              ("($v: Int = 4)", "(scale: $v)", {"v": None})):
            for order in (["ThingA", "ThingB"], ["ThingB", "ThingA", "ThingB"]):
                out.append({"kind": "abs", "schema": sd, "iface_args": ia, "impls": impls, "pos": pos,
                            "order": order, "vardefs": vd, "call": call, "raw": raw,
                            "label": "corpus-abstract"})
    # directive arguments: @skip / @include through _skip_selection, @custom through
    # info.get_directive_arguments and as a schema directive
    cd = [{"name": "a", "py": "a_py", "type": G.N("Int"), "default": [3]},
          {"name": "c", "py": "c", "type": G.N("Color"), "default": None},
          {"name": "p", "py": "p_py", "type": G.N("Point"), "default": None}]
    for vd, dirs, raw in (
            ("", ["@custom(a: 2147483647, c: RED, p: {x: 1})"], {}),
            ("", ["@custom"], {}), ("", [], {}),
            ("", ["@skip(if: false)", "@custom(c: BLUE)", "@include(if: true)"], {}),
            ("", ["@skip(if: true)", "@custom(c: BLUE)"], {}),
            ("", ["@include(if: false)"], {}),
            ("($s: Boolean!, $p: Point)", ["@skip(if: $s)", "@custom(p: $p)"], {"s": False, "p": {"x": 2}}),
            ("($s: Boolean!)", ["@include(if: $s)"], {"s": False}),
            ("($s: Boolean = true)", ["@skip(if: $s)"], {"s": None}),       # C07-03 at a directive
            ("($s: Boolean = true)", ["@skip(if: $s)"], {}),
            ("", ["@custom(a: 2147483648)"], {}), ("", ["@custom(c: NOPE)"], {}),
            ("", ["@skip(if: true)", "@skip(if: false)"], {}), ("", ["@skip(if: false)", "@skip(if: true)"], {}),
            ("", ["@custom(a: 1)", "@custom(a: 2)"], {}),
            ("", ["@skip(if: 1)"], {}), ("", ["@skip"], {})):
        for pos in ("root", "nested"):
            out.append({"kind": "dir", "schema": sd, "cdefs": cd, "vardefs": vd, "dirs": dirs, "raw": raw,
                        "label": "corpus-directive", "pos": pos})
    # open findings pinned by the test-suite
    val(G.N("Int"), "12", "numeric-string-for-number")
    val(G.N("Float"), "1.5", "numeric-string-for-number")
    # ... with everything python's int() / float() take: blanks, +, underscores
    for v in ("1_0", " 12 ", "+5", "\t7\n", "1e3", "-1_000"):
        val(G.N("Int"), v, "numeric-string-for-number")
    for v in ("1_0.5", " 1.5 ", "+2.5e1", "1_0"):
        val(G.N("Float"), v, "numeric-string-for-number")
    for v in ("1__0", "_1", "1_", " ", "1 0", "1_0.5"):
        val(G.N("Int"), v, "wrong-kind")
    for v in ("1__0", "_1.5", "1_", " "):
        val(G.N("Float"), v, "wrong-kind")
    val(G.N("String"), 3, "number-for-string")
    return out


# --------------------------------------------------------------- generation
def _value_cases(rng, sd, t, n_nat, n_wrong, depth=2):
    out = []
    for _ in range(n_nat):
        j = G.gen_json(rng, sd, t, depth, None)
        out.append(("natural", j))
    for _ in range(n_wrong):
        lab = rng.choice(G.WRONG_LABELS + ["user-exception"])
        for _try in range(4):
            plan = G.Plan(rng, lab)
            j = G.gen_json(rng, sd, t, depth, plan)
            if not plan.armed:
                out.append((lab, j))
                break
    return out


def _with_vars(rng, sd, t, j):
    """replace up to two sub-values of a literal by variables"""
    pos = [p for p in G.positions(sd, t, j) if p[0] != ()]
    rng.shuffle(pos)
    subst, vs = {}, {}
    for path, pt, pj in pos[:rng.choice([1, 1, 2])]:
        if any(path[:len(q)] == q or q[:len(path)] == path for q in subst):
            continue
        name = "v%d" % len(subst)
        subst[path] = "$" + name
        r = rng.random()
        if r < 0.15:
            pass                                  # variable not provided
        elif r < 0.3:
            vs[name] = None                       # provided null
        else:
            vs[name] = G.internal_of(sd, pt, pj)
    return G.lit_text(sd, t, j, subst), vs


def _exec_case(rng, sd):
    names = ["Int", "Float", "String", "ID", "Boolean", "Any1", "Tag", "Odd"] + [
        td["name"] for td in sd["types"] if td["kind"] in ("enum", "input")]
    shapes = G.type_shapes(2)
    args, parts, vdefs, raw = [], [], [], {}
    label = "natural"
    for i in range(rng.choice([1, 1, 2, 3])):
        base = rng.choice(names)
        t = rng.choice(shapes)(base)
        aname = rng.choice(["a", "argTwo", "x", "inputValue"]) + str(i)
        arg = {"name": aname, "py": aname if rng.random() < 0.3 else "py_" + aname.lower(),
               "type": t, "default": None}
        if rng.random() < 0.35:
            dj = G.gen_json(rng, sd, t, 1, None)
            if not (dj is None and t[1]):
                arg["default"] = [G.internal_of(sd, t, dj)]
        args.append(arg)
        mode = rng.choice(["omit", "lit", "lit", "litvar", "var", "var", "var"])
        wrong = rng.random() < 0.3
        lab = rng.choice(G.WRONG_LABELS + ["user-exception"]) if wrong else None
        plan = G.Plan(rng, lab) if wrong else None
        j = G.gen_json(rng, sd, t, 2, plan)
        planted = wrong and not plan.armed
        if mode == "omit":
            continue
        if mode == "lit":
            parts.append("%s: %s" % (aname, G.lit_text(sd, t, j)))
            if planted:
                label = lab
        elif mode == "litvar":
            pos = [p for p in G.positions(sd, t, j) if p[0] != ()]
            if planted:
                label = lab
            if not pos:
                parts.append("%s: %s" % (aname, G.lit_text(sd, t, j)))
                continue
            path, pt, pj = rng.choice(pos)
            vn = "n%d" % i
            vdefs.append("$%s: %s" % (vn, G.ty_text(pt)))
            parts.append("%s: %s" % (aname, G.lit_text(sd, t, j, {path: "$" + vn})))
            r = rng.random()
            if r < 0.75 or pt[1] or planted:
                raw[vn] = pj
            elif r < 0.85:
                raw[vn] = None
        else:
            vn = "v%d" % i
            vt = t
            r = rng.random()
            vdefault = ""
            if r < 0.2 and not t[1]:
                vt = G.nonnull(t)                      # stricter variable
            elif r < 0.5 and t[1]:
                vt = G.nullable(t)                     # nullable variable with default (row 22)
                dj = G.gen_json(rng, sd, t, 1, None)
                vdefault = " = " + G.lit_text(sd, t, dj)
            elif r < 0.6:
                dj = G.gen_json(rng, sd, vt, 1, None)
                if dj is not None or not vt[1]:
                    vdefault = " = " + G.lit_text(sd, vt, dj)
            vdefs.append("$%s: %s%s" % (vn, G.ty_text(vt), vdefault))
            parts.append("%s: $%s" % (aname, vn))
            r = rng.random()
            if r < 0.7:
                raw[vn] = j
                if planted:
                    label = lab
            elif r < 0.85:
                raw[vn] = None
                if label == "natural" and vt[1]:
                    label = "null-for-nonnull"
    q = "query Q%s { f%s }" % (
        ("(" + ", ".join(vdefs) + ")") if vdefs else "",
        ("(" + ", ".join(parts) + ")") if parts else "")
    if rng.random() < 0.1:
        raw["unusedExtra"] = 1
    case = {"kind": "exec", "schema": sd, "args": args, "query": q, "raw": raw, "label": label}
    if rng.random() < 0.35:
        # the same field a second time in the request, with other (literal) arguments
        parts2 = []
        for a in args:
            if rng.random() < 0.8:
                parts2.append("%s: %s" % (a["name"], G.lit_text(sd, a["type"], G.gen_json(rng, sd, a["type"], 1, None))))
        call2 = ("(" + ", ".join(parts2) + ")") if parts2 else ""
        case["twin"] = call2
    return case


def _abs_case(rng, sd):
    names = ["Int", "Float", "String", "ID", "Boolean", "Any1", "Tag"] + [
        td["name"] for td in sd["types"] if td["kind"] in ("enum", "input")]
    shapes = G.type_shapes(1)

    def default_for(t):
        dj = G.gen_json(rng, sd, t, 1, None)
        if dj is None and t[1]:
            return None
        return [G.internal_of(sd, t, dj)]

    iface_args = []
    for i in range(rng.choice([1, 2, 2, 3])):
        t = rng.choice(shapes)(rng.choice(names))
        a = {"name": rng.choice(["a", "scale", "fmt", "inputValue"]) + str(i), "type": t, "default": None}
        a["py"] = a["name"]
        if rng.random() < 0.5:
            a["default"] = default_for(t)
        iface_args.append(a)
    impls = []
    for k, tn in enumerate(["ThingA", "ThingB", "ThingC"][:rng.choice([2, 2, 3])]):
        args = []
        for a in iface_args:
            c = dict(a)
            r = rng.random()
            if r < 0.45:
                c["default"] = default_for(a["type"])      # its own default
            elif r < 0.6:
                c["default"] = None                        # no default here
            if rng.random() < 0.5:
                c["py"] = "py%d_%s" % (k, a["name"].lower())
            args.append(c)
        for e in range(rng.choice([0, 0, 1, 2])):
            t = G.nullable(rng.choice(shapes)(rng.choice(names)))
            x = {"name": "extra%d%s" % (e, "abc"[k]) if rng.random() < 0.5 else "extra%d" % e,
                 "type": t, "default": None}
            x["py"] = x["name"] if rng.random() < 0.5 else "py_" + x["name"]
            if rng.random() < 0.6:
                x["default"] = default_for(t)
            if any(y["name"] == x["name"] for y in args):
                continue
            args.append(x)
        rng.shuffle(args)
        impls.append({"name": tn, "args": args})
    tnames = [i["name"] for i in impls]
    order = [rng.choice(tnames) for _ in range(rng.randint(2, 5))]
    if len(set(order)) == 1:
        order.append(rng.choice([t for t in tnames if t != order[0]]))
    # the call written at the single field node
    parts, vdefs, raw = [], [], {}
    label = "abstract"
    for i, a in enumerate(iface_args):
        t = a["type"]
        mode = rng.choice(["omit", "omit", "lit", "lit", "var", "var"])
        wrong = rng.random() < 0.15
        lab = rng.choice(G.WRONG_LABELS) if wrong else None
        plan = G.Plan(rng, lab) if wrong else None
        j = G.gen_json(rng, sd, t, 2, plan)
        planted = wrong and not plan.armed
        if mode == "lit":
            parts.append("%s: %s" % (a["name"], G.lit_text(sd, t, j)))
            if planted:
                label = lab
        elif mode == "var":
            vn = "v%d" % i
            vt, vdefault = t, ""
            r = rng.random()
            if r < 0.3 and t[1]:
                vt = G.nullable(t)
                vdefault = " = " + G.lit_text(sd, t, G.gen_json(rng, sd, t, 1, None))
            vdefs.append("$%s: %s%s" % (vn, G.ty_text(vt), vdefault))
            parts.append("%s: $%s" % (a["name"], vn))
            r = rng.random()
            if r < 0.6:
                raw[vn] = j
                if planted:
                    label = lab
            elif r < 0.75:
                raw[vn] = None
    if rng.random() < 0.1:
        # an argument only some concrete types declare, supplied at the shared node
        extras = [x for imp in impls for x in imp["args"] if x["name"].startswith("extra")]
        if extras:
            x = rng.choice(extras)
            parts.append("%s: %s" % (x["name"], G.lit_text(sd, x["type"], G.gen_json(rng, sd, x["type"], 1, None))))
    return {"kind": "abs", "schema": sd, "iface_args": iface_args, "impls": impls,
            "pos": rng.choice(["iface", "union"]), "order": order,
            "vardefs": ("(" + ", ".join(vdefs) + ")") if vdefs else "",
            "call": ("(" + ", ".join(parts) + ")") if parts else "",
            "raw": raw, "label": label}


def _dir_case(rng, sd):
    names = ["Int", "Float", "String", "ID", "Boolean", "Any1", "Tag"] + [
        td["name"] for td in sd["types"] if td["kind"] in ("enum", "input")]
    shapes = G.type_shapes(1)
    cdefs, vdefs, raw, dirs = [], [], {}, []
    label = "directive"
    parts = []
    for i in range(rng.choice([1, 2, 2, 3])):
        t = rng.choice(shapes)(rng.choice(names))
        a = {"name": rng.choice(["a", "limit", "fmt", "inputValue"]) + str(i), "type": t, "default": None}
        a["py"] = a["name"] if rng.random() < 0.4 else "py_" + a["name"].lower()
        if rng.random() < 0.4:
            dj = G.gen_json(rng, sd, t, 1, None)
            if not (dj is None and t[1]):
                a["default"] = [G.internal_of(sd, t, dj)]
        cdefs.append(a)
        mode = rng.choice(["omit", "lit", "lit", "var"])
        wrong = rng.random() < 0.2
        lab = rng.choice(G.WRONG_LABELS) if wrong else None
        plan = G.Plan(rng, lab) if wrong else None
        j = G.gen_json(rng, sd, t, 2, plan)
        planted = wrong and not plan.armed
        if mode == "lit":
            parts.append("%s: %s" % (a["name"], G.lit_text(sd, t, j)))
            if planted:
                label = lab
        elif mode == "var":
            vn = "v%d" % i
            vdefs.append("$%s: %s" % (vn, G.ty_text(t)))
            parts.append("%s: $%s" % (a["name"], vn))
            r = rng.random()
            if r < 0.7:
                raw[vn] = j
                if planted:
                    label = lab
            elif r < 0.8:
                raw[vn] = None
    if rng.random() < 0.8:
        dirs.append("@custom" + (("(" + ", ".join(parts) + ")") if parts else ""))
    else:
        vdefs, raw = [], {}
        if label != "directive":
            label = "directive"

    def cond(dname, k):
        r = rng.random()
        if r < 0.45:
            return "@%s(if: %s)" % (dname, rng.choice(["true", "false"]))
        if r < 0.8:
            vn = "b%d" % k
            kind = rng.choice(["nn", "nn", "nullable", "defaulted"])
            vdefs.append("$%s: %s" % (vn, {"nn": "Boolean!", "nullable": "Boolean",
                                          "defaulted": "Boolean = %s" % rng.choice(["true", "false"])}[kind]))
            rr = rng.random()
            if kind == "nn" or rr < 0.6:
                raw[vn] = rng.choice([True, False])
            elif rr < 0.8:
                raw[vn] = None
            return "@%s(if: $%s)" % (dname, vn)
        return rng.choice(["@%s(if: 1)", "@%s", "@%s(if: null)", '@%s(if: "true")', "@%s(if: [true])"]) % dname

    for k, dname in enumerate(["skip", "include"]):
        if rng.random() < 0.5:
            dirs.append(cond(dname, k))
    if dirs and rng.random() < 0.15:
        # the same directive twice (find_one takes the first); invalid for the
        # validator, observable on unvalidated requests
        d0 = rng.choice(dirs)
        dname = d0[1:].split("(")[0]
        dirs.append("@custom" if dname == "custom" else "@%s(if: %s)" % (dname, rng.choice(["true", "false"])))
    rng.shuffle(dirs)
    return {"kind": "dir", "schema": sd, "cdefs": cdefs,
            "vardefs": ("(" + ", ".join(vdefs) + ")") if vdefs else "",
            "dirs": dirs, "raw": raw, "label": label, "pos": rng.choice(["root", "root", "nested"])}


def _dir_query(case):
    body = "{ f %s other }" % " ".join(case["dirs"])
    if case.get("pos") == "nested":
        body = "{ parent %s }" % body
    return "query Q%s %s" % (case["vardefs"], body)


def _abs_query(case):
    """the one field node g(call), placed on the interface-typed list or
    (through a fragment on the interface) on the union-typed list"""
    body = "{ g%s }" % case["call"]
    if case["pos"] == "iface":
        return "query Q%s { things %s }" % (case["vardefs"], body)
    return "query Q%s { items { ... on Thing %s } }" % (case["vardefs"], body)


_INF = float("inf")
EDGE_NUMBERS = [_INF, -_INF, float("nan"), 1e308, -1e308, -0.0, 1.0, 2 ** 53 + 1, 10 ** 400, -(10 ** 400),
                2.0 ** 31, -2.0 ** 31 - 1, 2147483647.0, 0.5]


def _edge_ok(tname, j):
    """edge numbers outside the float-text domain of the model at that scalar"""
    if isinstance(j, float) and (j != j or abs(j) >= 1e16) and tname == "String":
        return False        # str(float) uses exponent / inf / nan spellings
    if isinstance(j, int) and not isinstance(j, bool) and abs(j) > 2 ** 53 and abs(j) < 2 ** 1023 and tname == "Float":
        return False        # float(int) rounds
    return True


DERIVATIONS = ["visibility", "clone-assign", "camel", "extend"]


def _derive(b, sd, how, hide):
    """a schema derived from b.schema AFTER b.schema has been used"""
    from py_gql.schema.transforms import transform_schema, VisibilitySchemaTransform, CamelCaseSchemaTransform
    from py_gql.sdl import extend_schema
    tname, fname = hide
    if how == "visibility":
        class Hide(VisibilitySchemaTransform):
            def is_input_field_visible(self, typename, fieldname):
                return not (typename == tname and fieldname == fname)
        return transform_schema(b.schema, Hide())
    if how == "clone-assign":
        derived = b.schema.clone()
        t = derived.types[tname]
        t.fields = [f for f in t.fields if f.name != fname]
        return derived
    if how == "camel":
        return transform_schema(b.schema, CamelCaseSchemaTransform())
    return extend_schema(b.schema, "extend input %s { addedLater: Int = 5 }" % tname)


def _warm(b, sd):
    """use every input object type of the source schema once (variable route)"""
    rng = random.Random(7)
    for td in sd["types"]:
        if td["kind"] == "input":
            for _ in range(3):
                j = G.gen_json(rng, sd, G.N(td["name"]), 2, None)
                try:
                    coerce_value(j, b.types[td["name"]])
                except Exception:  # noqa
                    pass
            b.types[td["name"]].field_map  # noqa


def _derived_setup(case):
    """fresh source schema -> warm -> derive; returns (builder, derived schema, its description)"""
    sd = case["source"]
    b = G.Built(sd, case.get("args", ()))
    _warm(b, sd)
    derived = _derive(b, sd, case["derive"]["how"], case["derive"]["hide"])
    return b, derived, G.dump_sd(derived, sd)


def _derived_cases(rng, quick):
    """cases on schemas derived from an already used source schema: the model is
    given the derived schema as dumped from `.fields`"""
    out = []
    src = G.fixed_schema()
    # underscore names so that the camel-case transform has something to rename
    for td in src["types"]:
        if td["name"] == "Point":
            td["fields"].append({"name": "extra_note", "py": "extra_note", "type": G.N("String"), "default": None})
    # (not Point.label: Node.origin's declared default mentions it, the derived
    # schema would carry a default that is no value of its type)
    hides = [["Point", "tags"], ["Point", "extra_note"], ["Node", "color"], ["Node", "next"]]
    for how in DERIVATIONS:
        for hide in hides:
            tname, fname = hide
            if how == "extend" and tname != "Node":
                continue     # Node.origin's default is a Point value: extending Point with a
                #              defaulted field would leave that default non-conforming
            probe = {"kind": "val", "source": src, "derive": {"how": how, "hide": hide},
                     "type": G.N(tname), "json": None, "label": "derived:" + how}
            _b, _d, dsd = _derived_setup(probe)
            camel = {"extra_note": "extraNote"}
            for _ in range(2 if quick else 10):
                j = G.gen_json(rng, dsd, G.N(tname), 2, None) or {}
                variants = [j, dict(j, **{fname: G.gen_json(rng, src, [f["type"] for td in src["types"] if td["name"] == tname
                                                                         for f in td["fields"] if f["name"] == fname][0], 1, None)})]
                if how == "camel":
                    variants.append(dict(j, extra_note="old spelling"))
                    variants.append(dict(j, extraNote="new spelling"))
                if how == "extend":
                    variants.append(dict(j, addedLater=3))
                for v in variants:
                    out.append({"kind": "val", "source": src, "derive": {"how": how, "hide": hide},
                                "schema": dsd, "type": G.N(tname), "json": v, "label": "derived:" + how})
                    out.append({"kind": "exec", "source": src, "derive": {"how": how, "hide": hide},
                                "schema": dsd,
                                "args": [{"name": "p", "py": "p_py", "type": G.N(tname), "default": None}],
                                "query": "query Q($v: %s) { f(p: $v) }" % tname, "raw": {"v": v},
                                "label": "derived:" + how})
                    try:
                        text = G.lit_text(dsd, G.N(tname), v)
                    except TypeError:
                        continue
                    out.append({"kind": "exec", "source": src, "derive": {"how": how, "hide": hide},
                                "schema": dsd,
                                "args": [{"name": "p", "py": "p_py", "type": G.N(tname), "default": None}],
                                "query": "query Q { f(p: %s) }" % text, "raw": {}, "label": "derived:" + how})
    return out


GRID_VALUES = [None, 13, [1, 2, 13], 0, 1, -1, 2 ** 31 - 1, -2 ** 31, 2 ** 31, -2 ** 31 - 1, 1.5, 2.0, True, False,
               "", "abc", "RED", "NOPE", "12", [], [None], [1], [[1]], ["RED"], {}, {"x": 1},
               {"x": None}, {"x": 1, "y": None}, {"x": 1, "zz": 2}, {"value": 1}, [{"x": 2}]]


def _grid(sd, maxdepth):
    names = ["Int", "Float", "String", "ID", "Boolean", "Any1", "Tag", "Odd", "Color", "Point", "Node"]
    for shape in G.type_shapes(maxdepth):
        for n in names:
            t = shape(n)
            for j in GRID_VALUES:
                yield t, j
            for j in EDGE_NUMBERS:
                if _edge_ok(n, j):
                    yield t, j
                    yield t, [j]


def generate(rng, tier):
    quick = tier == "quick"
    cases = []
    fixed = G.fixed_schema()
    schemas = [fixed] + [G.random_schema(rng) for _ in range(3 if quick else 10)]
    shapes3 = G.type_shapes(3)
    for sd in schemas:
        names = ["Int", "Float", "String", "ID", "Boolean"] + [
            td["name"] for td in sd["types"] if td["kind"] != "output"]
        for shape in shapes3:
            for n in names:
                t = shape(n)
                if quick and sd is not fixed and rng.random() < 0.8:
                    continue
                if quick and G.ty_depth(t) == 3 and rng.random() < 0.6:
                    continue
                k = (1, 1) if quick else (3, 3)
                for lab, j in _value_cases(rng, sd, t, *k):
                    cases.append({"kind": "val", "schema": sd, "type": t, "json": j, "label": lab})
                    try:
                        text = G.lit_text(sd, t, j)
                    except TypeError:
                        continue
                    cases.append({"kind": "lit", "schema": sd, "type": t, "lit": text, "vars": {}, "label": lab})
                    if rng.random() < 0.35:
                        text, vs = _with_vars(rng, sd, t, j)
                        cases.append({"kind": "lit", "schema": sd, "type": t, "lit": text, "vars": vs,
                                      "label": lab + "+vars"})
        # literal-only mistakes
        for lab, kk, text in G.LIT_MUTANTS:
            for n in names:
                if G.kind_key(sd, n) != kk:
                    continue
                for shape in G.type_shapes(1):
                    cases.append({"kind": "lit", "schema": sd, "type": shape(n), "lit": text, "vars": {}, "label": lab})
        for _ in range(60 if quick else 600):
            cases.append(_exec_case(rng, sd))
        for _ in range(40 if quick else 400):
            cases.append(_abs_case(rng, sd))
        for _ in range(50 if quick else 500):
            cases.append(_dir_case(rng, sd))
    # value grid over the fixed schema: exhaustive for depth <= 2 in the thorough tier
    grid = list(_grid(fixed, 2))
    if quick:
        grid = rng.sample(grid, 500)
    for t, j in grid:
        cases.append({"kind": "val", "schema": fixed, "type": t, "json": j, "label": "grid"})
        flat = j[0] if isinstance(j, list) and len(j) == 1 else j
        if isinstance(flat, float) and (flat != flat or abs(flat) == _INF):
            continue            # no literal spelling
        if (isinstance(flat, int) and not isinstance(flat, bool) and abs(flat) >= 2 ** 1023
                and G.ty_name(t) in ("Float", "Any1")):
            continue            # a number literal that overflows to inf: outside the decimal-text model
        cases.append({"kind": "lit", "schema": fixed, "type": t, "lit": G.lit_text(fixed, t, j), "vars": {},
                      "label": "grid"})
    # JSON-number edge values at every scalar position, through a request
    for n in ("Int", "Float", "String", "ID", "Boolean", "Any1", "Tag", "Odd"):
        for j in EDGE_NUMBERS:
            if not _edge_ok(n, j) or (quick and rng.random() < 0.5):
                continue
            cases.append({"kind": "exec", "schema": fixed,
                          "args": [{"name": "x", "py": "x_py", "type": G.N(n), "default": None}],
                          "query": "query Q($v: %s) { f(x: $v) }" % n, "raw": {"v": j}, "label": "edge-number"})
    cases.extend(_derived_cases(rng, quick))
    # the two serialisations of the real schema behind some of the requests
    seen = {}
    for c in cases:
        if c["kind"] == "exec" and "derive" not in c and c["args"]:
            key = json.dumps(c["schema"], sort_keys=True)
            if seen.get(key, 0) < (3 if quick else 4):
                seen[key] = seen.get(key, 0) + 1
                cases.append({"kind": "agree", "schema": c["schema"], "args": c["args"], "label": "schema-agree"})
    return cases


# ------------------------------------------------------------ implementation
def _crash(e):
    # exceptions of the harness' raising user scalar are user code bubbling up
    # (ScalarType.parse: "other exceptions bubble up"), named apart
    if isinstance(e, G.OddBoom):
        return {"crash": "user:OddBoom"}
    return {"crash": type(e).__name__, "msg": str(e)[:200]}


def _exc(e):
    if isinstance(e, G.OddBoom):
        return _crash(e)
    if isinstance(e, VariablesCoercionError):
        return {"rej": 3, "type": type(e).__name__}
    if isinstance(e, CoercionError):
        return {"rej": 1, "type": type(e).__name__}
    if isinstance(e, InvalidValue):
        return {"rej": 2, "type": type(e).__name__}
    return {"crash": type(e).__name__, "msg": str(e)[:200]}


def _call(f):
    try:
        v = f()
    except Exception as e:  # noqa
        return _exc(e)
    try:
        json.dumps(v)
    except (TypeError, ValueError):
        return {"crash": "not-json-able", "msg": repr(v)[:200]}
    return {"ok": v}


def _run_request(b, query, raw, **kw):
    del b.calls[:]
    try:
        res = graphql_blocking(b.schema, query, variables=raw, **kw)
    except Exception as e:  # noqa
        return _crash(e)
    errs = list(res.errors or [])
    if errs and all(isinstance(e, ValidationError) for e in errs):
        return {"validation": len(errs), "called": len(b.calls)}
    if b.calls:
        if len(b.calls) != 1 or errs:
            return {"crash": "resolver-called-%d-times-errors-%d" % (len(b.calls), len(errs))}
        return {"ok": dict(b.calls[0])}
    if errs and all(isinstance(e, VariableCoercionError) for e in errs):
        return {"rej": 3, "n": len(errs)}
    if len(errs) == 1 and isinstance(errs[0], CoercionError):
        return {"rej": 1}
    return {"crash": "unexpected-result", "msg": str([type(e).__name__ for e in errs])[:200]}


def _abs_node(case, doc):
    sels = doc.definitions[0].selection_set.selections[0].selection_set.selections
    node = sels[0]
    if case["pos"] == "union":
        node = node.selection_set.selections[0]
    return node


def _abs_request(b, case, doc, **kw):
    """-> {"items": [per returned object: {"ok": kwargs} | {"rej": 1}]} or a
    request-level outcome"""
    del b.calls[:]
    b.order = case["order"]
    field = "things" if case["pos"] == "iface" else "items"
    try:
        res = graphql_blocking(b.schema, doc, variables=case["raw"], **kw)
    except Exception as e:  # noqa
        return {"crash": type(e).__name__, "msg": str(e)[:200]}
    errs = list(res.errors or [])
    if errs and all(isinstance(e, ValidationError) for e in errs):
        return {"validation": len(errs), "called": len(b.calls)}
    if errs and all(isinstance(e, VariableCoercionError) for e in errs):
        return {"rej": 3, "called": len(b.calls)}
    got = {}
    for idx, kw_ in b.calls:
        if idx in got:
            return {"crash": "resolver-called-twice-for-one-object"}
        got[idx] = dict(kw_)
    failed = {}
    for e in errs:
        path = list(getattr(e, "path", None) or [])
        if isinstance(e, CoercionError) and len(path) == 3 and path[0] == field and path[2] == "g":
            failed[path[1]] = 1
        else:
            return {"crash": "unexpected-error", "msg": ("%s %s" % (type(e).__name__, e))[:200]}
    items = []
    for i in range(len(case["order"])):
        if i in got and i not in failed:
            items.append({"ok": got[i]})
        elif i in failed and i not in got:
            items.append({"rej": 1})
        else:
            return {"crash": "object-%d-neither-resolved-nor-rejected-once" % i}
    return {"items": items}


def _dir_request(b, doc, raw, nested=False, **kw):
    del b.calls[:]
    del b.others[:]
    try:
        res = graphql_blocking(b.schema, doc, variables=raw, **kw)
    except Exception as e:  # noqa
        # nothing may escape the entry point, a CoercionError from
        # _skip_selection included (fix C10-05)
        return {"crash": "raised:" + type(e).__name__, "msg": str(e)[:200]}
    errs = list(res.errors or [])
    if errs and all(isinstance(e, ValidationError) for e in errs):
        return {"validation": len(errs), "called": len(b.calls) + len(b.others)}
    if errs and all(isinstance(e, VariableCoercionError) for e in errs):
        return {"rej": 3, "called": len(b.calls) + len(b.others)}
    data = res.data
    sel = data.get("parent") if (nested and data is not None) else data
    if len(b.calls) > 1:
        return {"crash": "resolver-called-%d-times" % len(b.calls)}
    if not b.calls:
        if not errs:
            if sel is None or "f" in sel or sel.get("other") != 2:
                return {"crash": "unexpected-result", "msg": str(data)[:200]}
            return {"skip": {"ok": True}}
        # invalid @skip / @include arguments: the selection set is rejected as a
        # whole before any of its resolvers runs -- root: data None; nested:
        # the enclosing field is null with the one error at its path
        if len(errs) == 1 and isinstance(errs[0], CoercionError):
            path = list(getattr(errs[0], "path", None) or [])
            shape_ok = ((data == {"parent": None} and path == ["parent"]) if nested
                        else (data is None and path == []))
            if not shape_ok:
                return {"crash": "rejection-misreported", "msg": ("data=%r path=%r" % (data, path))[:200]}
            return {"skip": {"rej": 1}, "called": len(b.others)}
        return {"crash": "unexpected-result", "msg": str([type(e).__name__ for e in errs])[:200]}
    tag, val = b.calls[0]
    if tag == "ok":
        if errs or sel is None or sel.get("f") != 1:
            return {"crash": "unexpected-errors", "msg": str([type(e).__name__ for e in errs])[:200]}
        try:
            json.dumps(val)
        except (TypeError, ValueError):
            return {"crash": "not-json-able"}
        return {"skip": {"ok": False}, "custom": {"ok": val}}
    if isinstance(val, CoercionError) and len(errs) == 1 and isinstance(errs[0], CoercionError):
        return {"skip": {"ok": False}, "custom": {"rej": 1}}
    return {"crash": type(val).__name__, "msg": str(val)[:200]}


def _run_sdl(b, text):
    got = []

    class Custom(SchemaDirective):
        definition = b.custom

        def __init__(self, args=None):
            got.append(args)

    try:
        build_schema("type Query %s { f: Int }" % text, schema_directives=[Custom])
    except Exception as e:  # noqa
        return _exc(e)
    if len(got) != 1:
        return {"crash": "schema-directive-applied-%d-times" % len(got)}
    return {"ok": got[0]}


def _run_dir(case):
    b = _built_dir(case)
    doc = parse(_dir_query(case))
    op = doc.definitions[0]
    obs = {"vars": _call(lambda: coerce_variable_values(b.schema, op, case["raw"]))}
    nested = case.get("pos") == "nested"
    obs["exec"] = _dir_request(b, doc, case["raw"], nested, validators=[])
    obs["validated"] = _dir_request(b, doc, case["raw"], nested)
    custom = [d for d in case["dirs"] if d.startswith("@custom")]
    if custom and "$" not in custom[0]:
        obs["sdl"] = _run_sdl(b, custom[0])
    return obs


def _run_abs(case):
    b = _built_abs(case)
    doc = parse(_abs_query(case))
    op = doc.definitions[0]
    node = _abs_node(case, doc)
    obs = {"vars": _call(lambda: coerce_variable_values(b.schema, op, case["raw"]))}
    if "ok" in obs["vars"]:
        coerced = obs["vars"]["ok"]
        obs["api"] = {imp["name"]: _call(lambda: coerce_argument_values(b.fields[imp["name"]], node, coerced))
                      for imp in case["impls"]}
    obs["exec"] = _abs_request(b, case, doc, validators=[])
    obs["validated"] = _abs_request(b, case, doc)
    return obs


def _run_derived(case):
    b, derived, dsd = _derived_setup(case)
    if json.dumps(dsd, sort_keys=True) != json.dumps(case["schema"], sort_keys=True):
        return {"harness_error": "derived schema description changed"}
    t = case.get("type")
    if case["kind"] == "val":
        ty = derived.types[t[2]]
        return {"r": _call(lambda: coerce_value(case["json"], ty))}
    b.schema = derived
    b.field = derived.query_type.field_map["f"]
    doc = parse(case["query"])
    op = doc.definitions[0]
    node = op.selection_set.selections[0]
    obs = {"vars": _call(lambda: coerce_variable_values(derived, op, case["raw"]))}
    if "ok" in obs["vars"]:
        coerced = obs["vars"]["ok"]
        obs["args"] = _call(lambda: coerce_argument_values(b.field, node, coerced))
    obs["exec"] = _run_request(b, doc, case["raw"], validators=[])
    obs["validated"] = _run_request(b, doc, case["raw"])
    return obs


def run_impl(case):
    k = case["kind"]
    sd = case["schema"]
    if "derive" in case:
        return _run_derived(case)
    if k == "agree":
        from .. import ser_valid
        b = _built(sd, case["args"])
        return {"vschema": ser_valid.cschema(b.schema)}
    if k == "val":
        b = _built(sd)
        return {"r": _call(lambda: coerce_value(case["json"], b.ty(case["type"])))}
    if k == "lit":
        b = _built(sd)
        node = parse_value(case["lit"])
        return {"r": _call(lambda: value_from_ast(node, b.ty(case["type"]), case["vars"]))}
    if k == "abs":
        return _run_abs(case)
    if k == "dir":
        return _run_dir(case)
    b = _built(sd, case["args"])
    doc = parse(case["query"])
    op = doc.definitions[0]
    node = op.selection_set.selections[0]
    obs = {"vars": _call(lambda: coerce_variable_values(b.schema, op, case["raw"]))}
    if "ok" in obs["vars"]:
        coerced = obs["vars"]["ok"]
        obs["args"] = _call(lambda: coerce_argument_values(b.field, node, coerced))
    obs["exec"] = _run_request(b, doc, case["raw"], validators=[])
    obs["validated"] = _run_request(b, doc, case["raw"])
    if "twin" in case:
        single = _run_request(b, "{ f%s }" % case["twin"], {}, validators=[])
        both = case["query"].rstrip()[:-1] + " tw: f%s }" % case["twin"]
        del b.calls[:]
        try:
            graphql_blocking(b.schema, both, variables=case["raw"], validators=[])
            calls = [dict(c) for c in b.calls]
        except Exception as e:  # noqa
            calls = "crash:" + type(e).__name__
        obs["twin"] = {"single": single, "calls": calls}
    return obs


# ---------------------------------------------------------------- to Coq
def _cobs(o):
    if "ok" in o:
        return "(OOk %s)" % G.cpv(o["ok"])
    if "rej" in o:
        return "(ORej %d)" % o["rej"]
    return "OCrash"


def _input_term(case):
    sref = _schema_ref(case["schema"])
    k = case["kind"]
    if k == "val":
        return "CaseVal %s %s %s" % (sref, G.city(case["type"]), G.cjson(case["json"]))
    if k == "lit":
        node = parse_value(case["lit"])
        vs = ser.clist(list(case["vars"].items()), lambda kv: "(%s, %s)" % (ser.cstr(kv[0]), G.cpv(kv[1])))
        return "CaseLit %s %s %s %s" % (sref, G.city(case["type"]), ser.cvalue(node), vs)
    doc = parse(case["query"])
    op = doc.definitions[0]
    node = op.selection_set.selections[0]
    raw = ser.clist(list(case["raw"].items()), lambda kv: "(%s, %s)" % (ser.cstr(kv[0]), G.cjson(kv[1])))
    return "CaseExec %s %s %s %s %s" % (
        sref, ser.clist(case["args"], G.cfield), ser.clist(op.variable_definitions, ser.cvardef),
        ser.clist(node.arguments, ser.carg), raw)


def _abs_term(case, obs):
    doc = parse(_abs_query(case))
    op = doc.definitions[0]
    node = _abs_node(case, doc)
    raw = ser.clist(list(case["raw"].items()), lambda kv: "(%s, %s)" % (ser.cstr(kv[0]), G.cjson(kv[1])))
    defs = {imp["name"]: ser.clist(imp["args"], G.cfield) for imp in case["impls"]}
    ex = obs["exec"]
    if "items" in ex:
        items = ser.clist(list(zip(case["order"], ex["items"])),
                          lambda p: "(%s, %s)" % (defs[p[0]], _cobs(p[1])))
    elif ex.get("rej") == 3 and not ex.get("called"):
        items = "[]"
    else:
        # request-level crash: make the comparison fail visibly
        items = "[(%s, OCrash)]" % defs[case["order"][0]]
    return "(CaseAbs %s %s %s %s %s %s)" % (
        _schema_ref(case["schema"]), ser.clist(op.variable_definitions, ser.cvardef),
        ser.clist(node.arguments, ser.carg), raw, _cobs(obs["vars"]), items)


def _dir_term(case, obs):
    doc = parse(_dir_query(case))
    op = doc.definitions[0]
    node = op.selection_set.selections[0]
    if case.get("pos") == "nested":
        node = node.selection_set.selections[0]
    raw = ser.clist(list(case["raw"].items()), lambda kv: "(%s, %s)" % (ser.cstr(kv[0]), G.cjson(kv[1])))
    ex = obs["exec"]
    if "skip" in ex:
        sk = ex["skip"]
        oskip = "(Some %s)" % ("(OOk (PBool %s))" % ser.cbool(sk["ok"]) if "ok" in sk else "(ORej 1)")
        ocustom = ("(Some %s)" % _cobs(ex["custom"])) if "custom" in ex else "None"
    elif ex.get("rej") == 3 and not ex.get("called"):
        oskip, ocustom = "None", "None"
    else:
        oskip, ocustom = "(Some OCrash)", "None"
    osdl = ("(Some %s)" % _cobs(obs["sdl"])) if "sdl" in obs else "None"
    return "(CaseDir %s %s %s %s %s %s %s %s %s)" % (
        _schema_ref(case["schema"]), ser.clist(case["cdefs"], G.cfield),
        ser.clist(op.variable_definitions, ser.cvardef), ser.cdirs(node.directives), raw,
        _cobs(obs["vars"]), oskip, ocustom, osdl)


def to_coq(case, obs):
    if case["kind"] == "agree":
        return "(CaseAgree %s %s %s)" % (_schema_ref(case["schema"]), ser.clist(case["args"], G.cfield),
                                         _vschema_ref(obs["vschema"]))
    if case["kind"] == "dir":
        return _dir_term(case, obs)
    if case["kind"] == "abs":
        return _abs_term(case, obs)
    if case["kind"] in ("val", "lit"):
        return "(%s %s)" % (_input_term(case), _cobs(obs["r"]))
    return "(%s %s %s %s)" % (
        _input_term(case), _cobs(obs["vars"]),
        ("(Some %s)" % _cobs(obs["args"])) if "args" in obs else "None", _cobs(obs["exec"]))


def show_expr(case, obs):
    t = to_coq(case, obs)
    if case["kind"] == "abs":
        return "(model_C07_items %s, agree_model_C07 %s, spec_check_C07 %s)" % (t, t, t)
    return "(model_C07 %s, agree_model_C07 %s, spec_check_C07 %s)" % (t, t, t)


# -------------------------------------------------------------- verdicts
_KF = {"numeric-string-for-number", "number-for-string"}


def nontrivial(case, obs):
    if case["kind"] == "agree":
        return True
    if case["kind"] == "dir":
        return bool(case["dirs"])
    if case["kind"] == "abs":
        # one node really resolved against at least two different definitions
        ex = obs.get("exec", {})
        return "items" in ex and len(set(case["order"])) >= 2
    if case["kind"] == "exec":
        return bool(case["args"])
    t = case["type"]
    return (t[0] == "L" or t[1] or G.kind_of(case["schema"], t[2]) != "scalar"
            or case.get("label") not in ("natural", "grid"))


def canonical(case):
    return json.dumps({k: v for k, v in case.items() if k != "label"}, sort_keys=True)


def classify(case, obs):
    lab = case.get("label", "")
    if case["kind"] == "val":
        return "variable-route:" + lab, None
    if case["kind"] == "lit":
        return "literal-route:" + lab, None
    if case["kind"] == "agree":
        return "two-schema-serialisations-agree", None
    if case["kind"] == "abs":
        return "resolver-kwargs-per-concrete-type:" + lab, None
    if case["kind"] == "dir":
        return "directive-arguments:" + lab, None
    return "resolver-kwargs:" + lab, None


_MUST_REJECT = {"null-for-nonnull", "missing-required", "unknown-field", "unknown-enum", "wrong-kind",
                "int-out-of-range"}


def _abs_checks(case, obs):
    out = []
    ex, va = obs["exec"], obs["validated"]
    for name in ("vars", "exec", "validated"):
        if "crash" in obs[name]:
            out.append(("raises-only-documented-errors (%s): %s" % (name, obs[name]["crash"]), None))
    for tn, r in obs.get("api", {}).items():
        if "crash" in r:
            out.append(("raises-only-documented-errors (coerce_argument_values %s): %s" % (tn, r["crash"]), None))
    if "items" in ex and "api" in obs:
        # what each object's resolver got = coerce_argument_values for ITS type's field definition
        for i, (tn, it) in enumerate(zip(case["order"], ex["items"])):
            api = obs["api"][tn]
            if ("ok" in it) != ("ok" in api) or it.get("ok") != api.get("ok"):
                out.append(("each-concrete-type-gets-arguments-of-its-own-definition (object %d: %s)" % (i, tn), None))
                break
    if "validation" in va:
        if va["called"]:
            out.append(("rejected-before-any-resolver-runs", None))
    elif va != ex:
        out.append(("validated-and-unvalidated-requests-give-same-kwargs", None))
    if ex.get("rej") == 3 and ex.get("called"):
        out.append(("rejected-before-any-resolver-runs", None))
    if case.get("label") in _MUST_REJECT and "items" in va and any("ok" in it for it in va["items"]):
        out.append(("structurally-wrong-rejected:" + case["label"], None))
    if case.get("label") in _KF and "items" in va and any("ok" in it for it in va["items"]):
        out.append(("structurally-wrong-rejected:" + case["label"], case["label"]))
    return out


def _dir_checks(case, obs):
    out = []
    ex, va = obs["exec"], obs["validated"]
    for name in ("vars", "exec", "validated", "sdl"):
        if name in obs and "crash" in obs[name]:
            out.append(("raises-only-documented-errors (%s): %s" % (name, obs[name]["crash"]), None))
    if "validation" in va:
        if va["called"]:
            out.append(("rejected-before-any-resolver-runs", None))
    elif va != ex:
        out.append(("validated-and-unvalidated-requests-give-same-directive-arguments", None))
    for r in (ex, va):
        if "rej" in r.get("skip", {}) and r.get("called"):
            out.append(("rejected-before-any-resolver-of-the-selection-runs", None))
    # the same application as a schema directive gives the same arguments
    if "sdl" in obs and "custom" in ex and "crash" not in obs["sdl"]:
        a, b = obs["sdl"], ex["custom"]
        if ("ok" in a) != ("ok" in b) or a.get("ok") != b.get("ok"):
            out.append(("schema-directive-and-query-directive-arguments-agree", None))
    if case.get("label") in _MUST_REJECT and "ok" in va.get("custom", {}):
        out.append(("structurally-wrong-rejected:" + case["label"], None))
    if case.get("label") in _KF and "ok" in va.get("custom", {}):
        out.append(("structurally-wrong-rejected:" + case["label"], case["label"]))
    return out


def _js(v):
    return json.dumps(v, sort_keys=True)     # nan-safe comparison


def _is_violation_crash(case, r):
    """any exception other than the documented families is a violation, except
    the arbitrary exception of the raising user scalar where it was planted"""
    c = str(r.get("crash", ""))
    if not c:
        return False
    if c.startswith("user:"):
        return not _has_unlucky(case)
    return True


def _has_unlucky(case):
    """the value on which the raising user scalar raises occurs in the inputs"""
    return "13" in json.dumps([case.get(k) for k in ("json", "lit", "query", "raw", "vars")])


def direct_checks(case, obs):
    out = []
    if case["kind"] == "agree":
        return out
    if case["kind"] == "dir":
        return _dir_checks(case, obs)
    if case["kind"] == "abs":
        return _abs_checks(case, obs)
    if case["kind"] != "exec":
        r = obs["r"]
        if _is_violation_crash(case, r):
            out.append(("raises-only-documented-errors: %s" % r["crash"], None))
        # the two leniencies pinned by the test-suite (open findings): a value of
        # the wrong JSON kind is accepted -- exactly when the planted mistake is
        # of that class and the implementation accepted the value
        if case["kind"] == "val" and case.get("label") in _KF and "ok" in r:
            out.append(("structurally-wrong-rejected:" + case["label"], case["label"]))
        return out
    ex, va = obs["exec"], obs["validated"]
    for name in ("vars", "args", "exec", "validated"):
        if name in obs and _is_violation_crash(case, obs[name]):
            out.append(("raises-only-documented-errors (%s): %s" % (name, obs[name]["crash"]), None))
    if "validation" in va:
        if va["called"]:
            out.append(("rejected-before-any-resolver-runs", None))
    elif str(va.get("crash", "")).startswith("user:") and "ok" not in ex and _has_unlucky(case):
        # the validator ran the raising user scalar on a literal that execution
        # never reached (another argument was refused first): no kwargs either way
        pass
    elif (("ok" in va) != ("ok" in ex) or _js(va.get("ok")) != _js(ex.get("ok"))
          or va.get("rej") != ex.get("rej")):
        out.append(("validated-and-unvalidated-requests-give-same-kwargs", None))
    tw = obs.get("twin")
    if tw is not None and "ok" in ex and "ok" in tw["single"]:
        # every field node gets the arguments written at that node
        if _js(tw["calls"]) != _js([ex["ok"], tw["single"]["ok"]]):
            out.append(("each-field-node-gets-its-own-arguments", None))
    if case.get("label") in _MUST_REJECT and "ok" in va:
        out.append(("structurally-wrong-rejected:" + case["label"], None))
    if case.get("label") in _KF and "ok" in va:
        out.append(("structurally-wrong-rejected:" + case["label"], case["label"]))
    return out


def shrink(case, is_bad):
    if case["kind"] != "val":
        return case
    # structural shrinking of the JSON value
    cur = case
    changed = True
    while changed:
        changed = False
        for cand in _smaller(cur["json"]):
            c2 = dict(cur, json=cand)
            if is_bad(c2):
                cur, changed = c2, True
                break
    return cur


def _smaller(j):
    if isinstance(j, list):
        for i in range(len(j)):
            yield j[:i] + j[i + 1:]
        for i, x in enumerate(j):
            for y in _smaller(x):
                yield j[:i] + [y] + j[i + 1:]
    elif isinstance(j, dict):
        for k in j:
            yield {a: b for a, b in j.items() if a != k}
        for k, x in j.items():
            for y in _smaller(x):
                yield dict(j, **{k: y})


def extra_evidence(cases, obss):
    kinds, labels, outcomes = {}, {}, {}
    for c, o in zip(cases, obss):
        kinds[c["kind"]] = kinds.get(c["kind"], 0) + 1
        lab = c.get("label", "?").split("+")[0]
        labels[lab] = labels.get(lab, 0) + 1
        if c["kind"] == "agree":
            continue
        r = o.get("r") or o.get("exec")
        if c["kind"] == "abs":
            r = {"ok": 1} if "items" in r else r
        if c["kind"] == "dir":
            r = r["skip"] if "skip" in r else r
        key = c["kind"] + ":" + ("ok" if "ok" in r else "rej%s" % r["rej"] if "rej" in r else "crash")
        outcomes[key] = outcomes.get(key, 0) + 1
    types = {json.dumps(c["type"]) for c in cases if "type" in c}
    return {"distribution": {
        "by_kind": kinds, "by_label": labels, "outcomes": outcomes,
        "distinct_type_expressions": len(types),
        "max_type_depth": max([G.ty_depth(c["type"]) for c in cases if "type" in c] or [0]),
        "requests_rejected_by_validation": sum(1 for o in obss if "validation" in o.get("validated", {})),
        "requests_reaching_resolver": sum(1 for o in obss if "ok" in o.get("exec", {})),
        "schemas": len({json.dumps(c["schema"], sort_keys=True) for c in cases}),
        "abstract_requests": _abs_stats(cases, obss),
        "directive_requests": _dir_stats(cases, obss),
    }}


def _dir_stats(cases, obss):
    st = {"requests": 0, "with_custom": 0, "with_skip_or_include": 0, "field_skipped": 0,
          "field_resolved": 0, "custom_args_ok": 0, "custom_absent_none": 0, "custom_rejected": 0,
          "skip_include_rejected_in_result": 0, "nested_position": 0, "rejected_although_validated": 0,
          "raised_although_validated": 0, "raised_unvalidated": 0,
          "schema_directive_applications": 0, "rejected_by_validation": 0}
    for c, o in zip(cases, obss):
        if c["kind"] != "dir":
            continue
        st["requests"] += 1
        st["with_custom"] += any(d.startswith("@custom") for d in c["dirs"])
        st["with_skip_or_include"] += any(not d.startswith("@custom") for d in c["dirs"])
        ex = o.get("exec", {})
        sk = ex.get("skip", {})
        st["field_skipped"] += sk.get("ok") is True
        st["field_resolved"] += sk.get("ok") is False
        cu = ex.get("custom", {})
        st["custom_args_ok"] += "ok" in cu and cu["ok"] is not None
        st["custom_absent_none"] += "ok" in cu and cu["ok"] is None
        st["custom_rejected"] += "rej" in cu
        st["skip_include_rejected_in_result"] += "rej" in sk
        st["nested_position"] += c.get("pos") == "nested"
        st["rejected_although_validated"] += "rej" in o.get("validated", {}).get("skip", {})
        st["raised_although_validated"] += str(o.get("validated", {}).get("crash", "")).startswith("raised:")
        st["raised_unvalidated"] += str(ex.get("crash", "")).startswith("raised:")
        st["schema_directive_applications"] += "sdl" in o
        st["rejected_by_validation"] += "validation" in o.get("validated", {})
    return st


def _abs_stats(cases, obss):
    st = {"requests": 0, "on_interface": 0, "on_union_fragment": 0, "objects_resolved": 0,
          "objects_rejected": 0, "node_resolved_against_2plus_definitions": 0,
          "with_literal_args": 0, "with_variable_args": 0, "without_args": 0,
          "kwargs_differ_between_concrete_types": 0}
    for c, o in zip(cases, obss):
        if c["kind"] != "abs":
            continue
        st["requests"] += 1
        st["on_interface" if c["pos"] == "iface" else "on_union_fragment"] += 1
        call = c["call"]
        if "$" in call:
            st["with_variable_args"] += 1
        elif "(" in call:
            st["with_literal_args"] += 1
        else:
            st["without_args"] += 1
        ex = o.get("exec", {})
        if "items" in ex:
            oks = [(tn, it["ok"]) for tn, it in zip(c["order"], ex["items"]) if "ok" in it]
            st["objects_resolved"] += len(oks)
            st["objects_rejected"] += len(ex["items"]) - len(oks)
            if len({tn for tn, _ in oks}) >= 2:
                st["node_resolved_against_2plus_definitions"] += 1
                if len({json.dumps(kw, sort_keys=True) for _, kw in oks}) >= 2:
                    st["kwargs_differ_between_concrete_types"] += 1
    return st
