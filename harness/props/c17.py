# -*- coding: utf-8 -*-
"""C17 -- subscriptions map each source event to one isolated result, in order."""
import asyncio
import itertools
import json

from py_gql.exc import CoercionError, ExecutionError, VariablesCoercionError
from py_gql.execution import execute, subscribe
from py_gql.execution.runtime import AsyncIORuntime, BlockingRuntime, ThreadPoolRuntime
from py_gql.lang import parse

from .. import gen_subscriptions as G
from .. import ser
from ..ser_json import cjson

PROP = "C17"
THEOREMS = ["C17_length_order", "C17_history", "C17_isolation", "C17_isolation_with_aborts", "C17_ends",
            "C17_sequential_pull", "C17_refusals", "C17_subscribe_exec", "C17_history_exec",
            "C17_isolation_exec", "C17_tables_stay_sound"]
AXIOMS_OK = []
RUN_MODULE = "Run.C17run Exec.ResponseModel Exec.SubscribeModel"
AGREE = "agree_C17"
CASE_TYPE = "case_C17"
SHARD = 40
LEVEL_NOTE = ("Theorems are about the Gallina model Exec/SubscribeModel.v of execution/subscribe.py, "
              "AsyncMap/map_stream and the executor's shared error list, for every per-event execution function "
              "under the stated cache invariant (section hypotheses, discharged premises of each theorem); the "
              "model is tied to /repo by running real subscriptions on a private asyncio loop on every run and "
              "comparing per-event responses with the same selection executed as a plain query on a fresh executor. "
              "Concurrent __anext__ calls on one stream are outside the model.")
RULE = ("payloads of abstract type (interface, union, list of interface) with consecutive events of different concrete types and "
        "resolvers that read ResolveInfo into their result; source streams whose only contract is async iteration (classes defining __len__, __bool__, __eq__, __hash__ = None, "
        "__getattr__ with unhelpful answers; prefilled and late-filled; 0-8 events); events whose execution aborts with a non-field exception before / after field errors were registered (also "
        "inside list items) with a consumer that keeps reading; event payloads from a family (dicts carrying their failures, None, 0, '', False, True, [], {}, unrelated dicts, "
        "plain objects) at every position incl. several payload-less events in a row, under root fields that read the "
        "event by key, echo it, or ignore it; event lists of length 0-8 whose per-event failures (non-null violations, resolver errors with/without "
        "extensions, null list items, null root field) are carried by the event payload; 10 selections (aliases, "
        "fragments, arguments, variables, directives); sources: async generator function, plain function returning "
        "an async iterator, coroutine returning one; sync and async field resolvers; sleep(0) delays before "
        "events, in resolvers and in the consumer; 19 refusal requests incl. combined conditions; non-trivial = "
        "stream with >= 2 events of which >= 1 failing, or a refusal; distinct = distinct canonical case")


def corpus():
    out = []
    # the alternating-error shape of the existing test, and leak witnesses for clear_errors
    out.append(_stream(["v_raise", "ok", "v_raise", "ok"], 1, "agen", "sync", [0, 0, 0, 0], 0))
    out.append(_stream(["many", "ok", "ok"], 2, "sync", "async", [1, 0, 2], 1))
    out.append(_stream(["n_null", "n_null", "ok", "sub_null"], 0, "async", "sync", [0, 1, 0, 1], 0))
    out.append(_stream([], 0, "agen", "sync", [], 0))
    out.append(_stream(["ok"], 3, "sync", "sync", [0], 0))
    # payload-less / falsy events are events: one result each, the stream goes on (seeded C17-b)
    out.append(_stream(["ok", "raw_none", "ok"], 1, "agen", "sync", [0, 0, 0], 0))
    out.append(_stream(["raw_none"], G.SEL_ECHO, "sync", "sync", [0], 0))
    out.append(_stream(["raw_none", "raw_none", "raw_zero", "raw_none"], G.SEL_TICK, "async", "async", [0, 1, 0, 0], 1))
    out.append(_stream(["raw_zero", "raw_empty_str", "raw_false", "raw_empty_list", "raw_empty_dict", "raw_obj", "raw_none"],
                       G.SEL_ECHO, "agen", "async", [0] * 7, 0))
    # an event that registers field errors and is then aborted by a non-field exception, followed by
    # events that complete: their results must not carry the aborted event's errors (seeded C17-c)
    out.append(_stream(["v_raise_crash_f", "ok"], G.SEL_ERR_THEN_ABORT, "agen", "sync", [0, 0], 0))
    out.append(_stream(["ok", "many_crash_f", "v_raise", "ok"], G.SEL_ERR_THEN_ABORT, "sync", "sync", [0, 1, 0, 0], 1))
    out.append(_stream(["v_raise_crash_n", "v_raise_crash_n", "ok"], G.SEL_ERR_THEN_ABORT, "async", "async", [0, 0, 1], 0))
    out.append(_stream(["lo_null_then_crash", "ok", "lo_item"], G.SEL_ABORT_IN_LIST, "agen", "async", [0, 0, 0], 0))
    out.append(_stream(["crash_f", "v_raise"], G.SEL_ABORT_FIRST, "sync", "sync", [0, 0], 0))
    out.append(_stream(["l_crash"], G.SEL_ABORT_IN_LIST, "async", "sync", [0], 0))
    # source streams that are falsy / unhashable / equal to everything when the resolver returns them (seeded C17-d)
    out.append(_stream([], 1, "chan_sync", "sync", [], 0, ["len"], "pre"))
    out.append(_stream(["ok", "v_raise"], 1, "chan_sync", "sync", [0, 0], 0, ["len", "bool_empty"], "late"))
    out.append(_stream(["ok"], 2, "chan_async", "async", [1], 1, ["bool_false", "eq_true", "nohash", "getattr_none"], "pre"))
    out.append(_stream(["n_null", "ok", "raw_none"], 1, "chan_async", "sync", [0, 1, 0], 0, ["len"], "late"))
    # abstract payloads with consecutive events of different concrete types at the same path, resolvers that
    # read `info` (seeded C17-i: a ResolveInfo cached per path on the executor shared by all events)
    out.append(_stream(["created", "deleted"], G.SEL_CHANGE, "agen", "sync", [0, 0], 0))
    out.append(_stream(["deleted", "created", "created", "deleted"], G.SEL_ANYCHANGE, "sync", "async", [0, 1, 0, 0], 1))
    out.append(_stream(["created", "deleted", "created_bad", "change_null", "deleted"], G.SEL_CHANGES, "async", "sync",
                       [0, 0, 0, 0, 0], 0))
    out.append(_stream(["deleted", "created"], G.SEL_CHANGE, "chan_async", "async", [0, 0], 0, ["len"], "late"))
    # the same with payloads nobody keeps alive (seeded C17-j)
    pat = ["created", "deleted", "deleted", "created", "created", "deleted", "created", "created", "deleted", "deleted",
           "created", "deleted", "created_bad", "deleted", "created"]
    for sel in (G.SEL_CHANGE, G.SEL_ANYCHANGE, G.SEL_CHANGES):
        for fl in ("sync", "async"):
            out.append(dict(_stream(pat, sel, "agen", fl, [0] * len(pat), 0), ephemeral=True))
    # histories: a consumer that stops after 1 of 3 events (nothing read ahead) / keeps calling after the end
    out.append(_history(["ok", "v_raise", "ok"], 1, 1, "sync", "sync", [0, 0, 0], 0))
    out.append(_history(["ok", "v_raise"], 5, 1, "agen", "async", [0, 1], 1))
    for r in G.REFUSALS:
        out.append(_refusal(r))
    # one ObjectType as query, mutation and subscription root (seed C17-e): query / mutation operations are
    # still refused, variables are still coerced first, and subscriptions still stream
    # invalid @skip/@include arguments on the root selection set: CoercionError of collect_fields, after the
    # operation-kind and runtime checks, before the subscription resolver is called
    for r in G.DIRECTIVE_ARGUMENT_REFUSALS:
        c = _refusal(r)
        c["collect_ok"] = False
        out.append(c)
    for r in G.SHARED_ROOT_REFUSALS:
        out.append(_refusal(r, shared=True))
    c = _stream(["ok", "v_raise", "n_null"], 1, "agen", "sync", [0, 0, 0], 0)
    c["schema"] = "shared"
    out.append(c)
    c = _stream(["ok", "raw_none"], G.SEL_ECHO, "sync", "async", [0, 1], 1)
    c["schema"] = "shared"
    out.append(c)
    return out


def _stream(variants, sel, source, flavour, delays, consumer_delay, traits=None, fill=None):
    c = {"kind": "stream", "variants": variants, "selection": sel, "source": source,
         "flavour": flavour, "delays": delays, "consumer_delay": consumer_delay}
    if traits is not None:
        c["traits"], c["fill"] = traits, fill
    return c


def _refusal(r, shared=False):
    label, text, runtime, opname, variables, facts = r
    c = {"kind": "refusal", "label": label, "text": text, "runtime": runtime,
         "operation_name": opname, "variables": variables, "facts": list(facts)}
    if shared:
        c["schema"] = "shared"
    return c


def generate(rng, tier):
    quick = tier == "quick"
    cases = []
    sources = ["agen", "sync", "async"]
    for i in range(120 if quick else 1200):
        n = rng.randint(0, 8)
        variants = [rng.choice(G.VARIANT_NAMES + ["ok", "ok"]) for _ in range(n)]
        cases.append(_stream(variants, rng.randrange(len(G.SELECTIONS)), sources[i % 3],
                             "async" if (i // 3) % 2 else "sync",
                             [rng.choice([0, 0, 1, 2, 3]) for _ in range(n)], rng.choice([0, 0, 1, 2])))
    # the event-payload family: every raw payload first / in the middle / last / several in a row,
    # under selections whose root resolver echoes the event, ignores it, or reads it by key (default path)
    shapes = [lambda r, o: [r], lambda r, o: [r, o], lambda r, o: [o, r], lambda r, o: [o, r, o],
              lambda r, o: [r, r, o], lambda r, o: [o, r, r], lambda r, o: [r, o, r, r, o]]
    sels = [G.SEL_ECHO, G.SEL_TICK, 1, G.SEL_ECHO_ALIAS, 2]
    j = 0
    for raw in G.RAW_NAMES:
        for si, shape in enumerate(shapes):
            if quick and raw not in G.FALSY_RAW and si % 3:
                continue
            other = ["ok", "raw_int", "raw_str", "v_raise"][j % 4]
            variants = shape(raw, other)
            cases.append(_stream(variants, sels[j % len(sels)], sources[j % 3], "async" if (j // 3) % 2 else "sync",
                                 [(j + i) % 3 % 2 for i in range(len(variants))], j % 2))
            j += 1
    for i in range(40 if quick else 500):
        n = rng.randint(1, 8)
        variants = [rng.choice(G.RAW_NAMES + G.FALSY_RAW + ["ok", "v_raise"]) for _ in range(n)]
        cases.append(_stream(variants, rng.choice(sels + [0, 3, 4]), sources[i % 3], "async" if i % 2 else "sync",
                             [rng.choice([0, 0, 1, 2]) for _ in range(n)], rng.choice([0, 1])))
    # abstract payloads: all sequences over {created, deleted} up to length 3 (quick) / 5, plus mixes with
    # failing / null / ordinary events, under the three selections
    j = 0
    for n in range(1, 4 if quick else 6):
        for pat in itertools.product(["created", "deleted"], repeat=n):
            if len(set(pat)) < 2 and n > 1 and j % 2:
                j += 1
                continue
            cases.append(_stream(list(pat), [G.SEL_CHANGE, G.SEL_ANYCHANGE, G.SEL_CHANGES][j % 3], sources[j % 3],
                                 "async" if (j // 3) % 2 else "sync", [(j + i) % 2 for i in range(n)], j % 2))
            j += 1
    for i in range(25 if quick else 300):
        n = rng.randint(2, 7)
        variants = [rng.choice(G.CHANGE_NAMES + ["created", "deleted", "ok", "raw_none"]) for _ in range(n)]
        cases.append(_stream(variants, rng.choice([G.SEL_CHANGE, G.SEL_ANYCHANGE, G.SEL_CHANGES]), sources[i % 3],
                             "async" if i % 2 else "sync", [rng.choice([0, 0, 1]) for _ in range(n)], rng.choice([0, 1])))
    # histories: every number of __anext__ calls from 0 to n + 2 on streams of 0..4 (quick) / 0..6 events
    j = 0
    for n in range(0, 5 if quick else 7):
        for pulls in range(0, n + 3):
            variants = [["ok", "v_raise", "crash_f", "n_null", "raw_none", "many"][(j + i) % 6] for i in range(n)]
            src = ["agen", "sync", "async", "chan_sync", "chan_async"][j % 5]
            traits, fill = ((["len", "bool_empty"], ["pre", "late"][j % 2]) if src.startswith("chan") else (None, None))
            cases.append(_history(variants, pulls, [1, G.SEL_ERR_THEN_ABORT, G.SEL_ECHO][j % 3], src,
                                  "async" if j % 2 else "sync", [(j + i) % 2 for i in range(n)], j % 2, traits, fill))
            j += 1
    # source-stream classes: trait combinations x prefilled / late-filled x every length incl. 0
    trait_sets = [[], ["len"], ["bool_empty"], ["bool_false"], ["bool_true", "len"], ["eq_true"], ["eq_raises"],
                  ["nohash"], ["getattr_none"], ["getattr_raises"], ["len", "bool_empty", "eq_true", "getattr_none"],
                  ["len", "nohash", "eq_raises", "getattr_raises"], ["bool_false", "nohash", "getattr_none"]]
    j = 0
    for traits in trait_sets:
        for fill in ("pre", "late"):
            for n in range(0, (5 if quick else 9)):
                if quick and n in (3,) and j % 2:
                    j += 1
                    continue
                variants = [["ok", "v_raise", "n_null", "raw_none", "many", "ok"][(j + i) % 6] for i in range(n)]
                cases.append(_stream(variants, [1, 2, G.SEL_ECHO, 3][j % 4], "chan_sync" if j % 2 else "chan_async",
                                     "async" if (j // 2) % 2 else "sync", [(j + i) % 3 % 2 for i in range(n)], j % 2,
                                     traits, fill))
                j += 1
    # aborting events: every aborting behaviour first / in the middle / last / twice in a row, under the
    # three orders (errors before the abort, abort first, inside list items), then events that complete
    ab_sels = [G.SEL_ERR_THEN_ABORT, G.SEL_ABORT_FIRST, G.SEL_ABORT_IN_LIST, 2]
    ab_shapes = [lambda a, o: [a, o], lambda a, o: [o, a, o], lambda a, o: [a, a, o], lambda a, o: [o, a],
                 lambda a, o: [a, o, a, o, o]]
    j = 0
    for ab in G.ABORTING_NAMES:
        for si, shape in enumerate(ab_shapes):
            for sel in (ab_sels if not quick else [ab_sels[(j + si) % 4], ab_sels[(j + si + 1) % 4]]):
                other = ["ok", "v_raise", "many", "n_null"][j % 4]
                variants = shape(ab, other)
                cases.append(_stream(variants, sel, sources[j % 3], "async" if (j // 3) % 2 else "sync",
                                     [(j + i) % 2 for i in range(len(variants))], j % 2))
                j += 1
    for i in range(30 if quick else 400):
        n = rng.randint(2, 8)
        variants = [rng.choice(G.ABORTING_NAMES + ["ok", "ok", "v_raise", "many", "raw_none"]) for _ in range(n)]
        cases.append(_stream(variants, rng.choice(ab_sels + [1, 3]), sources[i % 3], "async" if i % 2 else "sync",
                             [rng.choice([0, 0, 1, 2]) for _ in range(n)], rng.choice([0, 1])))
    # exhaustive failure patterns (fail / ok per event) up to 4 (quick) / 6 (thorough) events
    maxn = 4 if quick else 6
    j = 0
    for n in range(0, maxn + 1):
        for pat in itertools.product([0, 1], repeat=n):
            fail = ["v_raise", "n_null", "many"][j % 3]
            cases.append(_stream([fail if b else "ok" for b in pat], [1, 2, 3][j % 3], sources[j % 3],
                                 "async" if j % 2 else "sync", [j % 2] * n, j % 2))
            j += 1
    return cases


# ---------------------------------------------------------------- implementation driver
_LOOP = None


def _loop():
    global _LOOP
    if _LOOP is None:
        _LOOP = asyncio.new_event_loop()
        asyncio.set_event_loop(_LOOP)
    return _LOOP


class _Source(object):
    """an async iterator over the events that logs every request and delivery"""

    def __init__(self, events, delays, log, counter):
        self.events, self.delays, self.log, self.counter = events, delays, log, counter
        self.k = 0

    def __aiter__(self):
        return self

    async def __anext__(self):
        self.counter["requests"] += 1
        if self.k >= len(self.events):
            self.log.append(["end"])
            raise StopAsyncIteration()
        for _ in range(self.delays[self.k]):
            await asyncio.sleep(0)
        k = self.k
        self.k += 1
        self.counter["consumed"] += 1
        self.log.append(["pulled", k])
        return self.events[k]


# ---- source streams whose only contract is the async-iteration protocol: every other protocol the
# library might touch (truthiness, len, equality, hashing, attribute probing) answers unhelpfully
TRAITS = ["len", "bool_empty", "bool_false", "bool_true", "eq_true", "eq_raises", "nohash", "getattr_none",
          "getattr_raises"]


class _Channel(object):
    """a buffered channel: events are pushed (at construction = prefilled, or after subscribe() returned
    = late-filled) and delivered in order by __anext__, which waits while the buffer is empty and the
    channel is still open"""

    def __init__(self, delays, log, counter):
        self._buffer, self._closed, self._next = [], False, 0
        self._delays, self._log, self._counter = delays, log, counter

    def push(self, event):
        self._buffer.append(event)

    def close(self):
        self._closed = True

    def __aiter__(self):
        return self

    async def __anext__(self):
        self._counter["requests"] += 1
        while not self._buffer and not self._closed:
            await asyncio.sleep(0)
        if not self._buffer:
            self._log.append(["end"])
            raise StopAsyncIteration()
        k = self._next
        for _ in range(self._delays[k] if k < len(self._delays) else 0):
            await asyncio.sleep(0)
        self._next += 1
        self._counter["consumed"] += 1
        self._log.append(["pulled", k])
        return self._buffer.pop(0)


def _raise_type_error(self, *a, **k):
    raise TypeError("this stream only supports async iteration")


def make_channel_class(traits):
    ns = {}
    if "len" in traits:
        ns["__len__"] = lambda self: len(self._buffer)
    if "bool_empty" in traits:
        ns["__bool__"] = lambda self: bool(self._buffer)
    if "bool_false" in traits:
        ns["__bool__"] = lambda self: False
    if "bool_true" in traits:
        ns["__bool__"] = lambda self: True
    if "eq_true" in traits:
        ns["__eq__"] = lambda self, other: True
        ns["__ne__"] = lambda self, other: True
        ns["__hash__"] = lambda self: 0
    if "eq_raises" in traits:
        ns["__eq__"] = _raise_type_error
        ns["__hash__"] = lambda self: 0
    if "nohash" in traits:
        ns["__hash__"] = None
    if "getattr_none" in traits:
        ns["__getattr__"] = lambda self, name: None           # hasattr(stream, anything) is True
    if "getattr_raises" in traits:
        def _ga(self, name):
            raise AttributeError("no attribute %r: this stream only supports async iteration" % name)
        ns["__getattr__"] = _ga
    return type("Channel_" + "_".join(traits or ["plain"]), (_Channel,), ns)


def _make_sub_resolver(kind, events, delays, log, counter, case=None, holder=None):
    if kind in ("chan_sync", "chan_async"):
        cls = make_channel_class(case.get("traits", []))

        def build():
            ch = cls(delays, log, counter)
            if case.get("fill", "pre") == "pre":
                for ev in events:
                    ch.push(ev)
                ch.close()
            holder.append(ch)
            return ch
        if kind == "chan_sync":
            def chan_sync(root, ctx, info, **args):
                counter["called"] += 1
                return build()
            return chan_sync

        async def chan_async(root, ctx, info, **args):
            counter["called"] += 1
            await asyncio.sleep(0)
            return build()
        return chan_async
    if kind == "agen":
        async def agen(root, ctx, info, **args):
            counter["called"] += 1
            for k, ev in enumerate(events):
                counter["requests"] += 1
                for _ in range(delays[k]):
                    await asyncio.sleep(0)
                counter["consumed"] += 1
                log.append(["pulled", k])
                yield ev
                ev = None           # an ephemeral event dies here (its addresses become reusable)
            counter["requests"] += 1
            log.append(["end"])
        return agen
    if kind == "sync":
        def sync(root, ctx, info, **args):
            counter["called"] += 1
            return _Source(events, delays, log, counter)
        return sync

    async def coro(root, ctx, info, **args):
        counter["called"] += 1
        await asyncio.sleep(0)
        return _Source(events, delays, log, counter)
    return coro


def _roundtrip(resp):
    return json.loads(json.dumps(resp, allow_nan=False))


def _oracle_text(text):
    assert text.startswith("subscription")
    return "query" + " " * (len("subscription") - len("query")) + text[len("subscription"):]


class _Ephemeral:
    """events built afresh on every iteration and kept by nobody (seeded C17-j: a cache keyed by id(payload) on the
    executor that all events of a stream share only misbehaves once a dead payload's address is reused)"""

    def __init__(self, variants):
        self._variants = list(variants)

    def __len__(self):
        return len(self._variants)

    def __iter__(self):
        for k, v in enumerate(self._variants):
            yield G.make_event(v, k)


async def _run_stream(case):
    schema = G.get_schema(case["flavour"], shared=case.get("schema") == "shared")
    events = [G.make_event(v, k) for k, v in enumerate(case["variants"])]
    if case.get("ephemeral"):
        events = _Ephemeral(case["variants"])
    log, counter = [], {"called": 0, "requests": 0, "consumed": 0}
    holder = []
    G.set_subscription_resolvers(schema, _make_sub_resolver(case["source"], events, case["delays"], log, counter,
                                                            case, holder))
    text = G.SELECTIONS[case["selection"]]
    doc = parse(text)
    try:
        stream = await subscribe(schema, doc, runtime=AsyncIORuntime())
    except Exception as e:  # noqa  a valid subscription was refused / setting up the stream failed
        return {"observed": [], "observed_late": [], "fresh": [], "trace": log, "ended": False,
                "consumed": counter["consumed"], "called": counter["called"], "requests": counter["requests"],
                "subscribe_raised": "%s: %s" % (type(e).__name__, str(e)[:200])}
    feeder = None
    if holder and case.get("fill") == "late":
        # events only arrive after subscribe() has returned
        async def feed(ch):
            for ev in events:
                await asyncio.sleep(0)
                ch.push(ev)
            await asyncio.sleep(0)
            ch.close()
        feeder = asyncio.ensure_future(feed(holder[0]))
    if case["kind"] == "history":
        # a consumer that makes exactly j calls of __anext__ (stops early, or keeps calling after the end)
        it = stream.__aiter__()
        answers = []
        for _ in range(case["pulls"]):
            try:
                r = await it.__anext__()
            except StopAsyncIteration:
                answers.append("end")
            except Exception as e:  # noqa
                answers.append({"raised": type(e).__name__})
            else:
                answers.append(_roundtrip(r.response()))
            for _ in range(case["consumer_delay"]):
                await asyncio.sleep(0)
        if feeder is not None:
            feeder.cancel()
        odoc = parse(_oracle_text(text))
        fresh = []
        for ev in events:
            try:
                res = await execute(schema, odoc, initial_value=ev, runtime=AsyncIORuntime())
            except Exception as e:  # noqa
                fresh.append({"raised": type(e).__name__})
            else:
                fresh.append(_roundtrip(res.response()))
        return {"answers": answers, "fresh": fresh, "consumed": counter["consumed"],
                "requests": counter["requests"], "called": counter["called"]}
    observed = []
    results = []
    ended = False
    it = stream.__aiter__()
    while True:
        try:
            r = await it.__anext__()
        except StopAsyncIteration:
            ended = True
            break
        except Exception as e:  # noqa  the event's execution was aborted: keep reading
            log.append(["emitted", len(observed)])
            observed.append({"raised": type(e).__name__})
            results.append(None)
            if len(observed) > len(events) + 2:
                break
            continue
        log.append(["emitted", len(observed)])
        observed.append(_roundtrip(r.response()))
        results.append(r)
        for _ in range(case["consumer_delay"]):
            await asyncio.sleep(0)
        if len(observed) > len(events) + 2:
            break
    if feeder is not None:
        await feeder
    # the oracle: the same selection as a plain query, event k as root value, fresh executor each time
    odoc = parse(_oracle_text(text))
    fresh = []
    for ev in events:
        try:
            res = await execute(schema, odoc, initial_value=ev, runtime=AsyncIORuntime())
        except Exception as e:  # noqa
            fresh.append({"raised": type(e).__name__})
        else:
            fresh.append(_roundtrip(res.response()))
    # results already handed to the consumer must not change when later events are processed
    late = [o if r is None else _roundtrip(r.response()) for r, o in zip(results, observed)]
    return {"observed": observed, "observed_late": late, "fresh": fresh, "trace": log, "ended": ended,
            "consumed": counter["consumed"], "called": counter["called"], "requests": counter["requests"]}


def _classify_exc(e):
    if isinstance(e, VariablesCoercionError):
        return "VariablesCoercionError"
    if isinstance(e, CoercionError):
        return "CoercionError"
    if isinstance(e, ExecutionError):
        return "ExecutionError"
    if isinstance(e, RuntimeError):
        return "RuntimeError"
    return "other:" + type(e).__name__


async def _run_refusal(case):
    schema = G.get_schema("sync", shared=case.get("schema") == "shared")
    log, counter = [], {"called": 0, "requests": 0, "consumed": 0}
    events = [G.make_event("ok", 0), G.make_event("ok", 1)]
    G.set_subscription_resolvers(schema, _make_sub_resolver("sync", events, [0, 0], log, counter))
    pool = None
    if case["runtime"] == "asyncio":
        rt = AsyncIORuntime()
    elif case["runtime"] == "blocking":
        rt = BlockingRuntime()
    else:
        rt = pool = ThreadPoolRuntime(max_workers=1)
    doc = parse(case["text"])
    cls = "none"
    try:
        try:
            r = subscribe(schema, doc, operation_name=case["operation_name"],
                          variables=case["variables"], runtime=rt)
            if asyncio.iscoroutine(r) or isinstance(r, asyncio.Future):
                await r
        except Exception as e:  # noqa
            cls = _classify_exc(e)
            msg = str(e)[:200]
        else:
            msg = ""
    finally:
        if pool is not None:
            pool._inner.shutdown(wait=False)
    return {"cls": cls, "msg": msg, "called": counter["called"], "consumed": counter["consumed"],
            "requests": counter["requests"]}


def run_impl(case):
    if case["kind"] in ("stream", "history"):
        return _loop().run_until_complete(asyncio.wait_for(_run_stream(case), 60))
    return _loop().run_until_complete(asyncio.wait_for(_run_refusal(case), 60))


# ---------------------------------------------------------------- serialisation
def _split(resp):
    if "raised" in resp:
        return "(None, [])"
    return "(Some %s, %s)" % (cjson(resp.get("data")), ser.clist(resp.get("errors", []), cjson))


def _obs(resp):
    return "None" if "raised" in resp else "(Some %s)" % cjson(resp)


def _trace(log):
    out = []
    for e in log:
        if e[0] == "pulled":
            out.append("(Pulled (N.to_nat %d))" % e[1])
        elif e[0] == "emitted":
            out.append("(Emitted (N.to_nat %d))" % e[1])
        else:
            out.append("Ended")
    return "[" + "; ".join(out) + "]"


_CLS = {"ExecutionError": "OExecutionError", "RuntimeError": "ORuntimeError",
        "VariablesCoercionError": "OVariablesCoercionError", "CoercionError": "OCoercionError",
        "none": "ONoException"}


def _answer(a):
    if a == "end":
        return "None"
    if "raised" in a:
        return "(Some None)"
    return "(Some (Some %s))" % cjson(a)


def to_coq(case, obs):
    if case["kind"] == "history":
        if obs.get("subscribe_raised"):
            return "(CHistory [] 0 [Some None] 0)"
        return "(CHistory %s %d %s %d)" % (ser.clist(obs["fresh"], _split), case["pulls"],
                                           ser.clist(obs["answers"], _answer), obs["consumed"])
    if case["kind"] == "stream":
        return "(CStream %s %s %s %s %d)" % (
            ser.clist(obs["fresh"], _split), ser.clist(obs["observed"], _obs), _trace(obs["trace"]),
            ser.cbool(obs["ended"]), obs["consumed"])
    f = case["facts"]
    q = "(SubRequest %s %s %s %s %s (N.to_nat %d) %s %s)" % (
        ser.cbool(f[0]), ser.cbool(f[1]), ser.cbool(f[2]), ser.cbool(f[3]), ser.cbool(case.get("collect_ok", True)),
        f[4], ser.cbool(f[5]), ser.cbool(f[6]))
    return "(CRefusal %s %s %s %d)" % (q, _CLS.get(obs["cls"], "OOther"), ser.cbool(obs["called"] > 0),
                                       obs["consumed"] + obs["requests"])


def show_expr(case, obs):
    if case["kind"] == "history":
        return "match model_history %s (N.to_nat %d) with Some (s, rs) => (rs, ss_consumed s) | None => ([], 0%%nat) end" % (
            ser.clist(obs.get("fresh", []), _split), case["pulls"])
    if case["kind"] == "stream":
        return "match model_stream %s with Some (s, rs) => (map resp_of rs, ss_trace s) | None => ([], []) end" % (
            ser.clist(obs["fresh"], _split))
    f = case["facts"]
    return "subscribe unit nat json tt (SubRequest %s %s %s %s %s (N.to_nat %d) %s %s) []" % (
        ser.cbool(f[0]), ser.cbool(f[1]), ser.cbool(f[2]), ser.cbool(f[3]), ser.cbool(case.get("collect_ok", True)),
        f[4], ser.cbool(f[5]), ser.cbool(f[6]))


def nontrivial(case, obs):
    if case["kind"] == "refusal":
        return True
    if case["kind"] == "history":
        return len(case["variants"]) >= 1
    return (len(case["variants"]) >= 2 and any(v != "ok" for v in case["variants"])) or \
        any(v.startswith("raw_") for v in case["variants"])


def canonical(case):
    return json.dumps(case, sort_keys=True)


def classify(case, obs):
    if case["kind"] == "history":
        return ("after j calls of __anext__: the first j results, then only end-of-stream; exactly min(j, n) "
                "source items consumed (no read-ahead)"), None
    if case["kind"] == "refusal":
        return "refused with the documented exception before any event is consumed (%s)" % case["label"], None
    if obs.get("subscribe_raised"):
        return "a valid subscription yields a response stream (subscribe raised %s)" % obs["subscribe_raised"][:60], None
    if len(obs["observed"]) != len(case["variants"]) or not obs["ended"]:
        return "one result per source event, stream ends with the source", None
    if obs["observed"] != obs["fresh"]:
        return "k-th result = selection executed on event k alone (data and isolated errors)", None
    return "sequential pull: item k+1 requested after result k", None


def direct_checks(case, obs):
    out = []
    if case["kind"] == "refusal" and obs["cls"].startswith("other:"):
        out.append(("refusal raised an undocumented exception class %s" % obs["cls"], None))
    if case["kind"] in ("stream", "history") and obs.get("subscribe_raised"):
        out.append(("subscribe() raised for a valid subscription instead of returning the response stream: %s"
                    % obs["subscribe_raised"], None))
    if case["kind"] == "stream" and obs.get("observed_late") != obs.get("observed"):
        out.append(("a result already emitted changed while later events were processed "
                    "(its error list is shared with the executor)", None))
    return out


def shrink(case, is_bad):
    if case["kind"] != "stream":
        return case
    cur = dict(case)
    changed = True
    while changed and cur["variants"]:
        changed = False
        for i in range(len(cur["variants"])):
            cand = dict(cur, variants=cur["variants"][:i] + cur["variants"][i + 1:],
                        delays=cur["delays"][:i] + cur["delays"][i + 1:])
            if is_bad(cand):
                cur, changed = cand, True
                break
    for k in ("delays",):
        cand = dict(cur, delays=[0] * len(cur["variants"]), consumer_delay=0)
        if is_bad(cand):
            cur = cand
    return cur


def _history(variants, pulls, sel, source, flavour, delays, consumer_delay, traits=None, fill=None):
    c = _stream(variants, sel, source, flavour, delays, consumer_delay, traits, fill)
    c["kind"], c["pulls"] = "history", pulls
    return c


def extra_evidence(cases, obss):
    lens, srcs, variants, refusals, traits_seen, histories = {}, {}, {}, {}, {}, {}
    with_err = 0
    for c, o in zip(cases, obss):
        if c["kind"] == "refusal":
            refusals[o["cls"]] = refusals.get(o["cls"], 0) + 1
            continue
        if c["kind"] == "history":
            histories[(c["pulls"] > len(c["variants"])) - (c["pulls"] < len(c["variants"]))] = \
                histories.get((c["pulls"] > len(c["variants"])) - (c["pulls"] < len(c["variants"])), 0) + 1
            continue
        n = len(c["variants"])
        lens[n] = lens.get(n, 0) + 1
        srcs[c["source"] + "/" + c["flavour"]] = srcs.get(c["source"] + "/" + c["flavour"], 0) + 1
        if "traits" in c:
            tk = "+".join(c["traits"] or ["plain"]) + "/" + c["fill"]
            traits_seen[tk] = traits_seen.get(tk, 0) + 1
        for v in c["variants"]:
            variants[v] = variants.get(v, 0) + 1
        with_err += sum(1 for r in o.get("observed", []) if "errors" in r)
    return {"distribution": {"stream_lengths": lens, "source/field-resolver kinds": srcs,
                             "event_variants": variants, "refusal_classes_seen": refusals,
                             "source_stream_classes": traits_seen,
                             "histories (pulls < / = / > events)": {str(k): v for k, v in histories.items()},
                             "results_with_errors": with_err}}
