# -*- coding: utf-8 -*-
"""Generator of behaviour-tree programs (see sched_prog.py) for C08/C09.

Stratified on: number of deferred resolver calls (1..max), provision mode of
each resolver (S attribute callable / P plain function / C coroutine-or-task),
nested deferred values, selection depth, list fields (items null / scalar /
object, nullable or not), non-null fields, resolver errors and unexpected
exceptions at any position. All randomness from the rng passed in."""
import copy

from . import sched_prog as sp

SCALAR_SHAPES = {False: ["i", "o", "lo", "lO", "li", "lI"], True: ["in", "on", "lon", "lOn", "lin", "lIn"]}


class _Gen:
    def __init__(self, rng, p_exn, p_err, p_lv, modes):
        self.rng = rng
        self.next_key = 0
        self.p_exn, self.p_err, self.p_lv, self.modes = p_exn, p_err, p_lv, modes

    def key(self):
        k = self.next_key
        self.next_key += 1
        return k

    def leaf_body(self):
        r = self.rng.random()
        if r < self.p_exn:
            return ["exn", self.rng.randint(0, 9)]
        if r < self.p_exn + self.p_err:
            return ["err", self.rng.randrange(sp.N_ERR_VARIANTS)]
        if r < self.p_exn + self.p_err + 0.10:
            return ["null"]
        if r < self.p_exn + self.p_err + 0.17:
            return ["snull"]
        if r < self.p_exn + self.p_err + 0.25:
            return ["echo"]                        # returns the `dflt` argument it received                       # custom scalar value that serialises to null
        if self.p_exn and r < self.p_exn + self.p_err + 0.20:
            return ["sbad", self.rng.randint(10, 19)]  # serialisation raises
        return ["int", self.rng.randint(-3, 40)]

    def field(self, depth):
        rng = self.rng
        f = {"k": self.key(), "m": rng.choice(self.modes), "lv": 0, "nn": rng.random() < 0.3}
        if rng.random() < self.p_lv:
            f["lv"] = rng.choice([1, 1, 2])
        r = rng.random()
        if depth > 0 and r < 0.30:
            f["b"] = ["obj", self.fields(depth - 1, rng.randint(1, 3))]
        elif depth > 0 and r < 0.45:
            f["b"] = self.list_body(depth - 1)
        else:
            f["b"] = self.leaf_body()
            if f["b"][0] in ("null", "err", "exn"):
                f["sh"] = rng.choice(SCALAR_SHAPES[f["nn"]])
        return f

    def fields(self, depth, n):
        """the fields of one parent object. The parent is either a Mapping (its default-resolved
        fields are dict values: mode V) or a plain object (methods S / D, attributes A)"""
        fs = [self.field(depth) for _ in range(n)]
        dict_parent = any(f["m"] == "V" for f in fs) and self.rng.random() < 0.7
        count = {}
        for f in fs:
            if dict_parent and f["m"] in ("S", "D", "A"):
                f["m"] = "V"
            elif not dict_parent and f["m"] == "V":
                f["m"] = "A"
            if f["b"][0] == "echo":
                if f["m"] in ("A", "V"):              # attributes / dict values receive no arguments
                    f["m"] = "P" if dict_parent else "S"
                if self.rng.random() < 0.25:
                    f.setdefault("args", {})["dflt"] = self.rng.randint(1, 9)
            if self.rng.random() < 0.3:   # 1-2 arguments whose names collide with library plumbing parameters
                names = self.rng.sample(sp.allowed_args(f["m"] if f["m"] in ("P", "C") else "S"), self.rng.choice([1, 1, 2]))
                f.setdefault("args", {}).update({a: self.rng.randint(0, 9) for a in names})
            if f["m"] in ("A", "V"):
                key = (sp.shape_of(f), f["m"])
                count[key] = count.get(key, 0) + 1
                if count[key] > 3:           # only three name variants per shape
                    f["m"] = "P"
        return fs

    def list_body(self, depth):
        rng = self.rng
        inn = rng.random() < 0.4
        n = rng.choice([0, 1, 2, 2, 3])
        def lazily(items):
            """sometimes the list is a generator / iterator that raises after k = 0, 1, 2.. items"""
            if rng.random() < 0.2:
                items.insert(rng.choice([0, min(1, len(items)), min(2, len(items)), len(items)]), ["raise", rng.randint(0, 1)])
            return items

        if rng.random() < 0.4:
            if rng.random() < 0.3:
                items = [["null"] if rng.random() < 0.2 else ["snull"] if rng.random() < 0.4
                         else ["int", rng.randint(0, 9)] for _ in range(n)]
                return ["list", inn, "sc", lazily(items)]
            items = [["null"] if rng.random() < 0.25 else ["int", rng.randint(0, 9)] for _ in range(n)]
            return ["list", inn, "int", lazily(items)]
        template = self.fields(depth, rng.randint(1, 2))
        items = []
        for _ in range(n):
            if rng.random() < 0.2:
                items.append(["null"])
            else:
                items.append(["obj", self.vary(template)])
        if rng.random() < 0.3:
            # a list of the union type; maybe with an item its resolve_type cannot type,
            # at the first / a middle / the last position
            items = [it + ["T2"] if it[0] == "obj" and rng.random() < 0.5 else it for it in items]
            if rng.random() < 0.7:
                items.insert(rng.choice([0, len(items) // 2, len(items)]), ["bad"])
            return ["list", inn, "abs", items]
        return ["list", inn, "obj", lazily(items)]

    def vary(self, fields):
        """same selection, fresh outcomes at the scalar leaves"""
        out = []
        for f in fields:
            g = copy.deepcopy(f)
            if g["b"][0] in ("int", "null", "err", "exn") and g.get("sh", "i") in ("i", "in") \
                    and g["b"][0] not in ("snull", "sbad"):
                g["b"] = self.leaf_body()
                while g["b"][0] in ("snull", "sbad", "echo"):   # the field (hence its type / mode) is fixed by the template
                    g["b"] = self.leaf_body()
                if g["b"][0] != "int":
                    g["sh"] = "in" if g["nn"] else "i"
                else:
                    g.pop("sh", None)
                g["lv"] = self.rng.choice([0, 0, 0, 1]) if self.rng.random() < self.p_lv * 2 else g["lv"]
            elif g["b"][0] == "obj":
                g["b"] = ["obj", self.vary(g["b"][1])]
            out.append(g)
        return out


def n_tasks(program, config):
    n = 0

    def walk(f):
        nonlocal n
        if sp.deferred(f, config):
            n += 1 + f["lv"]
        b = f["b"]
        if b[0] == "obj":
            for g in b[1]:
                walk(g)
        elif b[0] == "list":
            for it in b[3]:
                if it[0] in ("bad", "raise"):       # later items are never started
                    break
                if it[0] == "obj":
                    for g in it[1]:
                        walk(g)

    for f in program["fields"]:
        walk(f)
    return n


def has_exn(program):
    d = __import__("json").dumps(program)
    return '"exn"' in d or '"sbad"' in d


def gen_program(rng, op, min_tasks=1, max_tasks=6, p_exn=0.0, p_err=0.12, p_lv=0.15,
                modes=("S", "P", "C", "C", "D", "D", "A", "V"), top=(1, 4), depth=2):
    for _ in range(2000):
        g = _Gen(rng, p_exn, p_err, p_lv, list(modes))
        prog = {"op": op, "fields": g.fields(depth, rng.randint(*top))}
        if rng.random() < 0.25:
            prog["mw"] = True          # a pass-through middleware around every resolver
        if min_tasks <= n_tasks(prog, "pool") <= max_tasks:
            return prog
    raise RuntimeError("generator could not meet the task bounds")


def _plan(rng, keys, prefix):
    """a selection plan over `keys` (in this order of first occurrence) in which some earlier key
    is selected again inside a later inline fragment / fragment spread"""
    occ = list(keys)
    n_again = rng.choice([1, 1, 2]) if len(keys) > 1 else 1
    again = []
    for _ in range(n_again):
        i = rng.randrange(max(1, len(keys) - 1)) if len(keys) > 1 else 0
        again.append(keys[i])
    # cut the first occurrences into chunks; re-selections go to the end of a later chunk
    cuts = sorted(set(rng.sample(range(1, len(occ)), min(len(occ) - 1, rng.randint(1, 2))))) if len(occ) > 1 else []
    chunks, last = [], 0
    for c in cuts + [len(occ)]:
        chunks.append([["f", k] for k in occ[last:c]])
        last = c
    for k in again:
        first_chunk = next(i for i, ch in enumerate(chunks) if ["f", k] in ch)
        later = [i for i in range(len(chunks)) if i > first_chunk] or [len(chunks)]
        tgt = rng.choice(later)
        if tgt == len(chunks):
            chunks.append([])
        pos = rng.randint(0, len(chunks[tgt]))
        chunks[tgt].insert(pos, ["f", k]) if rng.random() < 0.5 else chunks[tgt].append(["f", k])
    plan = []
    for i, ch in enumerate(chunks):
        has_again = any(it[1] in again and any(["f", it[1]] in c for c in chunks[:i]) for it in ch)
        kind = rng.choice(["inline", "inlineT", "spread"]) if has_again else rng.choice(["plain", "plain", "inline", "spread"])
        if kind == "plain":
            plan.extend(ch)
        elif kind == "spread":
            plan.append(["spread", "%s%d" % (prefix, i), ch])
        else:
            plan.append(["inline", kind == "inlineT", ch])
    return plan


def add_render(rng, program, p_nested=0.3):
    """root selection (and some object sub-selections) written with inline fragments / named
    fragment spreads that select earlier response keys again"""
    program = dict(program)
    program["render"] = _plan(rng, [f["k"] for f in program["fields"]], "R")
    n = [0]

    def nested(fields):
        out = []
        for f in fields:
            b = f["b"]
            if b[0] == "obj":
                f = dict(f, b=["obj", nested(b[1])])
                if rng.random() < p_nested:
                    n[0] += 1
                    f["render"] = _plan(rng, [g["k"] for g in b[1]], "N%d_" % n[0])
            out.append(f)
        return out

    program["fields"] = nested(program["fields"])
    return program


def sub_programs(program):
    """structural shrink candidates: drop one field / one item / flatten"""
    def drop_in(fields):
        for i in range(len(fields)):
            if len(fields) > 1:
                yield fields[:i] + fields[i + 1:]
            f = fields[i]
            b = f["b"]
            if b[0] == "obj":
                for sub in drop_in(b[1]):
                    yield fields[:i] + [dict(f, b=["obj", sub])] + fields[i + 1:]
            elif b[0] == "list":
                for j in range(len(b[3])):
                    yield fields[:i] + [dict(f, b=b[:3] + [b[3][:j] + b[3][j + 1:]])] + fields[i + 1:]
            if f["lv"]:
                yield fields[:i] + [dict(f, lv=0)] + fields[i + 1:]
            if f.get("args"):
                yield fields[:i] + [{k: v for k, v in f.items() if k != "args"}] + fields[i + 1:]
            if f["m"] not in ("S", "V", "A", "P"):
                yield fields[:i] + [dict(f, m="P")] + fields[i + 1:]

    n = len(program["fields"])
    if n > 40:      # large operations: bisect instead of dropping one field at a time
        yield dict(program, fields=program["fields"][:n // 2])
        yield dict(program, fields=program["fields"][n // 2:])
        yield dict(program, fields=program["fields"][:n - n // 8])
        return
    if "render" in program:
        yield {k: v for k, v in program.items() if k != "render"}
    if program.get("mw"):
        yield {k: v for k, v in program.items() if k != "mw"}
    if program.get("meta"):
        yield {k: v for k, v in program.items() if k not in ("meta", "nointro")}
    for fs in drop_in(program["fields"]):
        yield dict(program, fields=fs)


def add_meta(rng, prog, nointro=None):
    """select meta fields at the root (`__typename`; `__schema` too for a query) at random positions
    and draw the disable_introspection option. With the option on the executor leaves the meta
    fields out of the response; the other fields keep their document order either way."""
    n = len(prog["fields"])
    meta = [[rng.randint(0, n), "__typename"]]
    if prog["op"] == "query" and rng.random() < 0.6:
        meta.append([rng.randint(0, n), "__schema"])
    prog["meta"] = meta
    prog["nointro"] = (rng.random() < 0.6) if nointro is None else nointro
    return prog
