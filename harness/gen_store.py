# -*- coding: utf-8 -*-
"""C14 generators: a source schema (SDL text + decoration seed) and histories
of clone / transform / schema-directive / extend / replace operations.

The source is built from SDL (so that every element has its parse node and the
schema directives @rename / @remove can be applied) and then decorated with
resolvers, subscription resolvers, default resolvers, type resolvers and
python names by `c14.build_source` from `decor_seed`.

Deliberate limits (see docs/C14.md): no self- or mutually-recursive input
types (build_schema recurses forever on them, DESIGN section 6 row 26); all
arguments are nullable or carry defaults so that the execution probe never has
to invent argument values; fields without resolver are of type String.
"""

SCALARS = ["Int", "Float", "String", "Boolean", "ID"]
INTROSPECTION_NAMES = ["__Schema", "__Type", "__Field", "__InputValue", "__EnumValue", "__Directive",
                       "__TypeKind", "__DirectiveLocation"]

FIELD_NAMES = ["id", "name", "snake_case", "two_words_here", "camelCase", "value", "x_y",
               "other_field", "count", "_lead", "trail_", "a_b_c", "item", "node_ref"]
ARG_NAMES = ["first", "some_arg", "after_cursor", "flag", "in_put", "q", "order_by"]
IN_FIELD_NAMES = ["x", "y_z", "inner_value", "limit", "tagName", "mode_flag"]
ENUM_VALUES = ["A", "B", "C_D", "RED", "GREEN", "up_down"]
DESCS = [None, None, "a description", "another\ndescription", "d"]
REASONS = [None, None, None, "use something else", "old"]


def _wrap(rng, name, depth=2):
    t = name
    for _ in range(rng.randint(0, depth)):
        k = rng.random()
        if k < 0.35:
            t = "[%s]" % t
        elif k < 0.6 and not t.endswith("!"):
            t = t + "!"
    return t


def _wrap_nullable(rng, name):
    t = _wrap(rng, name)
    return t[:-1] if t.endswith("!") else t


def _desc(rng, indent=""):
    d = rng.choice(DESCS)
    if d is None:
        return ""
    if "\n" in d:
        return '%s"""\n%s%s\n%s"""\n' % (indent, indent, d.replace("\n", "\n" + indent), indent)
    return '%s"%s"\n' % (indent, d)


def _sdirs(rng, pool, rate):
    """schema directive applications for one element: (text, used names)"""
    out = []
    if rng.random() < rate:
        out.append('@rename(to: "%s")' % rng.choice(pool))
    if rng.random() < rate * 0.6:
        out.append("@remove")
    if out and rng.random() < 0.04:
        out.append(out[0])                      # applied twice -> SDLError
    return (" " + " ".join(out)) if out else ""


def _literal(rng, tname, enums, inputs, depth=0):
    """a default literal of (nullable) type `tname` (a wrapped type string)"""
    if tname.endswith("!"):
        tname = tname[:-1]
    if tname.startswith("["):
        inner = tname[1:-1]
        if rng.random() < 0.3:
            return "[]"
        return "[%s]" % _literal(rng, inner, enums, inputs, depth)
    if tname == "Int":
        return str(rng.choice([0, 1, 42, -7]))
    if tname == "Float":
        return rng.choice(["1.5", "0.25", "-2.0"])
    if tname == "String":
        return rng.choice(['"s"', '""', '"two words"'])
    if tname == "Boolean":
        return rng.choice(["true", "false"])
    if tname == "ID":
        return rng.choice(['"id1"', "7"])
    if tname in enums:
        return enums[tname][0]       # only first values occur in defaults (never hidden/renamed/removed)
    if tname in inputs:
        parts = []
        for (fname, ftype, _d) in inputs[tname]:
            if ftype.endswith("!") or rng.random() < 0.5:
                parts.append("%s: %s" % (fname, _literal(rng, ftype, enums, inputs, depth + 1)))
        return "{%s}" % ", ".join(parts)
    return '"x"'                                  # custom scalar


def _default(rng, tname, enums, inputs):
    """a default literal; for a nullable type often the explicit `null` (has_default_value with value
    None is not the same as no default: seeded C14-g)"""
    if not tname.endswith("!") and rng.random() < 0.25:
        return "null"
    return _literal(rng, tname, enums, inputs)


def gen_schema_sdl(rng, size=None):
    """returns SDL text of a valid schema"""
    size = size or rng.choice([1, 1, 2, 2, 3])
    sd_rate = rng.choice([0.0, 0.08, 0.15])
    lines = []
    rename_locs = ["FIELD_DEFINITION", "ARGUMENT_DEFINITION", "INPUT_FIELD_DEFINITION", "ENUM_VALUE"]
    remove_locs = rename_locs + ["OBJECT", "INTERFACE", "UNION", "ENUM", "SCALAR", "INPUT_OBJECT"]
    if rng.random() < 0.08:
        remove_locs.remove(rng.choice(remove_locs))          # -> "not applicable" SDLError
    lines.append("directive @rename(to: String!) on %s" % " | ".join(rename_locs))
    lines.append("directive @remove on %s" % " | ".join(remove_locs))

    scalars = ["Sc%d" % i for i in range(rng.randint(0, 2))]
    for s in scalars:
        lines.append("%sscalar %s%s" % (_desc(rng), s, " @remove" if rng.random() < sd_rate / 3 else ""))

    enums = {}
    for i in range(rng.randint(1, 2)):
        vals = rng.sample(ENUM_VALUES, rng.randint(2, 4))
        enums["En%d" % i] = vals
    enums["OnlyDir"] = ["P", "Q"]                           # reachable through a directive only
    final_enum_names = {}
    for n, vals in enums.items():
        body = []
        for vi, v in enumerate(vals):
            r = rng.choice(REASONS)
            body.append("%s    %s%s%s" % (_desc(rng, "    "), v,
                                          (' @deprecated(reason: "%s")' % r) if r else "",
                                          _sdirs(rng, ["REN_" + v], sd_rate) if (n != "OnlyDir" and vi > 0) else ""))
        lines.append("%senum %s%s {\n%s\n}" % (_desc(rng), n,
                                             " @remove" if (n != "OnlyDir" and rng.random() < sd_rate / 3) else "",
                                             "\n".join(body)))

    inputs = {}
    in_types = SCALARS + scalars + [e for e in enums if e != "OnlyDir"]
    for i in range(rng.randint(1, 2)):
        fields = []
        for fname in rng.sample(IN_FIELD_NAMES, rng.randint(1, 3)):
            base = rng.choice(in_types + list(inputs))
            ftype = _wrap(rng, base)
            default = None
            if rng.random() < 0.5:
                default = _default(rng, ftype, enums, inputs)
            fields.append((fname, ftype, default))
        inputs["In%d" % i] = fields
        body = []
        for (fname, ftype, default) in fields:
            body.append("%s    %s: %s%s%s" % (_desc(rng, "    "), fname, ftype,
                                              (" = " + default) if default is not None else "",
                                              _sdirs(rng, ["ren_" + fname, "renIn"], sd_rate)))
        lines.append("%sinput In%d%s {\n%s\n}" % (_desc(rng), i,
                                                " @remove" if rng.random() < sd_rate / 4 else "",
                                                "\n".join(body)))

    lines.append("directive @meta(e: OnlyDir = %s, n: Int%s, some_in: In0%s) on FIELD | QUERY"
                 % (rng.choice(["P", "P", "null"]), rng.choice([" = 3", " = null", " = null", ""]),
                    rng.choice(["", "", " = null"])))
    if rng.random() < 0.5:
        lines.append('"a runtime directive"\ndirective @other(snake_arg: [String]%s) on FIELD'
                     % rng.choice(["", " = null", ' = ["a"]']))

    n_iface = rng.randint(1, 2) if size > 1 else rng.randint(0, 1)
    n_obj = rng.randint(2, 2 + size)
    ifaces = ["If%d" % i for i in range(n_iface)]
    objs = ["Ob%d" % i for i in range(n_obj)]
    n_union = rng.randint(0, 2)
    unions = ["Un%d" % i for i in range(n_union)]
    out_types = SCALARS + scalars + [e for e in enums if e != "OnlyDir"] + ifaces + objs + unions
    arg_types = SCALARS + scalars + [e for e in enums if e != "OnlyDir"] + list(inputs)

    def gen_field(fname, leaf_bias=0.5):
        base = rng.choice(out_types) if rng.random() > leaf_bias else rng.choice(SCALARS + list(enums)[:1])
        ftype = _wrap(rng, base)
        args = []
        for an in rng.sample(ARG_NAMES, rng.choice([0, 0, 1, 2])):
            at = _wrap_nullable(rng, rng.choice(arg_types))
            default = _default(rng, at, enums, inputs) if rng.random() < 0.6 else None
            args.append((an, at, default))
        return (fname, ftype, args, rng.choice(REASONS), rng.choice(DESCS))

    def render_field(f, with_sd=True):
        fname, ftype, args, reason, desc = f
        a = ""
        if args:
            a = "(%s)" % ", ".join(
                "%s: %s%s%s" % (an, at, (" = " + d) if d is not None else "",
                                _sdirs(rng, ["ren_" + an], sd_rate) if with_sd else "")
                for (an, at, d) in args)
        d = ""
        if desc is not None:
            d = '    "%s"\n' % desc.replace("\n", " ")
        return "%s    %s%s: %s%s%s" % (d, fname, a, ftype,
                                       (' @deprecated(reason: "%s")' % reason) if reason else "",
                                       _sdirs(rng, ["ren_" + fname, "renamedField"], sd_rate) if with_sd else "")

    iface_fields = {}
    for n in ifaces:
        fs = [gen_field(fn) for fn in rng.sample(FIELD_NAMES, rng.randint(1, 2))]
        iface_fields[n] = fs
        lines.append("%sinterface %s%s {\n%s\n}" % (_desc(rng), n,
                                                  " @remove" if rng.random() < sd_rate / 4 else "",
                                                  "\n".join(render_field(f) for f in fs)))
    obj_ifaces = {}
    for k, n in enumerate(objs):
        impl = [i for i in ifaces if rng.random() < 0.5]
        if k == len(objs) - 1 and ifaces and not impl:
            impl = [ifaces[0]]
        obj_ifaces[n] = impl
        fs, seen = [], set()
        for i in impl:
            for f in iface_fields[i]:
                if f[0] not in seen:
                    seen.add(f[0])
                    fs.append(f)
        for fn in rng.sample(FIELD_NAMES, rng.randint(1, 3)):
            if fn not in seen:
                seen.add(fn)
                fs.append(gen_field(fn))
        lines.append("%stype %s%s%s {\n%s\n}" % (
            _desc(rng), n, (" implements " + " & ".join(impl)) if impl else "",
            " @remove" if rng.random() < sd_rate / 4 else "",
            "\n".join(render_field(f) for f in fs)))
    for n in unions:
        members = rng.sample(objs, rng.randint(1, min(3, len(objs))))
        lines.append("%sunion %s%s = %s" % (_desc(rng), n,
                                          " @remove" if rng.random() < sd_rate / 4 else "",
                                          " | ".join(members)))

    # roots: the last object type is an orphan (reachable only as implementer)
    reach = ifaces + objs[:-1] + unions
    qf, seen = [], set()
    for t in reach:
        fn = "get_" + t.lower()
        base = gen_field(fn)
        qf.append((fn, _wrap(rng, t), base[2], base[3], base[4]))
    for fn in rng.sample(FIELD_NAMES, 2):
        qf.append(gen_field(fn, leaf_bias=0.8))
    lines.append("type Query {\n%s\n}" % "\n".join(render_field(f) for f in qf))
    roots = ["query: Query"]
    if rng.random() < 0.4:
        mf = [gen_field(fn, leaf_bias=0.6) for fn in rng.sample(FIELD_NAMES, 2)]
        lines.append("type Mut {\n%s\n}" % "\n".join(render_field(f) for f in mf))
        roots.append("mutation: Mut")
    if rng.random() < 0.3:
        sf = [gen_field(fn, leaf_bias=0.9) for fn in rng.sample(FIELD_NAMES, 1)]
        lines.append("type Sub {\n%s\n}" % "\n".join(render_field(f) for f in sf))
        roots.append("subscription: Sub")
    lines.append("schema {\n    %s\n}" % "\n    ".join(roots))
    return "\n\n".join(lines) + "\n"


# ----------------------------------------------------------------- histories
def _names(dump):
    types = [t["name"] for t in dump["types"] if not t.get("builtin")]
    fields, in_fields, args, evs = [], [], [], []
    for t in dump["types"]:
        if t["kind"] in ("object", "interface"):
            for f in t["fields"]:
                fields.append([t["name"], f["name"]])
                args.extend(a["name"] for a in f["args"])
        elif t["kind"] == "input":
            in_fields.extend([t["name"], f["name"]] for f in t["fields"])
        elif t["kind"] == "enum":
            evs.extend(v["name"] for v in t["values"][1:])
    dirs = [d["name"] for d in dump["directives"]]
    return types, fields, in_fields, sorted(set(args)), dirs, sorted(set(evs))


def _pick(rng, xs, p_each):
    return [x for x in xs if rng.random() < p_each]


def gen_extension(rng, dump, n):
    """a (mostly valid) extension document for the schema described by `dump`"""
    parts = []
    objs = [t for t in dump["types"] if t["kind"] == "object"]
    ifaces = [t for t in dump["types"] if t["kind"] == "interface"]
    enums = [t for t in dump["types"] if t["kind"] == "enum"]
    inputs = [t for t in dump["types"] if t["kind"] == "input"]
    unions = [t for t in dump["types"] if t["kind"] == "union"]
    roots = [r["name"] for r in dump["roots"] if r]
    scalars = [t for t in dump["types"] if t["kind"] == "scalar"]

    def xd():
        # a schema directive on the extension node itself (recorded in the `nodes` of the extended type)
        return rng.choice(["", "", " @remove"])
    for _ in range(rng.randint(1, 3)):
        k = rng.random()
        if k < 0.25 and objs:
            t = rng.choice(objs)
            ftype = rng.choice(["Int", "String", "[%s]" % rng.choice(objs)["name"], "%s!" % rng.choice(objs)["name"]]
                               + [e["name"] for e in enums] + [u["name"] for u in unions])
            args = rng.choice(["", "(arg_one: Int = 1)", '(s: String = "x", flag_b: Boolean)', "(n_l: Int = null, l_n: [Int] = null)",
                               "(e: %s)" % enums[0]["name"] if enums else "",
                               "(inp: %s)" % inputs[0]["name"] if inputs else ""])
            extra = rng.choice(["", ' @deprecated(reason: "gone")', " @deprecated", ' @rename(to: "ext_renamed")'])
            desc = rng.choice(["", '"an added field" '])
            impl = ""
            cands = [i["name"] for i in ifaces if i["name"] not in [r["name"] for r in t["refs"]]]
            if cands and rng.random() < 0.3:
                i = rng.choice(cands)
                it = [x for x in ifaces if x["name"] == i][0]
                # implement the interface: declare its fields too (same types, no arguments issues for validate)
                impl = " implements " + i
            parts.append("extend type %s%s%s { %sext_%d%s: %s%s }" % (t["name"], impl, xd(), desc, n, args, ftype, extra))
        elif k < 0.33 and ifaces:
            t = rng.choice(ifaces)
            parts.append("extend interface %s%s { ext_if_%d(a_b: [Int!] = [1, 2]): Int }" % (t["name"], xd(), n))
        elif k < 0.43 and enums:
            parts.append('extend enum %s%s { "added" EXT_%d, EXT_B_%d @deprecated(reason: "r") }'
                         % (rng.choice(enums)["name"], xd(), n, n))
        elif k < 0.53 and inputs:
            parts.append("extend input %s%s { ext_in_%d: Int = 5, ext_ref_%d: %s }" % (
                rng.choice(inputs)["name"], xd(), n, n, rng.choice(["String", "[Float]"] + [e["name"] for e in enums])))
        elif k < 0.62 and unions and objs:
            u = rng.choice(unions)
            cands = [o["name"] for o in objs if o["name"] not in [m["name"] for m in u["members"]]
                     and o["name"] not in roots]
            if cands:
                parts.append("extend union %s%s = %s" % (u["name"], xd(), rng.choice(cands)))
        elif k < 0.66 and scalars:
            parts.append("extend scalar %s @remove" % rng.choice(scalars)["name"])
        elif k < 0.78:
            parts.append('"new type" type New%d { id: ID, back: %s }\nextend type Query { new_%d(x_y: Int = 3): New%d }' % (
                n, rng.choice(objs)["name"] if objs else "Int", n, n))
        elif k < 0.84:
            parts.append("input NewIn%d { a_b: Int = 2, c: %s }\ndirective @added%d(x: NewIn%d, y_z: Int) on FIELD | QUERY"
                         % (n, rng.choice(["String"] + [i["name"] for i in inputs]), n, n))
        elif k < 0.88 and "Mut" not in roots and dump["roots"][1] is None:
            parts.append("type NewMut%d { do_it(v: Int): Int }\nextend schema { mutation: NewMut%d }" % (n, n))
        elif k < 0.91 and objs:
            parts.append("extend interface %s { wrong_kind_%d: Int }" % (rng.choice(objs)["name"], n))  # ExtensionError
        elif k < 0.94 and objs:
            t = rng.choice(objs)
            if t["fields"]:
                parts.append("extend type %s { %s: Int }" % (t["name"], t["fields"][0]["name"]))   # duplicate field
        elif k < 0.97 and objs:
            parts.append("extend type %s { unknown_ref_%d: Nope%d }" % (rng.choice(objs)["name"], n, n))  # SDLError
        else:
            parts.append("extend type Missing%d { a: Int }" % n)       # ExtensionError
    # de-duplicate extensions of the same target producing duplicate members
    seen, out = set(), []
    for p in parts:
        if p not in seen:
            seen.add(p)
            out.append(p)
    if not out:
        out.append("extend type Query { ext_q_%d: String }" % n)
    return "\n".join(out)


def gen_steps(rng, dump, max_len=6):
    """history over the source described by `dump` (its observe dump).
    `on`: 0 = source, k = result of step k (1-based) if that step produced one."""
    types, fields, in_fields, args, dirs, evs = _names(dump)
    steps = []
    n = rng.randint(1, max_len)
    for i in range(n):
        prev = [0] + [j + 1 for j, s in enumerate(steps)]
        on = 0 if rng.random() < 0.6 else rng.choice(prev)
        k = rng.random()
        if k < 0.15:
            st = {"op": "clone", "on": on}
        elif k < 0.45:
            rate = rng.choice([0.05, 0.1, 0.25])
            hidden = _pick(rng, [t for t in types if t != "Query" or rng.random() < 0.05], rate)
            mode = rng.random()
            if mode < 0.25:
                # deny-list that also names specified scalars / introspection types (which the
                # transform must never hide: _is_type_visible short-circuits on them)
                hidden = hidden + rng.sample(SCALARS, rng.randint(1, 3)) + \
                    ([rng.choice(INTROSPECTION_NAMES)] if rng.random() < 0.5 else [])
            elif mode < 0.4:
                # allow-list over all type names: everything not listed is rejected by the predicate
                allow = {t for t in types + SCALARS if rng.random() < 0.85} | {"Query"}
                hidden = [t for t in types + SCALARS + INTROSPECTION_NAMES if t not in allow]
            only_protected = mode < 0.4 and rng.random() < 0.3
            if only_protected:
                hidden = [t for t in hidden if t in SCALARS or t in INTROSPECTION_NAMES]
                rate = 0.0
            st = {"op": "vis", "on": on,
                  "types": hidden,
                  "fields": _pick(rng, fields, rate),
                  "input_fields": _pick(rng, in_fields, rate),
                  "args": _pick(rng, args, rate / 2),
                  "enum_values": _pick(rng, evs, rate / 2),
                  "directives": _pick(rng, dirs, rate)}
        elif k < 0.62:
            st = {"op": "camel", "on": on}
        elif k < 0.78:
            st = {"op": "sdir", "on": on}
        elif k < 0.88:
            st = {"op": "extend", "on": on, "doc": gen_extension(rng, dump, i)}
        elif k < 0.94:
            st = {"op": "swap", "on": on, "names": rng.sample(types, min(len(types), rng.randint(1, 3)))}
        else:
            cands = [t for t in types]
            rng.shuffle(cands)
            k2 = rng.randint(1, min(3, len(cands)))
            chosen = cands[:k2]
            st = {"op": "replace", "on": on, "rebuild": chosen[:max(1, k2 - 1)] if rng.random() < 0.7 else chosen,
                  "same": chosen[max(1, k2 - 1):] if k2 > 1 else []}
        if st["op"] in ("vis", "camel", "sdir") and on != 0 and rng.random() < 0.3:
            st["inplace"] = True                      # visitor applied without clone to an earlier result
        if rng.random() < 0.5:
            st["use"] = True                          # the target is used (variables coerced, derived maps read) first
        steps.append(st)
    return steps
