# -*- coding: utf-8 -*-
"""Generators for C05/C06: schemas (SDL text, <= 8 own types plus a fixed
anchor part, all kinds), valid-by-construction executable documents as light
trees, labelled single-rule violators, free mutants, metamorphic variants,
renderers with trivia styles, variables and resolver worlds.

Tree forms
  doc  = {"defs": [op | frag | raw]}
  op   = {"kind": "op", "op": "query|mutation|subscription", "name": str|None,
          "vars": [{"name", "type", "default": val|None}], "dirs": [dir], "sels": [sel]}
  frag = {"kind": "frag", "name", "on", "dirs", "sels"}
  raw  = {"kind": "raw", "text"}
  sel  = {"k": "field", "alias", "name", "args": [[n, val]], "dirs", "sels": None|[sel]}
       | {"k": "spread", "name", "dirs"} | {"k": "inline", "on": None|str, "dirs", "sels"}
  dir  = {"name", "args": [[n, val]]}
  val  = ["int", "1"] | ["float", "1.5"] | ["str", "abc"] | ["bstr", "abc"] | ["bool", True]
       | ["null"] | ["enum", "RED"] | ["var", "v1"] | ["list", [val]] | ["obj", [[n, val]]]
"""
import copy
import itertools

from py_gql.schema import (
    EnumType,
    InputObjectType,
    InterfaceType,
    ListType,
    NonNullType,
    ObjectType,
    ScalarType,
    UnionType,
    unwrap_type,
)

RULES = [
    "ExecutableDefinitions", "UniqueOperationName", "LoneAnonymousOperation",
    "SingleFieldSubscriptions", "KnownTypeNames", "FragmentsOnCompositeTypes",
    "VariablesAreInputTypes", "ScalarLeafs", "FieldsOnCorrectType", "UniqueFragmentNames",
    "KnownFragmentNames", "NoUnusedFragments", "PossibleFragmentSpreads", "NoFragmentCycles",
    "UniqueVariableNames", "NoUndefinedVariables", "NoUnusedVariables", "KnownDirectives",
    "UniqueDirectivesPerLocation", "KnownArgumentNames", "UniqueArgumentNames",
    "ValuesOfCorrectType", "ProvidedRequiredArguments", "VariablesInAllowedPosition",
    "OverlappingFieldsCanBeMerged", "UniqueInputFieldNames",
]

# ------------------------------------------------------------------ schemas
ANCHOR = """
input AnchorIn2 { v: Int, w: [String] }
input AnchorSpan { lo: Int!, hi: Int! }
input AnchorRange { start: Int!, stop: Int!, unit: AnchorEnum!, step: Int = 1, note: String, span: AnchorSpan, spans: [AnchorSpan!] }
input AnchorIn { a: Int, b: String = "x", r: Boolean!, nested: AnchorIn2, l: [Int!], nn: AnchorIn2! = {v: 1} }
enum AnchorEnum { ONE TWO THREE }
scalar AnchorScalar
type AnchorObj { id: ID!, name: String, count: Int, self: AnchorObj, others(first: Int = 3): [AnchorObj!] }
directive @anchor(n: Int!, t: String) on FIELD | FRAGMENT_SPREAD | INLINE_FRAGMENT | QUERY | MUTATION | SUBSCRIPTION | FRAGMENT_DEFINITION
"""
ANCHOR_FIELD = ("anchor(i: Int, req: Int!, nd: Int! = 7, inp: AnchorIn, inn: AnchorIn2!, lst: [Int], ll: [[Int]], lnn: [Int!]!, "
                "e: AnchorEnum = ONE, sc: AnchorScalar, s: String, f: Float, b: Boolean, id: ID, li: [AnchorIn2!], "
                "rg: AnchorRange, rgs: [AnchorRange!]): AnchorObj")

_SCALARS = ["Int", "Float", "String", "Boolean", "ID"]


def _wrap(rng, name, depth=2, allow_nonnull=True):
    t = name
    for _ in range(rng.randint(0, depth)):
        c = rng.random()
        if c < 0.35 and allow_nonnull and not t.endswith("!"):
            t = t + "!"
        elif c < 0.7:
            t = "[" + t + "]"
    return t


def gen_schema(rng):
    """SDL of a schema: the anchor part plus up to 8 random types of all kinds."""
    n_obj = rng.randint(2, 3)
    n_iface = rng.randint(1, 2)
    objs = ["Ob%d" % i for i in range(n_obj)]
    ifaces = ["If%d" % i for i in range(n_iface)]
    enum, inp, inp2, scal, union = "En0", "In0", "In1", "Sc0", "Un0"
    in_types = _SCALARS + [enum, scal, "AnchorEnum"]
    out_leaf = _SCALARS + [enum, scal]
    composite = objs + ifaces + [union, "AnchorObj"]
    lines = [ANCHOR]
    lines.append("scalar %s" % scal)
    evals = rng.sample(["RED", "GREEN", "BLUE", "CYAN", "MAGENTA"], rng.randint(2, 4))
    lines.append("enum %s { %s }" % (enum, " ".join(evals)))

    in_fields = {"AnchorIn": [("r", "Boolean!", None)], "AnchorIn2": [],
                 "AnchorSpan": [("lo", "Int!", None), ("hi", "Int!", None)],
                 "AnchorRange": [("start", "Int!", None), ("stop", "Int!", None), ("unit", "AnchorEnum!", None)]}

    def lit(t):
        # a literal for input type expression t
        if t.endswith("!"):
            return lit(t[:-1])
        if t.startswith("["):
            return "[" + ", ".join(lit(t[1:-1]) for _ in range(rng.randint(0, 2))) + "]"
        if t in in_fields:
            fs = [(n, ft) for n, ft, dflt in in_fields[t] if (ft.endswith("!") and dflt is None) or rng.random() < 0.3]
            return "{" + ", ".join("%s: %s" % (n, lit(ft)) for n, ft in fs) + "}"
        return {"Int": "7", "Float": "1.5", "String": '"d"', "Boolean": "true", "ID": '"i1"',
                enum: evals[0], scal: '"sc"', "AnchorEnum": "TWO"}[t]

    def args(pool, k):
        out = []
        for j in range(k):
            t = _wrap(rng, rng.choice(pool))
            d = ""
            if rng.random() < 0.35:
                d = " = " + lit(t)
            out.append("a%d: %s%s" % (j, t, d))
        return ("(" + ", ".join(out) + ")") if out else ""

    # input objects (non recursive: SDL recursion is not buildable in the unchanged tree)
    f2 = [("p", "Int", None), ("t", _wrap(rng, rng.choice(in_types)), None)]
    if rng.random() < 0.5:
        f2.append(("u", "String", '"u"'))
    # 2-4 required fields (non-null, no default) among the optional ones, in a random declaration order
    f2 += rng.sample([("ra", "Int!", None), ("rb", "String!", None), ("rc", enum + "!", None), ("rd", "Boolean!", None)],
                     rng.randint(2, 4))
    rng.shuffle(f2)
    in_fields[inp2] = f2
    f1 = [("q", "Int", None), ("n", _wrap(rng, inp2), None), ("x", _wrap(rng, rng.choice(in_types)), None)]
    if rng.random() < 0.6:
        f1.append(("m", enum + "!", evals[-1]))
    in_fields[inp] = f1
    for nm in (inp2, inp):
        lines.append("input %s { %s }" % (nm, " ".join(
            "%s: %s%s" % (n, ft, (" = " + dflt) if dflt else "") for n, ft, dflt in in_fields[nm])))
    in_all = in_types + [inp, inp2, "AnchorIn", "AnchorIn2", "AnchorRange", "AnchorSpan"]

    def out_type():
        if rng.random() < 0.5:
            return _wrap(rng, rng.choice(out_leaf))
        return _wrap(rng, rng.choice(composite))

    iface_fields = {}
    for i, it in enumerate(ifaces):
        fs = ["i%dname%s: %s" % (i, args(in_all, rng.randint(0, 1)), _wrap(rng, rng.choice(out_leaf), 1))]
        for j in range(rng.randint(0, 2)):
            fs.append("i%df%d%s: %s" % (i, j, args(in_all, rng.randint(0, 2)), out_type()))
        iface_fields[it] = fs
        lines.append("interface %s { %s }" % (it, " ".join(fs)))
    impl = {}
    for o in objs:
        mine = [it for it in ifaces if rng.random() < 0.6]
        impl[o] = mine
        fs = []
        for it in mine:
            fs.extend(iface_fields[it])
        # own fields draw their names from a small pool so that different
        # objects carry equally named fields of (often) different types
        for nm in rng.sample(["fa", "fb", "fc", "fd"], rng.randint(1, 3)):
            fs.append("%s%s: %s" % (nm, args(in_all, rng.randint(0, 2)), out_type()))
        hdr = "type %s%s" % (o, (" implements " + " & ".join(mine)) if mine else "")
        lines.append("%s { %s }" % (hdr, " ".join(fs)))
    members = rng.sample(objs, rng.randint(1, len(objs)))
    if rng.random() < 0.5:
        members.append("AnchorObj")
    lines.append("union %s = %s" % (union, " | ".join(members)))
    # an interface without implementation is legal; make sure If0 has one
    qf = [ANCHOR_FIELD]
    for j, c in enumerate(composite):
        qf.append("q%d%s: %s" % (j, args(in_all, rng.randint(0, 2)), _wrap(rng, c)))
    for j in range(rng.randint(1, 3)):
        qf.append("s%d%s: %s" % (j, args(in_all, rng.randint(0, 3)), _wrap(rng, rng.choice(out_leaf))))
    lines.append("type Query { %s }" % " ".join(qf))
    roots = ["query: Query"]
    if rng.random() < 0.7:
        lines.append("type Mutation { set%s: %s bump(by: Int! = 1): Int }" % (
            args(in_all, rng.randint(1, 2)), _wrap(rng, rng.choice(composite), 1)))
        roots.append("mutation: Mutation")
    if rng.random() < 0.7:
        lines.append("type Subscription { tick(n: Int): Int ev%s: %s }" % (
            args(in_all, rng.randint(0, 1)), rng.choice(objs + ["AnchorObj"])))
        roots.append("subscription: Subscription")
    lines.append("directive @d0(x: %s, y: Int! = 2) on FIELD | INLINE_FRAGMENT | FRAGMENT_SPREAD | QUERY" % enum)
    lines.append("schema { %s }" % " ".join(roots))
    return "\n".join(lines)


# --------------------------------------------------------------- rendering
STYLES = ["plain", "commas", "lines", "comments", "tight"]


def r_val(v, st="plain"):
    k = v[0]
    if k in ("int", "float", "enum"):
        return v[1]
    if k == "str":
        return '"%s"' % v[1]
    if k == "bstr":
        return '"""%s"""' % v[1]
    if k == "bool":
        return "true" if v[1] else "false"
    if k == "null":
        return "null"
    if k == "var":
        return "$" + v[1]
    sep = ", " if st in ("plain", "commas", "comments") else " "
    if k == "list":
        return "[" + sep.join(r_val(x, st) for x in v[1]) + "]"
    if k == "obj":
        return "{" + sep.join("%s: %s" % (n, r_val(x, st)) for n, x in v[1]) + "}"
    raise ValueError(v)


def r_args(args, st):
    if not args:
        return ""
    sep = ", " if st in ("plain", "commas", "comments") else " "
    colon = ":" if st == "tight" else ": "
    return "(" + sep.join("%s%s%s" % (n, colon, r_val(v, st)) for n, v in args) + ")"


def r_dirs(dirs, st):
    return "".join(" @%s%s" % (d["name"], r_args(d["args"], st)) for d in dirs)


def r_sels(sels, st, ind):
    if st == "lines" or st == "comments":
        nl, pad = "\n", "  " * ind
    else:
        nl, pad = " ", ""
    sep = "," if st == "commas" else ""
    parts = []
    for i, x in enumerate(sels):
        if x["k"] == "field":
            t = (x["alias"] + (":" if st == "tight" else ": ") if x["alias"] else "") + x["name"]
            t += r_args(x["args"], st) + r_dirs(x["dirs"], st)
            if x["sels"] is not None:
                t += " " + r_sels(x["sels"], st, ind + 1)
        elif x["k"] == "spread":
            t = "..." + x["name"] + r_dirs(x["dirs"], st)
        else:
            t = "..." + ((" on " + x["on"]) if x["on"] else "") + r_dirs(x["dirs"], st) + " " + r_sels(x["sels"], st, ind + 1)
        if st == "comments" and i % 2 == 0:
            t += " # c%d" % i
        parts.append(pad + t + (sep if i + 1 < len(sels) else ""))
    return "{" + nl + nl.join(parts) + nl + ("  " * (ind - 1) if nl == "\n" else "") + "}"


def r_def(d, st):
    if d["kind"] == "raw":
        return d["text"]
    if d["kind"] == "frag":
        return "fragment %s on %s%s %s" % (d["name"], d["on"], r_dirs(d["dirs"], st), r_sels(d["sels"], st, 1))
    head = ""
    if d["name"] is not None or d["vars"] or d["dirs"] or d["op"] != "query" or d.get("explicit"):
        head = d["op"] + ((" " + d["name"]) if d["name"] else "")
        if d["vars"]:
            sep = ", " if st in ("plain", "commas", "comments") else " "
            head += "(" + sep.join(
                "$%s: %s%s" % (v["name"], v["type"], (" = " + r_val(v["default"], st)) if v["default"] else "")
                for v in d["vars"]) + ")"
        head += r_dirs(d["dirs"], st) + " "
    return head + r_sels(d["sels"], st, 1)


def render(doc, st="plain"):
    sep = "\n\n" if st in ("lines", "comments") else "\n"
    pre = "# leading comment\n" if st == "comments" else ""
    return pre + sep.join(r_def(d, st) for d in doc["defs"])


# ------------------------------------------------------ document generator
def tstr(t):
    return str(t)


class DocGen:
    def __init__(self, rng, schema):
        self.rng = rng
        self.schema = schema
        self.frags = []          # completed fragment trees
        self.frag_vars = {}      # fragment name -> set of variable names used inside (direct)
        self.vars = {}           # variable name -> {"type": str, "default": val|None}
        self.nalias = 0
        self.nfrag = 0
        self.cur_vars = None     # set collecting variables of the definition under construction
        self.cur_spreads = None
        self.frag_spreads = {}
        self.const = False

    # ---- values
    def value(self, t, depth=0, loc_default=False):
        rng = self.rng
        if isinstance(t, NonNullType):
            if loc_default and not self.const and rng.random() < 0.35:
                # a nullable variable is allowed at a non-null position that has a default
                return self.var_for(t.type, False)
            return self.value_nn(t.type, depth, True)
        if rng.random() < 0.08:
            return ["null"]
        return self.value_nn(t, depth, False)

    def var_for(self, t, nonnull_pos):
        # a variable whose declared type fits a position of type t
        ts = tstr(t) + ("!" if nonnull_pos else "")
        cands = [n for n, v in self.vars.items() if v["type"] == ts]
        if cands and self.rng.random() < 0.6:
            n = self.rng.choice(cands)
        else:
            n = "v%d" % len(self.vars)
            default = None
            if self.rng.random() < 0.3:
                self.const = True
                default = self.value_nn(t, 2, nonnull_pos)
                self.const = False
            self.vars[n] = {"type": ts, "default": default}
        self.cur_vars.add(n)
        return ["var", n]

    def value_nn(self, t, depth, nonnull_pos):
        rng = self.rng
        if not self.const and rng.random() < 0.2:
            return self.var_for(t, nonnull_pos)
        if isinstance(t, ListType):
            if rng.random() < 0.15 and not isinstance(t.type, (ListType,)):
                inner = t.type.type if isinstance(t.type, NonNullType) else t.type
                if not isinstance(inner, ListType):
                    # a bare item is coerced to a one element list; a variable of the
                    # item type is not allowed there, so no variable in this branch
                    saved, self.const = self.const, True
                    v = self.value_nn(inner, depth + 1, isinstance(t.type, NonNullType))
                    self.const = saved
                    return v
            return ["list", [self.value(t.type, depth + 1) for _ in range(rng.randint(0, 2 if depth else 3))]]
        if isinstance(t, InputObjectType):
            fs = []
            for f in t.fields:
                if f.required or rng.random() < (0.6 if depth < 2 else 0.2):
                    fs.append([f.name, self.value(f.type, depth + 1, f.has_default_value)])
            rng.shuffle(fs)
            return ["obj", fs]
        if isinstance(t, EnumType):
            return ["enum", rng.choice([v.name for v in t.values])]
        n = t.name
        if n == "Int":
            return ["int", str(rng.choice([0, 1, -3, 42, 2147483646, -2147483647]))]
        if n == "Float":
            return rng.choice([["float", "1.5"], ["float", "-2.0e3"], ["int", "3"]])
        if n == "String":
            return rng.choice([["str", "abc"], ["str", ""], ["bstr", "block text"]])
        if n == "Boolean":
            return ["bool", rng.random() < 0.5]
        if n == "ID":
            return rng.choice([["str", "id1"], ["int", "12"]])
        # custom scalar: any scalar literal
        return rng.choice([["int", "5"], ["str", "cs"], ["bool", True], ["float", "0.5"], ["enum", "ANY"]])

    def args_for(self, adefs):
        out = []
        for a in adefs:
            if a.required or self.rng.random() < 0.45:
                out.append([a.name, self.value(a.type, 0, a.has_default_value)])
        self.rng.shuffle(out)
        return out

    def dirs_for(self, loc):
        rng, out = self.rng, []
        if rng.random() < 0.2 and loc in ("FIELD", "FRAGMENT_SPREAD", "INLINE_FRAGMENT"):
            nm = rng.choice(["skip", "include"])
            c = ["bool", rng.random() < 0.5] if rng.random() < 0.6 else self.var_for(self.schema.types["Boolean"], True)
            out.append({"name": nm, "args": [["if", c]]})
        if rng.random() < 0.1:
            for dn in ("anchor", "d0"):
                d = self.schema.directives.get(dn)
                if d is not None and loc in d.locations and rng.random() < 0.5:
                    out.append({"name": dn, "args": self.args_for(d.arguments)})
        return out

    # ---- selections
    def possible(self, t):
        """object type names a composite type can stand for (computed here, not
        with the implementation's types_overlap)"""
        if isinstance(t, ObjectType):
            return {t.name}
        if isinstance(t, UnionType):
            return {x.name for x in t.types}
        return {o.name for o in self.schema.types.values()
                if isinstance(o, ObjectType) and any(i.name == t.name for i in (o.interfaces or []))}

    def overlap(self, a, b):
        return a.name == b.name or bool(self.possible(a) & self.possible(b))

    def overlapping(self, t):
        return [c for c in self.schema.types.values()
                if isinstance(c, (ObjectType, InterfaceType, UnionType)) and not c.name.startswith("__")
                and self.overlap(c, t)]

    def exclusive_merge(self, parent):
        """two inline fragments on different object types giving one response key
        to different fields / different arguments: valid only because the parents
        can never apply together"""
        objs = sorted(self.possible(parent))
        if len(objs) < 2:
            return []
        a, b = self.rng.sample(objs, 2)
        ta, tb = self.schema.types[a], self.schema.types[b]
        key = self.alias()
        leafs = [f for f in tb.fields if not isinstance(unwrap_type(f.type), (ObjectType, InterfaceType, UnionType))]
        common = [f for f in ta.fields if f.name in tb.field_map and f.arguments
                  and str(f.type) == str(tb.field_map[f.name].type)
                  and not isinstance(unwrap_type(f.type), (ObjectType, InterfaceType, UnionType))]
        if common and self.rng.random() < 0.5:
            f = self.rng.choice(common)
            s1 = {"k": "field", "alias": key, "name": f.name, "args": self.args_for(f.arguments), "dirs": [], "sels": None}
            s2 = {"k": "field", "alias": key, "name": f.name, "args": self.args_for(tb.field_map[f.name].arguments),
                  "dirs": [], "sels": None}
        elif leafs:
            f = self.rng.choice(leafs)
            s1 = {"k": "field", "alias": key, "name": "__typename", "args": [], "dirs": [], "sels": None}
            s2 = {"k": "field", "alias": key, "name": f.name, "args": self.args_for(f.arguments), "dirs": [], "sels": None}
        else:
            return []
        return [{"k": "inline", "on": a, "dirs": [], "sels": [s1]}, {"k": "inline", "on": b, "dirs": [], "sels": [s2]}]

    def alias(self):
        self.nalias += 1
        return "k%d" % self.nalias

    def field(self, parent, depth):
        rng = self.rng
        fields = list(parent.fields) if isinstance(parent, (ObjectType, InterfaceType)) else []
        if not fields or rng.random() < 0.1:
            return {"k": "field", "alias": self.alias() if rng.random() < 0.5 else None, "name": "__typename",
                    "args": [], "dirs": self.dirs_for("FIELD"), "sels": None}
        f = rng.choice(fields)
        nt = unwrap_type(f.type)
        sub = None
        if isinstance(nt, (ObjectType, InterfaceType, UnionType)):
            sub = self.selset(nt, depth + 1)
        return {"k": "field", "alias": self.alias(), "name": f.name, "args": self.args_for(f.arguments),
                "dirs": self.dirs_for("FIELD"), "sels": sub}

    def selset(self, parent, depth):
        rng = self.rng
        n = rng.randint(1, 3 if depth < 2 else 2)
        out = []
        for _ in range(n):
            c = rng.random()
            if depth >= 4 or c < 0.6 and not isinstance(parent, UnionType):
                if depth >= 4:
                    out.append({"k": "field", "alias": self.alias(), "name": "__typename", "args": [],
                                "dirs": [], "sels": None})
                else:
                    out.append(self.field(parent, depth))
            elif c < 0.8:
                on = None
                t = parent
                if rng.random() < 0.7:
                    t = rng.choice(self.overlapping(parent))
                    on = t.name
                out.append({"k": "inline", "on": on, "dirs": self.dirs_for("INLINE_FRAGMENT"),
                            "sels": self.selset(t, depth + 1)})
            else:
                out.append(self.spread(parent, depth))
        if rng.random() < 0.35:
            out.extend(self.exclusive_merge(parent))
        sps = [x for x in out if x["k"] == "spread"]
        if sps and rng.random() < 0.3:
            # the same fragment spread again (adjacent or separated), with its own directives
            again = {"k": "spread", "name": rng.choice(sps)["name"], "dirs": self.dirs_for("FRAGMENT_SPREAD")}
            out.insert(rng.randint(0, len(out)), again)
        # same-key merges: repeat a field verbatim (possibly with another sub selection)
        if rng.random() < 0.25:
            fs = [x for x in out if x["k"] == "field"]
            if fs:
                dup = copy.deepcopy(rng.choice(fs))
                if dup["sels"] is not None and rng.random() < 0.6:
                    f = None
                    if isinstance(parent, (ObjectType, InterfaceType)):
                        f = parent.field_map.get(dup["name"])
                    if f is not None:
                        saved = self.cur_vars
                        dup["sels"] = self.selset(unwrap_type(f.type), depth + 1)
                        self.cur_vars = saved
                dup["dirs"] = []
                out.insert(rng.randint(0, len(out)), dup)
        return out

    def spread(self, parent, depth):
        rng = self.rng
        ok = [f for f in self.frags if self.overlap(self.schema.types[f["on"]], parent)]
        if ok and rng.random() < 0.5:
            f = rng.choice(ok)
        else:
            f = self.new_fragment(rng.choice(self.overlapping(parent)), depth)
        self.cur_spreads.add(f["name"])
        return {"k": "spread", "name": f["name"], "dirs": self.dirs_for("FRAGMENT_SPREAD")}

    def new_fragment(self, t, depth):
        self.nfrag += 1
        name = self.rng.choice(["Frag", "F", "Part", "Xy"]) + str(self.nfrag)
        saved_v, saved_s = self.cur_vars, self.cur_spreads
        self.cur_vars, self.cur_spreads = set(), set()
        dirs = []
        if self.rng.random() < 0.1:
            d = self.schema.directives["anchor"]
            dirs = [{"name": "anchor", "args": self.args_for(d.arguments)}]
        f = {"kind": "frag", "name": name, "on": t.name, "dirs": dirs, "sels": self.selset(t, depth + 1)}
        self.frag_vars[name], self.frag_spreads[name] = self.cur_vars, self.cur_spreads
        self.cur_vars, self.cur_spreads = saved_v, saved_s
        self.frags.append(f)
        return f

    def fragment_merge(self, root):
        """one named fragment spread under two or three sibling parents and merged
        there with *different* direct selections of the same response key that have
        the same number of selections, the fragment's node coming first"""
        rng = self.rng
        cands = []
        for qf in root.fields:
            t = unwrap_type(qf.type)
            if isinstance(t, (ObjectType, InterfaceType)):
                for f in t.fields:
                    u = unwrap_type(f.type)
                    if isinstance(u, (ObjectType, InterfaceType, UnionType)) and not any(a.required for a in f.arguments):
                        cands.append((qf, t, f, u))
        if not cands:
            return []
        qf, t, f, u = rng.choice(cands)
        key = self.alias()
        pool = [x for x in (u.fields if isinstance(u, (ObjectType, InterfaceType)) else [])
                if not isinstance(unwrap_type(x.type), (ObjectType, InterfaceType, UnionType))
                and not any(a.required for a in x.arguments)]

        def leafs(n):
            out = []
            for _ in range(n):
                nm = rng.choice(pool).name if pool and rng.random() < 0.6 else "__typename"
                out.append({"k": "field", "alias": self.alias(), "name": nm, "args": [], "dirs": [], "sels": None})
            return out

        self.nfrag += 1
        name = "Mg%d" % self.nfrag
        self.frags.append({"kind": "frag", "name": name, "on": t.name, "dirs": [], "sels": [
            {"k": "field", "alias": key, "name": f.name, "args": [], "dirs": [], "sels": leafs(rng.randint(1, 2))}]})
        self.frag_vars[name], self.frag_spreads[name] = set(), set()
        self.cur_spreads.add(name)
        n = rng.randint(1, 2)
        out = []
        for _ in range(rng.randint(2, 3)):
            out.append({"k": "field", "alias": self.alias(), "name": qf.name, "args": self.args_for(qf.arguments),
                        "dirs": [], "sels": [
                            {"k": "spread", "name": name, "dirs": []},
                            {"k": "field", "alias": key, "name": f.name, "args": [], "dirs": [], "sels": leafs(n)}]})
        return out

    def closure(self, names):
        seen, todo = set(), list(names)
        while todo:
            n = todo.pop()
            if n in seen:
                continue
            seen.add(n)
            todo.extend(self.frag_spreads.get(n, ()))
        return seen

    def operation(self, kind, name):
        root = {"query": self.schema.query_type, "mutation": self.schema.mutation_type,
                "subscription": self.schema.subscription_type}[kind]
        self.cur_vars, self.cur_spreads = set(), set()
        if kind == "subscription":
            sels = [self.field(root, 0)]
            if sels[0]["name"] == "__typename":
                sels[0]["dirs"] = []
        else:
            sels = self.selset(root, 0)
            if self.rng.random() < 0.35:
                sels.extend(self.fragment_merge(root))
        dirs = []
        if self.rng.random() < 0.15:
            d = self.schema.directives["anchor"]
            dirs = [{"name": "anchor", "args": self.args_for(d.arguments)}]
        op = {"kind": "op", "op": kind, "name": name, "vars": [], "dirs": dirs, "sels": sels,
              "explicit": self.rng.random() < 0.3}
        return op, set(self.cur_vars), set(self.cur_spreads)

    def document(self):
        rng = self.rng
        nops = rng.choice([1, 1, 1, 2, 3])
        kinds = ["query"]
        if self.schema.mutation_type is not None:
            kinds.append("mutation")
        if self.schema.subscription_type is not None:
            kinds.append("subscription")
        ops = []
        for i in range(nops):
            kind = rng.choice(kinds) if rng.random() < 0.4 else "query"
            name = None if (nops == 1 and rng.random() < 0.5) else "Op%d" % i
            ops.append(self.operation(kind, name))
        defs = []
        for op, vs, sp in ops:
            used = set(vs)
            for f in self.closure(sp):
                used |= self.frag_vars[f]
            op["vars"] = [{"name": n, "type": self.vars[n]["type"], "default": self.vars[n]["default"]}
                          for n in sorted(used)]
            for v in op["vars"]:
                if nops > 1 and v["default"] is None and not v["type"].endswith("!") and rng.random() < 0.3:
                    v["type"] += "!"
            rng.shuffle(op["vars"])
            defs.append(op)
        defs.extend(self.frags)
        rng.shuffle(defs)
        return {"defs": defs}


def gen_document(rng, schema):
    doc = DocGen(rng, schema).document()
    if rng.random() < 0.6:
        doc = decorate_sole_use(rng, doc)
    return doc


# ------------------------------------------------------- tree navigation
def all_selsets(doc):
    """every selection list of the document with the definition holding it"""
    out = []

    def walk(sels, d):
        out.append((sels, d))
        for x in sels:
            if x["k"] != "spread" and x.get("sels") is not None:
                walk(x["sels"], d)

    for d in doc["defs"]:
        if d["kind"] != "raw":
            walk(d["sels"], d)
    return out


def all_nodes(doc, k):
    return [x for sels, _ in all_selsets(doc) for x in sels if x["k"] == k]


def arg_holders(doc):
    """every node with an argument list: fields and directives anywhere"""
    out = []
    for d in doc["defs"]:
        if d["kind"] == "raw":
            continue
        out.extend(d["dirs"])
    for sels, _ in all_selsets(doc):
        for x in sels:
            if x["k"] == "field":
                out.append(x)
            out.extend(x["dirs"])
    return out


def ops_of(doc):
    return [d for d in doc["defs"] if d["kind"] == "op"]


def frags_of(doc):
    return [d for d in doc["defs"] if d["kind"] == "frag"]


def _anchor_field(rng, extra=None):
    args = [["req", ["int", "1"]], ["inn", ["obj", [["v", ["int", "2"]]]]], ["lnn", ["list", [["int", "3"]]]]]
    if extra:
        args.extend(extra)
    return {"k": "field", "alias": "z%d" % rng.randint(100, 999), "name": "anchor", "args": args, "dirs": [],
            "sels": [{"k": "field", "alias": None, "name": "id", "args": [], "dirs": [], "sels": None}]}


def _query_op(doc, rng):
    """a query operation of the document (adds one when there is none)"""
    qs = [o for o in ops_of(doc) if o["op"] == "query"]
    if qs:
        return rng.choice(qs)
    o = {"kind": "op", "op": "query", "name": "ZQ", "vars": [], "dirs": [], "sels": [_anchor_field(rng)]}
    for x in ops_of(doc):
        if x["name"] is None:
            x["name"] = "ZAnon"
    doc["defs"].append(o)
    return o


def variable_position_forms(rng):
    """(label, [definitions]) -- documents breaking VariablesInAllowedPosition at exactly one
    of several usages of one variable: a nullable default-less variable at a non-null
    position with a default (allowed) and at one without (not allowed), in both orders,
    within one field, across fields, split between operation and fragment; and operations
    sharing a fragment while declaring its variable with different types, in both orders"""
    out = []

    def anc(alias, extra, dirs=None):
        a = _anchor_field(rng, None)
        a["alias"] = alias
        names = {x[0] for x in extra}
        a["args"] = [x for x in a["args"] if x[0] not in names] + extra
        a["dirs"] = dirs or []
        return a

    zv = [{"name": "zv", "type": "Int", "default": None}]
    v = ["var", "zv"]
    lenient, strict = ["nd", v], ["req", v]
    for order in (0, 1):
        pair = [lenient, strict] if order == 0 else [strict, lenient]
        out.append(("one-field-%d" % order,
                    [{"kind": "op", "op": "query", "name": "ZV", "vars": copy.deepcopy(zv), "dirs": [],
                      "sels": [anc("zb", copy.deepcopy(pair))]}]))
        two = [anc("zl", [copy.deepcopy(lenient)]), anc("zs", [copy.deepcopy(strict)])]
        if order:
            two.reverse()
        out.append(("two-fields-%d" % order,
                    [{"kind": "op", "op": "query", "name": "ZV", "vars": copy.deepcopy(zv), "dirs": [], "sels": two}]))
        inop, infrag = (lenient, strict) if order == 0 else (strict, lenient)
        sels = [anc("zo", [copy.deepcopy(inop)]), {"k": "spread", "name": "ZFq", "dirs": []}]
        if rng.random() < 0.5:
            sels.reverse()
        out.append(("op-and-fragment-%d" % order,
                    [{"kind": "op", "op": "query", "name": "ZV", "vars": copy.deepcopy(zv), "dirs": [], "sels": sels},
                     {"kind": "frag", "name": "ZFq", "on": "Query", "dirs": [], "sels": [anc("zf", [copy.deepcopy(infrag)])]}]))
        # input object field with a default (AnchorIn.nn: AnchorIn2! = ...) against the argument inn: AnchorIn2!
        vo = [{"name": "zw", "type": "AnchorIn2", "default": None}]
        args = [["inp", ["obj", [["r", ["bool", True]], ["nn", ["var", "zw"]]]]], ["inn", ["var", "zw"]]]
        if order:
            args.reverse()
        out.append(("input-field-%d" % order,
                    [{"kind": "op", "op": "query", "name": "ZW", "vars": vo, "dirs": [], "sels": [anc("zi", args)]}]))
    shared = {"kind": "frag", "name": "ZShared", "on": "Query", "dirs": [],
              "sels": [anc("za", [], [{"name": "skip", "args": [["if", ["var", "zf"]]]}]),
                       _leaf("zt", "__typename")]}

    def op(name, t, default=None):
        return {"kind": "op", "op": "query", "name": name, "vars": [{"name": "zf", "type": t, "default": default}],
                "dirs": [], "sels": [{"k": "spread", "name": "ZShared", "dirs": []}]}

    strict_op, loose_op, dflt_op = op("ZStrict", "Boolean!"), op("ZLoose", "Boolean"), op("ZDefault", "Boolean", ["bool", False])
    for name, ops in (("shared-compatible-first", [strict_op, loose_op]), ("shared-incompatible-first", [loose_op, strict_op]),
                      ("shared-3-ops-a", [strict_op, dflt_op, loose_op]), ("shared-3-ops-b", [dflt_op, loose_op, strict_op]),
                      ("shared-3-ops-c", [loose_op, strict_op, dflt_op])):
        out.append((name, copy.deepcopy(ops) + [copy.deepcopy(shared)]))
    return out


def namespace_collision_forms(rng):
    """(name, label or None, [definitions]) -- fragment names coinciding with operation,
    variable, alias, field and type names (separate namespaces): valid documents and
    violators of the variable / fragment rules that only a merged namespace would miss"""
    out = []

    def anc(alias, extra=None, sels=None):
        a = _anchor_field(rng, None)
        a["alias"] = alias
        names = {x[0] for x in (extra or [])}
        a["args"] = [x for x in a["args"] if x[0] not in names] + (extra or [])
        if sels is not None:
            a["sels"] = sels
        return a

    def op(name, vars_, sels, kind="query"):
        return {"kind": "op", "op": kind, "name": name, "vars": [{"name": n, "type": t, "default": None} for n, t in vars_],
                "dirs": [], "sels": sels}

    def frag(name, on, sels):
        return {"kind": "frag", "name": name, "on": on, "dirs": [], "sels": sels}

    def sp(n):
        return {"k": "spread", "name": n, "dirs": []}

    uses_a = frag("Foo", "Query", [anc("zf", [["s", ["var", "a"]]])])
    # unused variable in an operation named like a fragment it does not spread
    out.append(("unused-var-op-named-like-fragment", 17,
                [op("Foo", [("a", "String")], [anc("zo")]), op("Bar", [("a", "String")], [sp("Foo")]), copy.deepcopy(uses_a)]))
    out.append(("unused-var-op-named-like-fragment-2", 17,
                [copy.deepcopy(uses_a), op("Bar", [("a", "String")], [sp("Foo")]), op("Foo", [("a", "String")], [anc("zo")])]))
    # valid: the operation named like the fragment declares nothing; the spreading one declares the variable
    out.append(("valid-op-named-like-fragment", None,
                [op("Foo", [], [anc("zo")]), op("Bar", [("a", "String")], [sp("Foo")]), copy.deepcopy(uses_a)]))
    # valid: operation spreads the fragment of its own name
    out.append(("valid-op-spreads-namesake", None, [op("Foo", [("a", "String")], [sp("Foo")]), copy.deepcopy(uses_a)]))
    # undefined variable in the spreading operation, the namesake operation defines it
    out.append(("undefined-var-namesake-defines", 16,
                [op("Foo", [("a", "String")], [anc("zo", [["s", ["var", "a"]]])]), op("Bar", [], [sp("Foo")]), copy.deepcopy(uses_a)]))
    # unused fragment named like an operation
    out.append(("unused-fragment-named-like-operation", 12, [op("Foo", [], [anc("zo")]), frag("Foo", "Query", [anc("zf")])]))
    # variable named like a fragment: unused / undefined
    out.append(("unused-var-named-like-fragment", 17,
                [op("Q", [("Foo", "Int")], [sp("Foo")]), frag("Foo", "Query", [anc("zf")])]))
    out.append(("undefined-var-named-like-fragment", 16,
                [op("Q", [], [sp("v")]), frag("v", "Query", [anc("zf", [["i", ["var", "v"]]])])]))
    # every namespace pair at once (valid): fragment = variable = alias = field = type = operation names
    obj_sels = [sp("anchor"), sp("AnchorObj"), sp("id")]
    out.append(("valid-all-namespaces", None,
                [op("anchor", [("anchor", "String"), ("AnchorObj", "Int"), ("id", "ID")],
                    [anc("anchor", [["s", ["var", "anchor"]], ["i", ["var", "AnchorObj"]], ["id", ["var", "id"]]], obj_sels)]),
                 frag("anchor", "AnchorObj", [_leaf("id", "id"), _leaf("AnchorObj", "name")]),
                 frag("AnchorObj", "AnchorObj", [{"k": "field", "alias": "anchor", "name": "self", "args": [], "dirs": [],
                                                  "sels": [_leaf("id", "id")]}]),
                 frag("id", "AnchorObj", [_leaf("count", "count")])]))
    return out


def repeated_spread_forms(rng):
    """(name, label or None, order, [definitions]) -- one fragment spread 2-3 times in a fragment
    definition / an operation, adjacent or separated, at the same or a nested level, the
    first or the last occurrence carrying a directive that matters to a rule ordered
    after NoFragmentCycles (a SkipNode of one rule hides the node from the later ones)"""
    out = []
    decorations = [("include-var", None, {"name": "include", "args": [["if", ["var", "flag"]]]}),
                   ("unknown-directive", 18, {"name": "nope", "args": []}),
                   ("ill-typed-argument", 22, {"name": "skip", "args": [["if", ["str", "yes"]]]}),
                   ("undefined-variable", 16, {"name": "skip", "args": [["if", ["var", "undefinedv"]]]}),
                   ("missing-argument", 23, {"name": "skip", "args": []})]

    def sp(n, dirs=None):
        return {"k": "spread", "name": n, "dirs": dirs or []}

    leaf = {"kind": "frag", "name": "Rf", "on": "AnchorObj", "dirs": [], "sels": [_leaf(None, "id")]}
    for dname, label, deco in decorations:
        for host in ("fragment", "operation"):
            for shape in ("adjacent", "separated", "three", "nested"):
                for order in (0, 1):
                    plain, marked = sp("Rf"), sp("Rf", [copy.deepcopy(deco)])
                    pair = [plain, marked] if order == 0 else [marked, plain]
                    if shape == "adjacent":
                        sels = pair
                    elif shape == "separated":
                        sels = [pair[0], _leaf("zn", "name"), pair[1]]
                    elif shape == "three":
                        sels = [pair[0], sp("Rf"), _leaf("zn", "name"), pair[1]]
                    else:
                        sels = [pair[0], {"k": "field", "alias": None, "name": "self", "args": [], "dirs": [],
                                          "sels": [_leaf("zc", "count"), pair[1]]}]
                    vars_ = [{"name": "flag", "type": "Boolean!", "default": None}] if dname == "include-var" else []
                    a = _anchor_field(rng)
                    a["alias"] = "zr"
                    if host == "fragment":
                        a["sels"] = [sp("Host")]
                        defs = [{"kind": "op", "op": "query", "name": "RQ", "vars": vars_, "dirs": [], "sels": [a]},
                                {"kind": "frag", "name": "Host", "on": "AnchorObj", "dirs": [], "sels": sels},
                                copy.deepcopy(leaf)]
                    else:
                        a["sels"] = sels
                        defs = [{"kind": "op", "op": "query", "name": "RQ", "vars": vars_, "dirs": [], "sels": [a]},
                                copy.deepcopy(leaf)]
                    out.append(("%s-%s-%s" % (dname, host, shape), label, order, defs))
    return out


def decorate_sole_use(rng, doc):
    """adds, at 1-2 random nodes of a valid document (field, spread, inline fragment,
    operation or fragment definition), a directive whose variable is used nowhere else and
    is declared by every operation reaching the node: if any rule silently skips the node
    for the rules after it, the variable is reported unused by the default validator only"""
    d = copy.deepcopy(doc)
    spreads = {}
    for df in d["defs"]:
        if df["kind"] == "raw":
            continue
        acc = set()

        def walk(sels):
            for x in sels:
                if x["k"] == "spread":
                    acc.add(x["name"])
                elif x.get("sels") is not None:
                    walk(x["sels"])

        walk(df["sels"])
        spreads[id(df)] = acc
    by_name = {df["name"]: df for df in d["defs"] if df["kind"] == "frag"}

    def reaching_ops(holder):
        if holder["kind"] == "op":
            return [holder]
        out = []
        for o in ops_of(d):
            seen, todo = set(), list(spreads[id(o)])
            while todo:
                n = todo.pop()
                if n in seen or n not in by_name:
                    continue
                seen.add(n)
                todo.extend(spreads[id(by_name[n])])
            if holder["name"] in seen:
                out.append(o)
        return out

    for k in range(rng.randint(1, 2)):
        var = "zsole%d" % k
        if rng.random() < 0.25:
            holder = rng.choice([x for x in d["defs"] if x["kind"] != "raw"])
            if any(dr["name"] == "anchor" for dr in holder["dirs"]):
                continue
            holder["dirs"].append({"name": "anchor", "args": [["n", ["int", "1"]], ["t", ["var", var]]]})
            vtype = "String"
            if holder["kind"] == "op":
                holder["explicit"] = True
        else:
            sels, holder = rng.choice(all_selsets(d))
            node = rng.choice(sels)
            if any(dr["name"] == "include" for dr in node["dirs"]):
                continue
            node["dirs"].append({"name": "include", "args": [["if", ["var", var]]]})
            vtype = "Boolean!"
        ops = reaching_ops(holder)
        if not ops:
            return doc
        for o in ops:
            o["vars"].append({"name": var, "type": vtype, "default": None})
    return d


def conflict_placement_forms(rng):
    """(name, [definitions]) -- a response key selected twice with different fields, the two
    carriers placed (field | direct spread | spread inside an inline fragment | spread inside
    nested inline fragments) x (before | after the sibling) x (with | without an earlier
    direct spread) x (sibling field | sibling fragment); every form violates rule 25"""
    out = []

    def sp(n):
        return {"k": "spread", "name": n, "dirs": []}

    def inl(on, sels):
        return {"k": "inline", "on": on, "dirs": [], "sels": sels}

    carrier_frag = {"kind": "frag", "name": "Cx", "on": "AnchorObj", "dirs": [], "sels": [_leaf("x", "id")]}
    nested_frag = [{"kind": "frag", "name": "Cx", "on": "AnchorObj", "dirs": [], "sels": [sp("Cy")]},
                   {"kind": "frag", "name": "Cy", "on": "AnchorObj", "dirs": [], "sels": [_leaf("x", "id")]}]
    sibling_frag = {"kind": "frag", "name": "Sx", "on": "AnchorObj", "dirs": [], "sels": [_leaf("x", "name")]}
    harmless = {"kind": "frag", "name": "Hz", "on": "AnchorObj", "dirs": [], "sels": [_leaf("hz", "count")]}
    carriers = {"field": [_leaf("x", "id")], "spread": [sp("Cx")], "inline-typed": [inl("AnchorObj", [sp("Cx")])],
                "inline-bare": [inl(None, [sp("Cx")])], "nested-inline": [inl("AnchorObj", [inl(None, [sp("Cx")])])]}
    for cname, carrier in carriers.items():
        for sib in ("field", "fragment"):
            for order in ("before", "after"):
                for earlier in (False, True):
                    for deep in (False, True):
                        if deep and cname == "field":
                            continue
                        sibling = [_leaf("x", "name")] if sib == "field" else [sp("Sx")]
                        sels = (copy.deepcopy(carrier) + sibling) if order == "before" else (sibling + copy.deepcopy(carrier))
                        if earlier:
                            sels = [sp("Hz")] + sels
                        a = _anchor_field(rng)
                        a["alias"] = "zc"
                        a["sels"] = sels
                        defs = [{"kind": "op", "op": "query", "name": None, "vars": [], "dirs": [], "sels": [a]}]
                        if cname != "field":
                            defs += copy.deepcopy(nested_frag) if deep else [copy.deepcopy(carrier_frag)]
                        if sib == "fragment":
                            defs.append(copy.deepcopy(sibling_frag))
                        if earlier:
                            defs.append(copy.deepcopy(harmless))
                        out.append(("%s-%s-%s%s%s" % (cname, sib, order, "-earlier" if earlier else "", "-deep" if deep else ""), defs))
    return out


# --------------------------------------------------- labelled violators
def related_value(rng, v):
    """a literal related to v the way two occurrences of one argument may be related: equal,
    input-object fields permuted / a strict subset / a superset / emptied, the same inside lists
    and objects, another spelling of a number, enum name as a string, a variable"""
    v = copy.deepcopy(v)
    k = v[0]
    c = rng.randint(0, 7)
    if k == "obj":
        fs = v[1]
        if c == 0 and len(fs) > 1:
            rng.shuffle(fs)
        elif c == 1 and fs:
            fs.pop(rng.randrange(len(fs)))
        elif c == 2:
            fs.insert(rng.randint(0, len(fs)), [rng.choice(["v", "w", "a", "note", "step", "zz"]),
                                                rng.choice([["int", "1"], ["str", "x"], ["list", []], ["null"]])])
        elif c == 3:
            v[1] = []
        elif c in (4, 5) and fs:
            f = rng.choice(fs)
            f[1] = related_value(rng, f[1])
        return v
    if k == "list":
        if v[1] and c < 5:
            i = rng.randrange(len(v[1]))
            v[1][i] = related_value(rng, v[1][i])
        elif c == 5:
            v[1].append(["int", "1"])
        elif c == 6 and v[1]:
            v[1].pop()
        return v
    if k == "int" and c < 3:
        return ["float", v[1] + ".0"]
    if k == "enum" and c < 3:
        return ["str", v[1]]
    if k == "str" and c < 2:
        return ["enum", "ONE"]
    if c == 3:
        return ["var", "v0"]
    return v


def object_argument_forms(rng):
    """(name, [definitions]) -- one response key selected twice with argument literals that are
    related: equal, input-object fields permuted, a strict subset / superset (both orders),
    empty against non-empty, the same nested in objects and in lists, a variable against a
    literal, two spellings of a number, an enum name against a string, other values, disjoint
    names; directly in one selection set and through an inline fragment"""
    out = []
    o = lambda *fs: ["obj", [list(f) for f in fs]]
    i = lambda n: ["int", str(n)]
    T = ["bool", True]
    pairs = [
        ("equal", "inp", o(("r", T), ("a", i(1))), o(("r", T), ("a", i(1)))),
        ("permuted", "inp", o(("r", T), ("a", i(1))), o(("a", i(1)), ("r", T))),
        ("subset", "inp", o(("r", T)), o(("r", T), ("a", i(1)))),
        ("subset-first-field", "inp", o(("a", i(1))), o(("a", i(1)), ("r", T))),
        ("empty", "inn", o(), o(("v", i(2)))),
        ("subset-list-field", "inn", o(("v", i(1))), o(("v", i(1)), ("w", ["list", [["str", "a"]]]))),
        ("nested-object", "inp", o(("r", T), ("nested", o(("v", i(1))))),
         o(("r", T), ("nested", o(("v", i(1)), ("w", ["list", [["str", "x"]]]))))),
        ("nested-empty", "inp", o(("r", T), ("nested", o())), o(("r", T), ("nested", o(("v", i(1)))))),
        ("in-list", "li", ["list", [o(("v", i(1)))]], ["list", [o(("v", i(1)), ("w", ["list", []]))]]),
        ("in-list-empty", "li", ["list", [o()]], ["list", [o(("v", i(3)))]]),
        ("in-list-second", "li", ["list", [o(("v", i(1))), o(("v", i(2)))]],
         ["list", [o(("v", i(1))), o(("v", i(2)), ("w", ["null"]))]]),
        ("required-fields", "rg", o(("start", i(1)), ("stop", i(2)), ("unit", ["enum", "ONE"])),
         o(("start", i(1)), ("stop", i(2)), ("unit", ["enum", "ONE"]), ("step", i(2)))),
        ("deep", "rg", o(("start", i(1)), ("stop", i(2)), ("unit", ["enum", "ONE"]), ("spans", ["list", [o(("lo", i(1)), ("hi", i(2)))]])),
         o(("start", i(1)), ("stop", i(2)), ("unit", ["enum", "ONE"]), ("spans", ["list", [o(("lo", i(1)), ("hi", i(2)), ("zz", i(0)))]]))),
        ("variable", "inp", o(("r", T), ("a", ["var", "zv"])), o(("r", T), ("a", i(1)))),
        ("variable-object", "inn", ["var", "zo"], o(("v", i(1)))),
        ("number-spelling", "f", i(1), ["float", "1.0"]),
        ("enum-string", "sc", ["enum", "ONE"], ["str", "ONE"]),
        ("other-value", "inn", o(("v", i(1))), o(("v", i(2)))),
        ("disjoint", "inn", o(("v", i(1))), o(("w", ["list", [["str", "a"]]]))),
        ("list-prefix", "ll", ["list", [["list", [i(1)]]]], ["list", [["list", [i(1)]], ["list", [i(2)]]]]),
    ]
    zvars = [{"name": "zv", "type": "Int", "default": None}, {"name": "zo", "type": "AnchorIn2!", "default": None}]

    def anc(val, arg):
        a = _anchor_field(rng, None)
        a["alias"] = "zo"
        a["args"] = [x for x in a["args"] if x[0] != arg] + [[arg, copy.deepcopy(val)]]
        return a

    for name, arg, v1, v2 in pairs:
        for order in (0, 1):
            a, b = (v1, v2) if order == 0 else (v2, v1)
            used = [z for z in zvars if ("$" + z["name"]) in r_val(a) + r_val(b)]
            for place in ("direct", "inline"):
                second = anc(b, arg)
                if place == "inline":
                    second = {"k": "inline", "on": "Query", "dirs": [], "sels": [second]}
                out.append(("%s-%d-%s" % (name, order, place),
                            [{"kind": "op", "op": "query", "name": "ZO", "vars": copy.deepcopy(used), "dirs": [],
                              "sels": [anc(a, arg), second]}]))
    return out


def required_order_forms(rng):
    """(name, [definitions]) -- valid documents writing the required fields of an input object
    in every order (with optional fields in between): as an argument value, as a list item, in
    a nested field, in a nested list, as a variable default"""
    import itertools
    out = []
    i = lambda n: ["int", str(n)]
    req = [["start", i(1)], ["stop", i(10)], ["unit", ["enum", "TWO"]]]

    def anc(extra):
        a = _anchor_field(rng, None)
        a["alias"] = "zr"
        a["args"] = a["args"] + extra
        return a

    def q(extra, vars_=None):
        return [{"kind": "op", "op": "query", "name": "ZR", "vars": vars_ or [], "dirs": [], "sels": [anc(extra)]}]

    for n, perm in enumerate(itertools.permutations(req)):
        fs = [copy.deepcopy(list(x)) for x in perm]
        tag = "".join(x[0][2] for x in fs)
        with_opt = copy.deepcopy(fs)
        with_opt.insert(n % 4, ["note", ["str", "n"]])
        with_opt.insert((n + 2) % 5, ["step", i(2)])
        out.append(("argument-" + tag, q([["rg", ["obj", fs]]])))
        out.append(("argument-optional-" + tag, q([["rg", ["obj", with_opt]]])))
        out.append(("item-" + tag, q([["rgs", ["list", [["obj", copy.deepcopy(req)], ["obj", copy.deepcopy(fs)]]]]])))
        out.append(("bare-item-" + tag, q([["rgs", ["obj", copy.deepcopy(fs)]]])))
        out.append(("default-" + tag, q([["rg", ["var", "zr"]]],
                                        [{"name": "zr", "type": "AnchorRange", "default": ["obj", copy.deepcopy(fs)]}])))
        out.append(("list-default-" + tag, q([["rgs", ["var", "zl"]]],
                                             [{"name": "zl", "type": "[AnchorRange!]", "default": ["list", [["obj", copy.deepcopy(fs)]]]}])))
    for n, sp in enumerate(([["lo", i(1)], ["hi", i(2)]], [["hi", i(2)], ["lo", i(1)]])):
        base = copy.deepcopy(req)
        out.append(("nested-%d" % n, q([["rg", ["obj", base + [["span", ["obj", copy.deepcopy(sp)]]]]]])))
        out.append(("nested-list-%d" % n, q([["rg", ["obj", [["spans", ["list", [["obj", copy.deepcopy(sp)], ["obj", copy.deepcopy(sp)]]]]] + copy.deepcopy(req)]]])))
        out.append(("nested-in-item-%d" % n, q([["rgs", ["list", [["obj", [["span", ["obj", copy.deepcopy(sp)]]] + list(reversed(copy.deepcopy(req)))]]]]])))
    return out


def meta_field_forms(rng):
    """(name, valid, [definitions]) -- the introspection meta fields at the query root (valid) and
    below it (`__schema` / `__type` are fields of the query root only: FieldsOnCorrectType must
    report them anywhere else; `__typename` is valid on every composite type): directly, aliased,
    through named and inline fragments, nested two levels, next to ordinary fields"""
    out = []
    leaf = lambda al, nm, args=None: {"k": "field", "alias": al, "name": nm, "args": args or [], "dirs": [], "sels": None}
    fld = lambda al, nm, sels, args=None: {"k": "field", "alias": al, "name": nm, "args": args or [], "dirs": [], "sels": sels}
    metas = {
        "schema": lambda al: fld(al, "__schema", [fld(None, "queryType", [leaf(None, "name")])]),
        "type": lambda al: fld(al, "__type", [leaf(None, "name"), leaf(None, "kind")], [["name", ["str", "AnchorObj"]]]),
        "typename": lambda al: leaf(al, "__typename"),
    }

    def anc(sels):
        a = _anchor_field(rng, None)
        a["alias"] = "zm"
        a["sels"] = sels
        return a

    def q(sels, extra=None):
        return [{"kind": "op", "op": "query", "name": "ZM", "vars": [], "dirs": [], "sels": sels}] + (extra or [])

    for m, mk in metas.items():
        out.append(("root-%s" % m, True, q([mk(None)])))
        out.append(("root-aliased-%s" % m, True, q([mk("zs"), anc([leaf(None, "id")])])))
        out.append(("root-fragment-%s" % m, True, q([{"k": "spread", "name": "ZMq", "dirs": []}],
                    [{"kind": "frag", "name": "ZMq", "on": "Query", "dirs": [], "sels": [mk(None)]}])))
        ok = m == "typename"
        out.append(("below-%s" % m, ok, q([anc([leaf(None, "id"), mk(None)])])))
        out.append(("below-aliased-%s" % m, ok, q([anc([mk("zs")])])))
        out.append(("below-nested-%s" % m, ok, q([anc([fld(None, "self", [fld(None, "self", [mk(None), leaf(None, "name")])])])])))
        out.append(("below-inline-%s" % m, ok, q([anc([{"k": "inline", "on": "AnchorObj", "dirs": [], "sels": [mk(None)]}])])))
        out.append(("below-inline-untyped-%s" % m, ok, q([anc([{"k": "inline", "on": None, "dirs": [], "sels": [mk("zs")]}])])))
        out.append(("below-fragment-%s" % m, ok, q([anc([{"k": "spread", "name": "ZMf", "dirs": []}])],
                    [{"kind": "frag", "name": "ZMf", "on": "AnchorObj", "dirs": [], "sels": [mk(None)]}])))
        out.append(("below-list-%s" % m, ok, q([anc([fld(None, "others", [mk(None)], [["first", ["int", "1"]]])])])))
    return out


def violate(rng, schema, doc, label):
    """returns a copy of doc breaking rule `label` (1-based index into RULES)
    at one place, or None when not applicable"""
    d = copy.deepcopy(doc)
    ops, frs = ops_of(d), frags_of(d)
    if label in (16, 18, 22, 23) and rng.random() < 0.3:
        forms = [f for f in repeated_spread_forms(rng) if f[1] == label]
        taken = {x.get("name") for x in d["defs"]}
        _n, _l, _o, defs = rng.choice(forms)
        if not any(x["name"] in taken for x in defs):
            for o in ops:
                if o["name"] is None:
                    o["name"] = "ZAnon"
            for x in defs:
                d["defs"].insert(rng.randint(0, len(d["defs"])), x)
            return d
    if label in (12, 16, 17) and rng.random() < 0.4:
        forms = [f for f in namespace_collision_forms(rng) if f[1] == label]
        taken = {x.get("name") for x in d["defs"]}
        _n, _l, defs = rng.choice(forms)
        if not any(x["name"] in taken for x in defs):
            for o in ops:
                if o["name"] is None:
                    o["name"] = "ZAnon"
            for x in defs:
                d["defs"].insert(rng.randint(0, len(d["defs"])), x)
            return d
    if label == 1:
        d["defs"].insert(rng.randint(0, len(d["defs"])), {"kind": "raw", "text": "scalar Zz9"})
        d["allow_type_system"] = True
    elif label == 2:
        named = [o for o in ops if o["name"]]
        if not named:
            ops[0]["name"] = "ZDup"
            named = [ops[0]]
        d["defs"].insert(rng.randint(0, len(d["defs"])), copy.deepcopy(rng.choice(named)))
    elif label == 3:
        for o in ops:
            if o["name"] is None:
                o["name"] = "ZNamed"
        d["defs"].insert(rng.randint(0, len(d["defs"])),
                         {"kind": "op", "op": "query", "name": None, "vars": [], "dirs": [],
                          "sels": [{"k": "field", "alias": None, "name": "__typename", "args": [], "dirs": [], "sels": None}]})
        if any(o["name"] == "query" for o in ops):
            return None
    elif label == 4:
        if schema.subscription_type is None:
            return None
        subs = [o for o in ops if o["op"] == "subscription"]
        if not subs:
            for o in ops:
                if o["name"] is None:
                    o["name"] = "ZNamed"
            subs = [{"kind": "op", "op": "subscription", "name": "ZSub", "vars": [], "dirs": [],
                     "sels": [{"k": "field", "alias": None, "name": "tick", "args": [], "dirs": [], "sels": None}]}]
            d["defs"].append(subs[0])
        rng.choice(subs)["sels"].append(
            {"k": "field", "alias": "zz", "name": "__typename", "args": [], "dirs": [], "sels": None})
    elif label == 5:
        o = rng.choice(ops)
        if o["name"] is None and not o["vars"]:
            o["explicit"] = True
        o["vars"].append({"name": "zu", "type": rng.choice(["Zz9", "[Zz9]", "Zz9!"]), "default": None})
    elif label == 6:
        bad = rng.choice(["Int", "AnchorEnum", "AnchorIn", "AnchorScalar", "Zz9"])
        if frs and rng.random() < 0.4:
            rng.choice(frs)["on"] = bad
        else:
            sels, _ = rng.choice(all_selsets(d))
            sels.insert(rng.randint(0, len(sels)), {"k": "inline", "on": bad, "dirs": [], "sels": [
                {"k": "field", "alias": None, "name": "__typename", "args": [], "dirs": [], "sels": None}]})
    elif label == 7:
        o = rng.choice(ops)
        o["vars"].append({"name": "zo", "type": rng.choice(["AnchorObj", "[Query]", "Un0!"]), "default": None})
    elif label == 8:
        fs = all_nodes(d, "field")
        leafs = [f for f in fs if f["sels"] is None and f["name"] != "__typename"]
        comps = [f for f in fs if f["sels"] is not None]
        if comps and (not leafs or rng.random() < 0.5):
            rng.choice(comps)["sels"] = None
        elif leafs:
            rng.choice(leafs)["sels"] = [{"k": "field", "alias": None, "name": "zsub", "args": [], "dirs": [], "sels": None}]
        else:
            return None
    elif label == 9:
        below = [x["sels"] for x in all_nodes(d, "field") if x["sels"] is not None]
        if below and rng.random() < 0.4:
            # `__schema` / `__type` are fields of the query root only: below it (object, interface,
            # union, mutation payload, list item) they are unknown fields
            sels = rng.choice(below)
            al = rng.choice([None, "zmeta"])
            if rng.random() < 0.5:
                m = {"k": "field", "alias": al, "name": "__schema", "args": [], "dirs": [],
                     "sels": [{"k": "field", "alias": None, "name": "queryType", "args": [], "dirs": [],
                               "sels": [{"k": "field", "alias": None, "name": "name", "args": [], "dirs": [], "sels": None}]}]}
            else:
                m = {"k": "field", "alias": al, "name": "__type", "args": [["name", ["str", "Query"]]], "dirs": [],
                     "sels": [{"k": "field", "alias": None, "name": "name", "args": [], "dirs": [], "sels": None}]}
            sels.insert(rng.randint(0, len(sels)), m)
            return d
        sels, _ = rng.choice(all_selsets(d))
        sels.insert(rng.randint(0, len(sels)),
                    {"k": "field", "alias": None, "name": "zz9field", "args": [], "dirs": [], "sels": None})
    elif label == 10:
        if not frs:
            return None
        d["defs"].insert(rng.randint(0, len(d["defs"])), copy.deepcopy(rng.choice(frs)))
    elif label == 11:
        sels, _ = rng.choice(all_selsets(d))
        sels.insert(rng.randint(0, len(sels)), {"k": "spread", "name": "Zz9Frag", "dirs": []})
    elif label == 12:
        d["defs"].insert(rng.randint(0, len(d["defs"])),
                         {"kind": "frag", "name": "ZUnused", "on": "AnchorObj", "dirs": [],
                          "sels": [{"k": "field", "alias": None, "name": "id", "args": [], "dirs": [], "sels": None}]})
    elif label == 13:
        q = _query_op(d, rng)
        # AnchorObj.self is AnchorObj; AnchorObj.others is a list of AnchorObj
        inner = {"k": "inline", "on": "Query", "dirs": [], "sels": [
            {"k": "field", "alias": None, "name": "__typename", "args": [], "dirs": [], "sels": None}]}
        if rng.random() < 0.5:
            d["defs"].append({"kind": "frag", "name": "ZOnQuery", "on": "Query", "dirs": [],
                              "sels": [{"k": "field", "alias": None, "name": "__typename", "args": [], "dirs": [], "sels": None}]})
            q["sels"].append({"k": "spread", "name": "ZOnQuery", "dirs": []})
            inner = {"k": "spread", "name": "ZOnQuery", "dirs": []}
        a = _anchor_field(rng)
        via = rng.choice(["self", "others", None])
        if via is None:
            a["sels"].append(inner)
        else:
            a["sels"].append({"k": "field", "alias": None, "name": via, "args": [], "dirs": [],
                              "sels": [{"k": "field", "alias": None, "name": "id", "args": [], "dirs": [], "sels": None}, inner]})
        q["sels"].append(a)
    elif label == 14:
        q = _query_op(d, rng)
        n = rng.choice([1, 2, 3])
        names = ["ZCyc%d" % i for i in range(n)]
        for i, nm in enumerate(names):
            d["defs"].insert(rng.randint(0, len(d["defs"])),
                             {"kind": "frag", "name": nm, "on": "Query", "dirs": [],
                              "sels": [{"k": "field", "alias": None, "name": "__typename", "args": [], "dirs": [], "sels": None},
                                       {"k": "spread", "name": names[(i + 1) % n], "dirs": []}]})
        q["sels"].append({"k": "spread", "name": names[0], "dirs": []})
    elif label == 15:
        withv = [o for o in ops if o["vars"]]
        if not withv:
            return None
        o = rng.choice(withv)
        o["vars"].insert(rng.randint(0, len(o["vars"])), copy.deepcopy(rng.choice(o["vars"])))
    elif label == 16:
        withv = [o for o in ops if o["vars"]]
        if withv and rng.random() < 0.6:
            o = rng.choice(withv)
            o["vars"].pop(rng.randrange(len(o["vars"])))
        else:
            q = _query_op(d, rng)
            q["sels"].append(_anchor_field(rng, [["i", ["var", "zundef"]]]))
    elif label == 17:
        o = rng.choice(ops)
        o["vars"].append({"name": "zunused", "type": "Int", "default": None})
    elif label == 18:
        hs = [x for x in all_nodes(d, "field")]
        if rng.random() < 0.5:
            rng.choice(hs)["dirs"].append({"name": "zz9dir", "args": []})
        else:
            o = rng.choice(ops)
            o["dirs"].append({"name": "skip", "args": [["if", ["bool", True]]]})
            o["explicit"] = True
    elif label == 19:
        hs = [x for sels, _ in all_selsets(d) for x in sels]
        h = rng.choice(hs)
        if h["dirs"]:
            h["dirs"].append(copy.deepcopy(rng.choice(h["dirs"])))
        else:
            h["dirs"] = [{"name": "skip", "args": [["if", ["bool", False]]]}, {"name": "skip", "args": [["if", ["bool", False]]]}]
    elif label == 20:
        hs = [h for h in arg_holders(d) if h.get("name") not in ("__typename",)]
        if not hs:
            return None
        rng.choice(hs)["args"].append(["zz9arg", ["int", "1"]])
    elif label == 21:
        hs = [h for h in arg_holders(d) if h["args"]]
        if not hs:
            q = _query_op(d, rng)
            q["sels"].append(_anchor_field(rng))
            hs = [q["sels"][-1]]
        h = rng.choice(hs)
        h["args"].insert(rng.randint(0, len(h["args"])), copy.deepcopy(rng.choice(h["args"])))
    elif label == 22:
        q = _query_op(d, rng)
        bad = rng.choice([
            ["i", ["str", "no"]], ["i", ["int", "99999999999"]], ["i", ["list", [["int", "1"]]]], ["s", ["int", "1"]],
            ["b", ["int", "0"]], ["f", ["str", "1.0"]], ["e", ["enum", "NOPE"]], ["e", ["str", "ONE"]],
            ["lst", ["list", [["str", "x"]]]], ["ll", ["list", [["list", [["list", [["int", "1"]]]]]]]],
            ["lst", ["list", [["list", [["int", "1"]]]]]], ["inp", ["obj", [["a", ["int", "1"]]]]],
            ["inp", ["obj", [["r", ["bool", True]], ["zz", ["int", "1"]]]]], ["inp", ["int", "3"]],
            ["inp", ["obj", [["r", ["null"]]]]], ["sc", ["obj", [["a", ["int", "1"]]]]], ["sc", ["list", [["int", "1"]]]],
            ["id", ["float", "1.5"]], ["i", ["enum", "ONE"]], ["li", ["list", [["obj", [["zz", ["int", "1"]]]]]]],
            ["inp", ["obj", [["r", ["bool", True]], ["nn", ["obj", [["zq", ["int", "1"]]]]]]]],
            ["inp", ["obj", [["r", ["bool", True]], ["l", ["list", [["null"]]]]]]],
        ])
        q["sels"].append(_anchor_field(rng, [bad]))
    elif label == 23:
        q = _query_op(d, rng)
        a = _anchor_field(rng)
        a["args"] = [x for x in a["args"] if x[0] != rng.choice(["req", "inn", "lnn"])]
        if len(a["args"]) == 3:
            a["dirs"] = [{"name": "anchor", "args": [["t", ["str", "x"]]]}]
        q["sels"].append(a)
    elif label == 24 and rng.random() < 0.6:
        _name, defs = rng.choice(variable_position_forms(rng))
        for o in ops:
            if o["name"] is None:
                o["name"] = "ZAnon"
        for x in defs:
            d["defs"].insert(rng.randint(0, len(d["defs"])) if x["kind"] == "frag" else len(d["defs"]), x)
    elif label == 24:
        q = _query_op(d, rng)
        vt, pos = rng.choice([("Int", "req"), ("String", "i"), ("[Int]", "lnn"), ("Int", "lst2"), ("AnchorIn2", "inn"),
                              ("Int!", "s"), ("[Int]", "i"), ("Float", "i")])
        if pos == "lst2":
            arg = ["lnn", ["list", [["var", "zpos"]]]]
        else:
            arg = [pos, ["var", "zpos"]]
        a = _anchor_field(rng)
        a["args"] = [x for x in a["args"] if x[0] != arg[0]] + [arg]
        q["vars"].append({"name": "zpos", "type": vt, "default": None})
        q["sels"].append(a)
    elif label == 25:
        q = _query_op(d, rng)
        c = rng.randint(0, 6)
        leaf = lambda al, nm, args=None: {"k": "field", "alias": al, "name": nm, "args": args or [], "dirs": [], "sels": None}
        a = _anchor_field(rng)
        if rng.random() < 0.35:
            _n, defs = rng.choice(conflict_placement_forms(rng))
            taken = {x.get("name") for x in d["defs"]}
            if not any(x["kind"] == "frag" and x["name"] in taken for x in defs):
                q["sels"].extend(defs[0]["sels"])
                for x in defs[1:]:
                    d["defs"].insert(rng.randint(0, len(d["defs"])), x)
                return d
        if c >= 4:
            # one key carried by two different fields under exclusive object types (fine
            # within the set); a further same-key field that conflicts with the *second*
            # (or third) entry only, met through a named fragment or through the merge of
            # two same-key parents
            hit = _exclusive_conflict(rng, schema, named=(c != 5))
            if hit is None:
                return None
            sels, frag = hit
            q["sels"].extend(sels)
            if frag is not None:
                d["defs"].insert(rng.randint(0, len(d["defs"])), frag)
            return d
        if c == 0:
            a["sels"] += [leaf("zc", "name"), leaf("zc", "id")]
        elif c == 1:
            a["sels"] += [{"k": "field", "alias": "zc", "name": "others", "args": [["first", ["int", "1"]]], "dirs": [],
                           "sels": [leaf(None, "id")]},
                          {"k": "field", "alias": "zc", "name": "others", "args": [["first", ["int", "2"]]], "dirs": [],
                           "sels": [leaf(None, "id")]}]
        elif c == 2:
            a["sels"] += [leaf("zc", "name"), {"k": "inline", "on": None, "dirs": [], "sels": [leaf("zc", "count")]}]
        else:
            d["defs"].append({"kind": "frag", "name": "ZConf", "on": "AnchorObj", "dirs": [], "sels": [leaf("zc", "count")]})
            a["sels"] += [leaf("zc", "name"), {"k": "spread", "name": "ZConf", "dirs": []}]
        q["sels"].append(a)
    elif label == 26:
        q = _query_op(d, rng)
        q["sels"].append(_anchor_field(rng, [["inp", ["obj", [["r", ["bool", True]], ["a", ["int", "1"]], ["a", ["int", "1"]]]]]]))
    else:
        raise ValueError(label)
    return d


def _exclusive_conflict(rng, schema, named):
    cands = []
    for qf in schema.query_type.fields:
        p = unwrap_type(qf.type)
        if isinstance(p, (InterfaceType, UnionType)):
            objs = [o for o in schema.get_possible_types(p)]
            for b in objs:
                fb = [x for x in b.fields if not any(a.required for a in x.arguments)]
                others = [o for o in objs if o is not b]
                if fb and others:
                    cands.append((qf, p, others, b, fb))
    if not cands:
        return None
    qf, p, others, b, fbs = rng.choice(cands)
    fb = rng.choice(fbs)
    g = DocGen(rng, schema)
    g.const, g.cur_vars = True, set()
    args = g.args_for(qf.arguments)
    key = "zx%d" % rng.randint(10, 99)
    sub = None
    if isinstance(unwrap_type(fb.type), (ObjectType, InterfaceType, UnionType)):
        sub = [_leaf(None, "__typename")]
    first = [{"k": "inline", "on": o.name, "dirs": [], "sels": [_leaf(key, "__typename")]}
             for o in rng.sample(others, rng.randint(1, min(2, len(others))))]
    second = {"k": "inline", "on": b.name, "dirs": [], "sels": [
        {"k": "field", "alias": key, "name": fb.name, "args": [], "dirs": [], "sels": sub}]}
    clash = {"k": "inline", "on": b.name, "dirs": [], "sels": [_leaf(key, "__typename")]}
    if named:
        fname = "ZEx%d" % rng.randint(10, 99)
        frag = {"kind": "frag", "name": fname, "on": p.name, "dirs": [], "sels": [clash]}
        sel = {"k": "field", "alias": "zp", "name": qf.name, "args": args, "dirs": [],
               "sels": first + [second, {"k": "spread", "name": fname, "dirs": []}]}
        return [sel], frag
    s1 = {"k": "field", "alias": "zp", "name": qf.name, "args": copy.deepcopy(args), "dirs": [], "sels": first + [second]}
    s2 = {"k": "field", "alias": "zp", "name": qf.name, "args": copy.deepcopy(args), "dirs": [], "sels": [clash]}
    return [s1, s2], None


# -------------------------------------------------------- free mutants
def _leaf(al, nm, args=None):
    return {"k": "field", "alias": al, "name": nm, "args": args or [], "dirs": [], "sels": None}


def special_mutants(rng):
    """documents (as trees over the anchor part of every schema) for the
    adversarial classes named by the property"""
    out = []
    obj = ["obj", [["v", ["int", "1"]]]]
    for arg in (["lst", ["list", [["int", "1"]]]], ["inn", obj], ["i", ["null"]], ["i", ["var", "dv"]],
                ["ll", ["list", [["list", [["int", "1"]]]]]], ["inp", ["obj", [["r", ["bool", True]], ["nested", obj]]]]):
        for same in (True, False):
            a1, a2 = _anchor_field(rng), _anchor_field(rng)
            a2["alias"] = a1["alias"]
            a1["args"] = [x for x in a1["args"] if x[0] != arg[0]] + [copy.deepcopy(arg)]
            arg2 = copy.deepcopy(arg)
            if not same:
                arg2 = [arg[0], ["list", []]] if arg[1][0] == "list" else ([arg[0], ["obj", [["v", ["int", "9"]]]]] if arg[1][0] == "obj" else [arg[0], ["int", "5"]])
            a2["args"] = [x for x in a2["args"] if x[0] != arg[0]] + [arg2]
            vs = [{"name": "dv", "type": "Int", "default": None}] if arg[1] == ["var", "dv"] else []
            out.append({"defs": [{"kind": "op", "op": "query", "name": "Dup", "vars": vs, "dirs": [], "sels": [a1, a2]}]})
    # fragment cycles, incl. the one an early exit of the search misses
    def fr(n, spreads):
        return {"kind": "frag", "name": n, "on": "AnchorObj", "dirs": [],
                "sels": [_leaf(None, "id")] + [{"k": "spread", "name": x, "dirs": []} for x in spreads]}
    for graph in ({"Aa": ["Bb", "Cc"], "Bb": [], "Cc": ["Bb", "Aa"]}, {"Aa": ["Aa"]}, {"Aa": ["Bb"], "Bb": ["Aa"]},
                  {"Aa": ["Bb"], "Bb": ["Cc"], "Cc": ["Dd"], "Dd": ["Bb"]}, {"Aa": ["Bb", "Cc"], "Bb": ["Dd"], "Cc": ["Dd"], "Dd": []},
                  {"Aa": ["Bb"], "Bb": ["Cc"], "Cc": []}, {"Aa": ["Zq"], "Zq": ["Bb", "Cc"], "Bb": [], "Cc": ["Zq"]}):
        a = _anchor_field(rng)
        a["sels"].append({"k": "spread", "name": "Aa", "dirs": []})
        defs = [{"kind": "op", "op": "query", "name": None, "vars": [], "dirs": [], "sels": [a]}] + [fr(n, sp) for n, sp in graph.items()]
        for perm in itertools.islice(itertools.permutations(defs), 0, 24, 5):
            out.append({"defs": list(perm)})
    # a variable used at two differently typed positions, both orders
    for order in (0, 1):
        a = _anchor_field(rng)
        extra = [["i", ["var", "tv"]], ["req", ["var", "tv"]]]
        a["args"] = [x for x in a["args"] if x[0] != "req"] + (extra if order else extra[::-1])
        out.append({"defs": [{"kind": "op", "op": "query", "name": "Two", "vars": [{"name": "tv", "type": "Int", "default": None}],
                              "dirs": [], "sels": [a]}]})
    # conflicts reachable only through nested fragments with multi-letter names
    for names in (("Alpha", "Beta", "Gamma", "Delta"), ("A", "B", "C", "D"), ("Fx", "Fy", "Gx", "Gy")):
        for fields in (("name", "id"), ("name", "name")):
            n1, n2, n3, n4 = names
            a = _anchor_field(rng)
            a["sels"] = [{"k": "spread", "name": n1, "dirs": []}, {"k": "spread", "name": n2, "dirs": []}]
            defs = [{"kind": "op", "op": "query", "name": None, "vars": [], "dirs": [], "sels": [a]},
                    {"kind": "frag", "name": n1, "on": "AnchorObj", "dirs": [], "sels": [{"k": "spread", "name": n3, "dirs": []}]},
                    {"kind": "frag", "name": n2, "on": "AnchorObj", "dirs": [], "sels": [{"k": "spread", "name": n4, "dirs": []}]},
                    {"kind": "frag", "name": n3, "on": "AnchorObj", "dirs": [], "sels": [_leaf("x", fields[0])]},
                    {"kind": "frag", "name": n4, "on": "AnchorObj", "dirs": [], "sels": [_leaf("x", fields[1])]}]
            out.append({"defs": defs})
            out.append({"defs": defs[::-1]})
    # one key under two exclusive parents, a further same-key field clashing with the
    # second entry only (through a named fragment / through two merged parents), both orders
    for order in (0, 1):
        for named in (True, False):
            a = _anchor_field(rng)
            two = [{"k": "inline", "on": "Query", "dirs": [], "sels": [_leaf("n", "__typename")]},
                   {"k": "inline", "on": "AnchorObj", "dirs": [], "sels": [_leaf("n", "name")]}]
            if order:
                two.reverse()
            clash = {"k": "inline", "on": "AnchorObj", "dirs": [], "sels": [_leaf("n", "id")]}
            if named:
                a["sels"] = two + [{"k": "spread", "name": "ExF", "dirs": []}]
                out.append({"defs": [{"kind": "op", "op": "query", "name": None, "vars": [], "dirs": [], "sels": [a]},
                                     {"kind": "frag", "name": "ExF", "on": "AnchorObj", "dirs": [], "sels": [clash]}]})
            else:
                a2 = copy.deepcopy(a)
                a["sels"], a2["sels"] = two, [clash]
                out.append({"defs": [{"kind": "op", "op": "query", "name": None, "vars": [], "dirs": [], "sels": [a, a2]}]})
    for _name, defs in variable_position_forms(rng):
        out.append({"defs": defs})
    for _name, _label, defs in namespace_collision_forms(rng):
        out.append({"defs": defs})
    for _name, _label, _order, defs in repeated_spread_forms(rng):
        out.append({"defs": defs})
    for _name, defs in conflict_placement_forms(rng):
        out.append({"defs": defs})
    # fragments spread inside their own nested same-key fields (the fields-vs-fragment
    # comparison of OverlappingFieldsCanBeMerged must be memoised to terminate)
    def sp(n):
        return {"k": "spread", "name": n, "dirs": []}

    def slf(sels, alias=None, name="self"):
        return {"k": "field", "alias": alias, "name": name, "args": [], "dirs": [], "sels": sels}

    bodies = [
        {"Cg": [slf([sp("Cg"), slf([sp("Cg")])])]},
        {"Cg": [slf([slf([sp("Cg")]), sp("Cg")])]},
        {"Cg": [slf([sp("Cg"), slf([sp("Cg"), _leaf("x", "id")]), _leaf("x", "name")])]},
        {"Cg": [slf([sp("Cg"), slf([sp("Cg"), slf([sp("Cg")])])])]},
        {"Ca": [slf([sp("Cb"), slf([sp("Ca")])])], "Cb": [slf([sp("Ca"), slf([sp("Cb")])])]},
        {"Ca": [slf([sp("Cb"), slf([sp("Ca")], "k")], "k")], "Cb": [slf([sp("Ca"), slf([sp("Cb")], "k", "others")], "k", "others")]},
        {"Cg": [slf([sp("Cg"), slf([sp("Cg")], None, "others")], None, "others")]},
    ]
    for body in bodies:
        a = _anchor_field(rng)
        a["sels"].append(sp(sorted(body)[0]))
        defs = [{"kind": "op", "op": "query", "name": None, "vars": [], "dirs": [], "sels": [a]}]
        defs += [{"kind": "frag", "name": n, "on": "AnchorObj", "dirs": [], "sels": b} for n, b in body.items()]
        out.append({"defs": defs})
        out.append({"defs": defs[::-1]})
    # transitive fragment use through >= 3 fragments, every definition order
    for var_defined in (True, False):
        a = _anchor_field(rng)
        a["sels"].append({"k": "spread", "name": "Ta", "dirs": []})
        op = {"kind": "op", "op": "query", "name": "Q", "dirs": [], "sels": [a],
              "vars": [{"name": "tv", "type": "Int", "default": None}] if var_defined else []}
        chain = [{"kind": "frag", "name": "Ta", "on": "AnchorObj", "dirs": [], "sels": [{"k": "spread", "name": "Tb", "dirs": []}]},
                 {"kind": "frag", "name": "Tb", "on": "AnchorObj", "dirs": [], "sels": [{"k": "spread", "name": "Tc", "dirs": []}]},
                 {"kind": "frag", "name": "Tc", "on": "AnchorObj", "dirs": [],
                  "sels": [{"k": "field", "alias": None, "name": "others", "args": [["first", ["var", "tv"]]], "dirs": [],
                            "sels": [_leaf(None, "id")]}]}]
        for perm in itertools.permutations(chain):
            out.append({"defs": [op] + list(perm)})
            out.append({"defs": list(perm) + [op]})
    # list literal nesting
    for arg in (["lst", ["list", [["list", [["int", "1"]]]]]], ["ll", ["list", [["list", [["int", "1"]]]]]],
                ["ll", ["list", [["int", "1"]]]], ["ll", ["int", "1"]], ["lst", ["int", "1"]],
                ["i", ["list", [["int", "1"]]]], ["lnn", ["list", [["null"]]]], ["lst", ["list", [["null"]]]]):
        a = _anchor_field(rng)
        a["args"] = [x for x in a["args"] if x[0] != arg[0]] + [arg]
        out.append({"defs": [{"kind": "op", "op": "query", "name": None, "vars": [], "dirs": [], "sels": [a]}]})
    # unknown type conditions, spreads under list fields, input fields under wrapped types
    a = _anchor_field(rng)
    a["sels"].append({"k": "inline", "on": "Nope", "dirs": [], "sels": [_leaf(None, "id")]})
    out.append({"defs": [{"kind": "op", "op": "query", "name": None, "vars": [], "dirs": [], "sels": [a]}]})
    a = _anchor_field(rng)
    a["sels"].append({"k": "spread", "name": "OnNope", "dirs": []})
    out.append({"defs": [{"kind": "op", "op": "query", "name": None, "vars": [], "dirs": [], "sels": [a]},
                         {"kind": "frag", "name": "OnNope", "on": "Nope", "dirs": [], "sels": [_leaf(None, "id")]}]})
    for via in ("others", "self"):
        a = _anchor_field(rng)
        a["sels"].append({"k": "field", "alias": None, "name": via, "args": [], "dirs": [],
                          "sels": [{"k": "spread", "name": "OnQ", "dirs": []}]})
        out.append({"defs": [{"kind": "op", "op": "query", "name": None, "vars": [], "dirs": [], "sels": [a]},
                             {"kind": "frag", "name": "OnQ", "on": "Query", "dirs": [], "sels": [_leaf(None, "__typename")]}]})
    for arg in (["inn", ["obj", [["zzz", ["int", "1"]]]]], ["li", ["list", [["obj", [["zzz", ["int", "1"]]]]]]],
                ["inp", ["obj", [["r", ["bool", True]], ["nested", ["obj", [["zzz", ["int", "1"]]]]]]]]):
        a = _anchor_field(rng)
        a["args"] = [x for x in a["args"] if x[0] != arg[0]] + [arg]
        out.append({"defs": [{"kind": "op", "op": "query", "name": None, "vars": [], "dirs": [], "sels": [a]}]})
    return out


def mutate(rng, doc):
    """one random structural mutation (the result is usually invalid)"""
    d = copy.deepcopy(doc)
    c = rng.randint(0, 13)
    sets = all_selsets(d)
    sels, holder = rng.choice(sets)
    fields = all_nodes(d, "field")
    if c == 0 and fields:
        rng.choice(fields)["name"] = rng.choice(["nope", "id", "name", "__typename", "anchor"])
    elif c == 1:
        sels.append(copy.deepcopy(rng.choice(rng.choice(sets)[0])))
    elif c == 2 and len(sels) > 1:
        sels.pop(rng.randrange(len(sels)))
    elif c == 3 and fields:
        f = rng.choice(fields)
        f["alias"] = rng.choice([x["alias"] or x["name"] for x in fields])
    elif c == 4:
        hs = [h for h in arg_holders(d) if h["args"]]
        if hs:
            h = rng.choice(hs)
            h["args"][rng.randrange(len(h["args"]))][1] = rng.choice(
                [["null"], ["int", "1"], ["str", "s"], ["list", [["int", "1"]]], ["obj", []], ["var", "v0"], ["enum", "ONE"],
                 ["list", [["list", [["int", "1"]]]]], ["bool", False], ["var", "nov"]])
    elif c == 5:
        fr = frags_of(d)
        if fr:
            rng.choice(fr)["on"] = rng.choice(["Query", "AnchorObj", "Ob0", "If0", "Un0", "Nope", "Int"])
    elif c == 6:
        sp = all_nodes(d, "spread")
        fr = frags_of(d)
        if sp and fr:
            rng.choice(sp)["name"] = rng.choice([f["name"] for f in fr] + ["Nope"])
    elif c == 7:
        fr = frags_of(d)
        if fr:
            f = rng.choice(fr)
            rng.choice([s for s, h in sets if h is f])[0:0] = [{"k": "spread", "name": rng.choice(fr)["name"], "dirs": []}]
    elif c == 8:
        o = rng.choice(ops_of(d))
        if o["vars"] and rng.random() < 0.6:
            v = rng.choice(o["vars"])
            v["type"] = rng.choice(["Int", "Int!", "String", "[Int]", "Boolean", "AnchorIn2", "ID", "Nope", "AnchorObj"])
        else:
            o["vars"].append({"name": rng.choice(["v0", "v1", "zq"]), "type": "Int", "default": rng.choice([None, ["int", "1"], ["null"], ["str", "x"]])})
    elif c == 9:
        ins = all_nodes(d, "inline")
        if ins:
            rng.choice(ins)["on"] = rng.choice([None, "Query", "AnchorObj", "Ob0", "Ob1", "If0", "Un0", "Nope", "AnchorEnum"])
    elif c == 10:
        h = rng.choice([x for s, _ in sets for x in s])
        h["dirs"].append(rng.choice([{"name": "skip", "args": []}, {"name": "include", "args": [["if", ["var", "v0"]]]},
                                     {"name": "skip", "args": [["if", ["int", "1"]]]}, {"name": "nodir", "args": [["x", ["int", "1"]]]},
                                     {"name": "deprecated", "args": []}]))
    elif c == 11:
        o = rng.choice(ops_of(d))
        o["op"] = rng.choice(["query", "mutation", "subscription"])
    elif c >= 12:
        # the same response key again with a related argument value (before or after the original)
        cands = [(s, x) for s, _ in sets for x in s if x["k"] == "field" and x["args"]]
        withobj = [(s, x) for s, x in cands if any(v[0] in ("obj", "list") for _n, v in x["args"])]
        if withobj and rng.random() < 0.8:
            cands = withobj
        if cands:
            s, x = rng.choice(cands)
            dup = copy.deepcopy(x)
            dup["dirs"] = []
            structured = [a for a in dup["args"] if a[1][0] in ("obj", "list")]
            a = rng.choice(structured or dup["args"])
            a[1] = related_value(rng, a[1])
            at = s.index(x)
            s.insert(at + rng.randint(0, 1), dup)
    return d


# -------------------------------------------------- metamorphic variants
def permute_defs(rng, doc):
    d = copy.deepcopy(doc)
    rng.shuffle(d["defs"])
    return d


def permute_selections(rng, doc):
    d = copy.deepcopy(doc)
    for sels, _ in all_selsets(d):
        rng.shuffle(sels)
    return d


def permute_arguments(rng, doc):
    d = copy.deepcopy(doc)
    for h in arg_holders(d):
        rng.shuffle(h["args"])
    for o in ops_of(d):
        pass
    return d


def _obj_literals(v, acc):
    if v[0] == "list":
        for x in v[1]:
            _obj_literals(x, acc)
    elif v[0] == "obj":
        acc.append(v)
        for _n, x in v[1]:
            _obj_literals(x, acc)


def value_slots(doc):
    """every literal written in the document: argument values and variable defaults"""
    out = []
    for h in arg_holders(doc):
        out.extend(v for _n, v in h["args"])
    for o in ops_of(doc):
        out.extend(v["default"] for v in o["vars"] if v["default"] is not None)
    return out


def permute_input_fields(rng, doc):
    """the fields of every input object literal (arguments, list items, nested fields, variable
    defaults) reordered by one random ranking of the field names, so that equal literals stay
    equal; None when two literals carry the same field names in different orders (they would
    become equal)"""
    d = copy.deepcopy(doc)
    objs = []
    for v in value_slots(d):
        _obj_literals(v, objs)
    seen = {}
    for ob in objs:
        names = [n for n, _ in ob[1]]
        if seen.setdefault(tuple(sorted(names)), names) != names:
            return None
    names = sorted({n for ob in objs for n, _ in ob[1]})
    rng.shuffle(names)
    rank = {n: i for i, n in enumerate(names)}
    for ob in objs:
        ob[1].sort(key=lambda f: rank[f[0]])
    return d


def respell_lines(rng, text):
    """the same token sequence with every line terminator independently spelled \\n, \\r\\n or \\r,
    comments added at line ends (also after an existing comment) and existing comments stripped"""
    lines = text.split("\n")
    out = []
    for l in lines:
        c = rng.random()
        if " # " in l and c < 0.3:
            l = l[:l.index(" # ")]
        elif c < 0.65 and l.strip():
            l += rng.choice([" # note", " #", " # its name, really", "# tight {", " # } ) \"", " # \t tab"])
        out.append(l)
    s = out[0]
    for l in out[1:]:
        s += rng.choice(["\n", "\r\n", "\r", "\r"]) + l
    return s


def _map_vals(v, f):
    if v[0] == "var":
        return ["var", f(v[1])]
    if v[0] == "list":
        return ["list", [_map_vals(x, f) for x in v[1]]]
    if v[0] == "obj":
        return ["obj", [[n, _map_vals(x, f)] for n, x in v[1]]]
    return v


def rename(rng, doc):
    """consistent renaming of aliases, fragments and variables to fresh names"""
    d = copy.deepcopy(doc)
    am, fm, vm, om = {}, {}, {}, {}

    def fresh(m, n, p):
        if n not in m:
            m[n] = "%s%dr" % (p, len(m))
        return m[n]

    for f in frags_of(d):
        f["name"] = fresh(fm, f["name"], "Rf")
    for o in ops_of(d):
        if o["name"] is not None:
            o["name"] = fresh(om, o["name"], "ROp")
        for v in o["vars"]:
            v["name"] = fresh(vm, v["name"], "rv")
    for h in arg_holders(d):
        h["args"] = [[n, _map_vals(v, lambda x: fresh(vm, x, "rv"))] for n, v in h["args"]]
    for sels, _ in all_selsets(d):
        for x in sels:
            if x["k"] == "field" and x["alias"]:
                x["alias"] = fresh(am, x["alias"], "ra")
            elif x["k"] == "spread":
                x["name"] = fresh(fm, x["name"], "Rf")
    return d


def duplicate_arg_names(doc):
    return any(len({n for n, _ in h["args"]}) != len(h["args"]) for h in arg_holders(doc))


# ----------------------------------------------------- variables / worlds
def gen_var_value(rng, t):
    if isinstance(t, NonNullType):
        return gen_var_value_nn(rng, t.type)
    if rng.random() < 0.15:
        return None
    return gen_var_value_nn(rng, t)


def gen_var_value_nn(rng, t):
    if isinstance(t, ListType):
        return [gen_var_value(rng, t.type) for _ in range(rng.randint(0, 2))]
    if isinstance(t, InputObjectType):
        return {f.name: gen_var_value(rng, f.type) for f in t.fields
                if isinstance(f.type, NonNullType) or rng.random() < 0.5}
    if isinstance(t, EnumType):
        return rng.choice([v.name for v in t.values])
    return {"Int": 3, "Float": 1.5, "String": "sv", "Boolean": True, "ID": "idv"}.get(t.name, "custom")


def make_resolver(schema, world):
    """generic resolver synthesising a value of the declared type; `world`
    selects how nulls, list lengths and errors are distributed"""
    import zlib

    from py_gql.exc import ResolverError

    def pick(path, salt, n):
        return zlib.crc32(("%s|%s|%d" % (path, salt, world)).encode()) % n

    def synth(t, path, depth):
        if isinstance(t, NonNullType):
            return synth_nn(t.type, path, depth)
        if world >= 1 and pick(path, "null", 5) == 0:
            return None
        return synth_nn(t, path, depth)

    def synth_nn(t, path, depth):
        if isinstance(t, ListType):
            n = 2 if world == 0 else pick(path, "len", 3)
            return [synth(t.type, "%s/%d" % (path, i), depth + 1) for i in range(n)]
        if isinstance(t, EnumType):
            vs = [v.name for v in t.values]
            return vs[pick(path, "enum", len(vs))]
        if isinstance(t, ScalarType):
            return {"Int": 7, "Float": 2.5, "String": "str", "Boolean": True, "ID": "id7"}.get(t.name, "cust")
        if isinstance(t, ObjectType):
            return {"__typename__": t.name}
        poss = list(schema.get_possible_types(t))
        if not poss:
            return None
        return {"__typename__": poss[pick(path, "type", len(poss))].name}

    def resolver(root, ctx, info, **args):
        path = "/".join(str(x) for x in info.path)
        if world == 2 and pick(path, "err", 6) == 0:
            raise ResolverError("boom at %s" % path)
        return synth(info.field_definition.type, path, 0)

    return resolver
