# -*- coding: utf-8 -*-
"""C15 -- schema generator (abstract description -> SDL text or code-built
Schema), schema dumper/serialiser (real Schema object -> by-name dump -> Coq
term of type `ischema pv`), probe generator and query texts.

The *model's input is the dump of the real Schema object* (not the abstract
description), so whatever the builders do to descriptions or defaults cannot
cause a disagreement; the description only drives what gets built.
"""
import json

from py_gql import build_schema
from py_gql.schema import (
    ID,
    Argument,
    Boolean,
    Directive,
    EnumType,
    EnumValue,
    Field,
    Float,
    InputField,
    InputObjectType,
    Int,
    InterfaceType,
    ListType,
    NonNullType,
    ObjectType,
    ScalarType,
    Schema,
    String,
    UnionType,
)
from py_gql.utilities import introspection_query

from . import ser

BUILTIN = {"Int": Int, "Float": Float, "String": String, "Boolean": Boolean, "ID": ID}
DEFAULT_DEPRECATION = "No longer supported"

LOCATIONS = [
    "QUERY", "MUTATION", "SUBSCRIPTION", "FIELD", "FRAGMENT_DEFINITION", "FRAGMENT_SPREAD",
    "INLINE_FRAGMENT", "SCHEMA", "SCALAR", "OBJECT", "FIELD_DEFINITION", "ARGUMENT_DEFINITION",
    "INTERFACE", "UNION", "ENUM", "ENUM_VALUE", "INPUT_OBJECT", "INPUT_FIELD_DEFINITION",
]

# names chosen so that code-point order differs from case-insensitive and
# from declaration order ("Z.." < "_.." < "a..")
TYPE_STEMS = ["Zebra", "apple", "_Under", "A1", "Aa", "AB", "a", "Mango", "mango", "B", "b_c", "Node",
              "Thing", "Z", "_", "Ab", "aB", "Omega", "kiwi", "X9"]
FIELD_STEMS = ["id", "name", "value", "items", "next", "fooBar", "foo_bar", "x", "Y", "_z", "count",
               "owner", "tag", "a", "b", "zz"]
ENUM_STEMS = ["RED", "GREEN", "BLUE", "A", "B", "lower", "Mixed_1", "_X", "NORTH", "SOUTH"]
DESCRIPTIONS = [None, None, "plain description", 'with "quotes" and \\ backslash', "multi\nline\n  indented",
                "unicode é \U0001F600", "", "trailing space ", "tab\there"]
REASONS = [None, None, None, "", "use other", DEFAULT_DEPRECATION, 'quoted "why"\nnewline']
STRINGS = ["plain", "", "two words", 'say "hi"', "back\\slash", "line\nbreak", "tab\tform\x0cfeed",
           "café", "\U0001F600 astral", "tes\t de\x0cault", " sep", "x" * 40, "null", "true", "RED"]
BMP_STRINGS = [s for s in STRINGS if all(ord(c) < 0x10000 for c in s)]
# items of *list* defaults that need an escape: rendered through json.dumps they read back (no finding
# class on the unchanged code -- the finding string-default-needing-escapes is about top-level strings)
ESCAPE_ITEMS = ['say "hi"', "back\\slash", "line\nbreak", "tab\tform\x0cfeed", '"', "\\", "cr\rlf\n", "b\x08ell\x07",
                'mixed "q" \\ \n café']
INTS = [0, 1, -1, 42, 2147483646, -2147483646, 1000000]
FLOATS = [0.5, -1.25, 3.0, 1.5e-10, 2.5e+20, 100.0]  # no zero-padded exponent (lexer row 2 pending)
IDS = ["abc", "12", "x y", ""]


# --------------------------------------------------------------------------
# abstract description
def _uniq(rng, stems, used, suffix_ok=True):
    for _ in range(50):
        n = rng.choice(stems)
        if suffix_ok and (n in used or rng.random() < 0.3):
            n = n + rng.choice(["", "2", "_", "X", "x", "0"])
        if n not in used and not n.startswith("__") and n not in BUILTIN:
            used.add(n)
            return n
    n = "T%d" % len(used)
    used.add(n)
    return n


def _wrap(rng, base, deep_ok=True):
    r = rng.random()
    t = ["N", base]
    if r < 0.35:
        return t
    if r < 0.5:
        return ["NN", t]
    if r < 0.62:
        return ["L", t]
    if r < 0.72:
        return ["L", ["NN", t]]
    if r < 0.8:
        return ["NN", ["L", t]]
    if r < 0.88:
        return ["NN", ["L", ["NN", t]]]
    if r < 0.95 or not deep_ok:
        return ["L", ["L", t]]
    # deeper than the seven ofType levels of the TypeRef fragment
    for i in range(rng.choice([6, 7, 8, 9, 10])):
        if t[0] != "NN" and rng.random() < 0.4:
            t = ["NN", t]
        else:
            t = ["L", t]
    return t


def _base(t):
    while t[0] != "N":
        t = t[1]
    return t[1]


class _Ctx:
    def __init__(self, rng):
        self.rng = rng
        self.enums = {}      # name -> [value names]
        self.inputs = {}     # name -> [field descs]
        self.customs = []


def gen_value(ctx, t, top=True, in_list=False):
    """a value in coerced form (enums by *name*; builders translate)"""
    rng = ctx.rng
    if t[0] == "NN":
        v = gen_value(ctx, t[1], top=False, in_list=in_list)
        while v is None:
            v = gen_value(ctx, t[1], top=False, in_list=in_list)
        return v
    if rng.random() < (0.12 if top else 0.06):
        return None
    if t[0] == "L":
        return [gen_value(ctx, t[1], top=False, in_list=True) for _ in range(rng.choice([0, 1, 2, 2, 3]))]
    n = t[1]
    if n == "Int":
        return rng.choice(INTS)
    if n == "Float":
        return rng.choice(FLOATS)
    if n == "String":
        if in_list and rng.random() < 0.5:
            return rng.choice(ESCAPE_ITEMS)
        return rng.choice(STRINGS)
    if n == "Boolean":
        return rng.random() < 0.5
    if n == "ID":
        if in_list and rng.random() < 0.3:
            return rng.choice(ESCAPE_ITEMS)
        return rng.choice(IDS)
    if n in ctx.enums:
        return rng.choice(ctx.enums[n])
    if n in ctx.inputs:
        out = {}
        for f in ctx.inputs[n]:
            required = f["type"][0] == "NN" and not f["has_default"]
            if required or rng.random() < 0.7:
                out[f["name"]] = gen_value(ctx, f["type"], top=False)
            elif f["has_default"]:
                out[f["name"]] = f["default"]
        return out
    if n in ctx.customs:
        return rng.choice(["2020-01-01", "seven", "x"])   # strings only: identity parse() gets node text
    raise ValueError(n)


def _gen_inputs(ctx, n_max, used_names, input_pool, default_p=0.6):
    rng = ctx.rng
    out = []
    used = set()
    for _ in range(rng.randint(0, n_max)):
        base = rng.choice(input_pool)
        t = _wrap(rng, base)
        if rng.random() < 0.12:
            # stratum: list (possibly nested) of strings, almost always with a default
            base = rng.choice(["String", "String", "ID"])
            t = rng.choice([["L", ["N", base]], ["NN", ["L", ["NN", ["N", base]]]], ["L", ["L", ["N", base]]]])
        iv = {"name": _uniq(rng, FIELD_STEMS, used), "desc": rng.choice(DESCRIPTIONS), "type": t,
              "has_default": False, "default": None}
        if base in ctx.customs:
            iv["custom"] = True
        if rng.random() < (0.9 if t[0] != "N" and base in ("String", "ID") else default_p):
            iv["has_default"] = True
            iv["default"] = gen_value(ctx, t)
        out.append(iv)
    return out


def gen_desc(rng, big=False):
    ctx = _Ctx(rng)
    used = set()
    types = []
    if rng.random() < 0.5:
        n = _uniq(rng, ["Date", "JSON", "url"], used)
        ctx.customs.append(n)
        types.append({"kind": "SCALAR", "name": n, "desc": rng.choice(DESCRIPTIONS)})
    for _ in range(rng.randint(1, 3 if big else 2)):
        n = _uniq(rng, TYPE_STEMS, used)
        vused = set()
        vals = []
        scheme = rng.choice(["name", "int", "str"])
        for i in range(rng.randint(1, 5)):
            vn = _uniq(rng, ENUM_STEMS, vused)
            vals.append({"name": vn, "desc": rng.choice(DESCRIPTIONS), "reason": rng.choice(REASONS),
                         "value": vn if scheme == "name" else (i if scheme == "int" else vn.lower() + "_v")})
        ctx.enums[n] = [v["name"] for v in vals]
        types.append({"kind": "ENUM", "name": n, "desc": rng.choice(DESCRIPTIONS), "values": vals})
    scalars_in = ["Int", "Float", "String", "Boolean", "ID"]
    for _ in range(rng.randint(1, 4 if big else 3)):
        n = _uniq(rng, TYPE_STEMS, used)
        pool = scalars_in + list(ctx.enums) * 2 + list(ctx.inputs) * 2 + ctx.customs
        fields = []
        while not fields:
            fields = _gen_inputs(ctx, 4, used, pool)
        ctx.inputs[n] = fields
        types.append({"kind": "INPUT_OBJECT", "name": n, "desc": rng.choice(DESCRIPTIONS), "inputs": fields})
    input_pool = scalars_in + list(ctx.enums) * 2 + list(ctx.inputs) * 3 + ctx.customs

    iface_names = [_uniq(rng, TYPE_STEMS, used) for _ in range(rng.randint(0, 2))]
    obj_names = [_uniq(rng, TYPE_STEMS, used) for _ in range(rng.randint(1, 5 if big else 3))]
    union_names = [_uniq(rng, TYPE_STEMS, used) for _ in range(rng.randint(0, 2))]
    out_pool = (["Int", "String", "Boolean", "ID", "Float"] + list(ctx.enums) + ctx.customs
                + iface_names * 2 + obj_names * 3 + union_names * 2)

    def gen_fields(n_min, n_max, fused):
        fs = []
        for _ in range(rng.randint(n_min, n_max)):
            fs.append({"name": _uniq(rng, FIELD_STEMS, fused), "desc": rng.choice(DESCRIPTIONS),
                       "args": _gen_inputs(ctx, 2, set(), input_pool),
                       "type": _wrap(rng, rng.choice(out_pool)), "reason": rng.choice(REASONS)})
        return fs

    ifaces = {}
    for n in iface_names:
        ifaces[n] = gen_fields(1, 3, set())
        types.append({"kind": "INTERFACE", "name": n, "desc": rng.choice(DESCRIPTIONS), "fields": ifaces[n]})
    for n in obj_names:
        impl = [i for i in iface_names if rng.random() < 0.6]
        rng.shuffle(impl)
        fused = set()
        fs = []
        for i in impl:
            for f in ifaces[i]:
                if f["name"] not in fused:
                    fused.add(f["name"])
                    fs.append(dict(f, desc=rng.choice(DESCRIPTIONS), reason=rng.choice(REASONS)))
                else:
                    # same name in two interfaces with different types: drop the second interface
                    same = [g for g in fs if g["name"] == f["name"]][0]
                    if same["type"] != f["type"] or same["args"] != f["args"]:
                        impl = [j for j in impl if j != i]
        # (dropping an interface may leave extra fields; harmless)
        fs.extend(gen_fields(0 if fs else 1, 3, fused))
        rng.shuffle(fs)
        types.append({"kind": "OBJECT", "name": n, "desc": rng.choice(DESCRIPTIONS), "fields": fs,
                      "interfaces": impl})
    for n in union_names:
        ms = [o for o in obj_names if rng.random() < 0.6] or [rng.choice(obj_names)]
        rng.shuffle(ms)
        types.append({"kind": "UNION", "name": n, "desc": rng.choice(DESCRIPTIONS), "members": ms})

    def root(name):
        fused = set()
        fs = gen_fields(1, 4, fused)
        fs.append({"name": _uniq(rng, ["leaf", "n", "s"], fused), "desc": None, "args": [],
                   "type": ["N", rng.choice(["Int", "String", "Boolean"])], "reason": None})
        used.add(name)
        types.append({"kind": "OBJECT", "name": name, "desc": rng.choice(DESCRIPTIONS), "fields": fs,
                      "interfaces": []})
        return name

    qn = root(rng.choice(["Query", "Query", "RootQ", "query"]))
    mn = root(rng.choice(["Mutation", "Mut"])) if rng.random() < 0.4 else None
    sn = root(rng.choice(["Subscription", "Sub"])) if rng.random() < 0.25 else None
    directives = []
    dused = set(["skip", "include", "deprecated"])
    for _ in range(rng.randint(0, 2)):
        locs = rng.sample(LOCATIONS, rng.randint(1, 4))
        directives.append({"name": _uniq(rng, ["auth", "Cache", "_dir", "zed", "live"], dused),
                           "desc": rng.choice(DESCRIPTIONS), "locations": locs,
                           "args": _gen_inputs(ctx, 2, set(), input_pool)})
    rng.shuffle(types)
    return {"types": types, "directives": directives, "query": qn, "mutation": mn, "subscription": sn}


# --------------------------------------------------------------------------
# SDL builder
def _tstr(t):
    if t[0] == "N":
        return t[1]
    if t[0] == "L":
        return "[%s]" % _tstr(t[1])
    return "%s!" % _tstr(t[1])


def _qs(s):
    return json.dumps(s, ensure_ascii=False)


def _sdl_value(desc_types, v, t):
    if t[0] == "NN":
        return _sdl_value(desc_types, v, t[1])
    if v is None:
        return "null"
    if t[0] == "L":
        return "[%s]" % ", ".join(_sdl_value(desc_types, x, t[1]) for x in v)
    td = desc_types.get(t[1])
    if td and td["kind"] == "ENUM":
        return v
    if td and td["kind"] == "INPUT_OBJECT":
        ft = {f["name"]: f["type"] for f in td["inputs"]}
        return "{%s}" % ", ".join("%s: %s" % (k, _sdl_value(desc_types, x, ft[k])) for k, x in v.items())
    if v is True:
        return "true"
    if v is False:
        return "false"
    if isinstance(v, str):
        return _qs(v)
    return repr(v)


def _sdl_desc(d):
    return "" if d is None else _qs(d) + " "


def _sdl_dep(reason):
    if reason is None:
        return ""
    if reason == DEFAULT_DEPRECATION:
        return " @deprecated"
    return " @deprecated(reason: %s)" % _qs(reason)


def _sdl_ivs(dt, ivs):
    out = []
    for iv in ivs:
        s = "%s%s: %s" % (_sdl_desc(iv["desc"]), iv["name"], _tstr(iv["type"]))
        if iv["has_default"]:
            s += " = " + _sdl_value(dt, iv["default"], iv["type"])
        out.append(s)
    return out


def _sdl_fields(dt, fs):
    out = []
    for f in fs:
        args = _sdl_ivs(dt, f["args"])
        out.append("  %s%s%s: %s%s" % (_sdl_desc(f["desc"]), f["name"],
                                      "(%s)" % ", ".join(args) if args else "",
                                      _tstr(f["type"]), _sdl_dep(f["reason"])))
    return "\n".join(out)


def to_sdl(desc):
    dt = {t["name"]: t for t in desc["types"]}
    parts = []
    ops = ["query: %s" % desc["query"]]
    if desc["mutation"]:
        ops.append("mutation: %s" % desc["mutation"])
    if desc["subscription"]:
        ops.append("subscription: %s" % desc["subscription"])
    parts.append("schema { %s }" % " ".join(ops))
    for d in desc["directives"]:
        args = _sdl_ivs(dt, d["args"])
        parts.append("%sdirective @%s%s on %s" % (_sdl_desc(d["desc"]), d["name"],
                                                 "(%s)" % ", ".join(args) if args else "",
                                                 " | ".join(d["locations"])))
    for t in desc["types"]:
        head = _sdl_desc(t["desc"])
        k = t["kind"]
        if k == "SCALAR":
            parts.append("%sscalar %s" % (head, t["name"]))
        elif k == "ENUM":
            vs = "\n".join("  %s%s%s" % (_sdl_desc(v["desc"]), v["name"], _sdl_dep(v["reason"]))
                           for v in t["values"])
            parts.append("%senum %s {\n%s\n}" % (head, t["name"], vs))
        elif k == "INPUT_OBJECT":
            parts.append("%sinput %s {\n%s\n}" % (head, t["name"], "\n".join("  " + x for x in _sdl_ivs(dt, t["inputs"]))))
        elif k == "INTERFACE":
            parts.append("%sinterface %s {\n%s\n}" % (head, t["name"], _sdl_fields(dt, t["fields"])))
        elif k == "OBJECT":
            impl = (" implements " + " & ".join(t["interfaces"])) if t["interfaces"] else ""
            parts.append("%stype %s%s {\n%s\n}" % (head, t["name"], impl, _sdl_fields(dt, t["fields"])))
        elif k == "UNION":
            parts.append("%sunion %s = %s" % (head, t["name"], " | ".join(t["members"])))
    return "\n\n".join(parts)


# --------------------------------------------------------------------------
# code builder
# trivial subclasses of the type classes: a schema type may be an instance of a
# subclass (the library's own RegexType(ScalarType), user subclasses)
class MyScalar(ScalarType):
    pass


class MyObject(ObjectType):
    pass


class MyInterface(InterfaceType):
    pass


class MyUnion(UnionType):
    pass


class MyEnum(EnumType):
    pass


class MyInput(InputObjectType):
    pass


class MyList(ListType):
    pass


class MyNonNull(NonNullType):
    pass


def to_code(desc, order_rng, subclass_rng=None):
    """subclass_rng: when given, a random subset of the named types are built
    as instances of trivial subclasses (custom scalars also as RegexType) and,
    schema-wide, the wrappers as ListType / NonNullType subclasses"""
    dt = {t["name"]: t for t in desc["types"]}
    reg = {}
    sub = (lambda: subclass_rng.random() < 0.6) if subclass_rng is not None else (lambda: False)
    List_ = MyList if sub() else ListType
    NonNull_ = MyNonNull if sub() else NonNullType
    enum_internal = {t["name"]: {v["name"]: v["value"] for v in t["values"]}
                     for t in desc["types"] if t["kind"] == "ENUM"}

    def ref(t):
        if t[0] == "N":
            return BUILTIN.get(t[1]) or reg[t[1]]
        if t[0] == "L":
            return List_(ref(t[1]))
        return NonNull_(ref(t[1]))

    def conv(v, t):
        """description-level value (enums by name) -> Python-level coerced value"""
        if t[0] == "NN":
            return conv(v, t[1])
        if v is None:
            return None
        if t[0] == "L":
            return [conv(x, t[1]) for x in v]
        td = dt.get(t[1])
        if td and td["kind"] == "ENUM":
            return enum_internal[t[1]][v]
        if td and td["kind"] == "INPUT_OBJECT":
            ft = {f["name"]: f["type"] for f in td["inputs"]}
            return {k: conv(x, ft[k]) for k, x in v.items()}
        return v

    def mk_iv(cls, iv):
        kw = {"description": iv["desc"]}
        if iv["has_default"]:
            kw["default_value"] = conv(iv["default"], iv["type"])
        return cls(iv["name"], (lambda t=iv["type"]: ref(t)), **kw)

    def mk_fields(fs):
        return lambda: [
            Field(f["name"], (lambda t=f["type"]: ref(t)),
                  args=[mk_iv(Argument, a) for a in f["args"]],
                  description=f["desc"], deprecation_reason=f["reason"])
            for f in fs]

    for t in desc["types"]:
        k, n = t["kind"], t["name"]
        if k == "SCALAR":
            if sub() and subclass_rng.random() < 0.6:
                from py_gql.schema import RegexType
                reg[n] = RegexType(n, r"^[\s\S]*$", description=t["desc"])
            else:
                reg[n] = (MyScalar if sub() else ScalarType)(n, serialize=lambda x: x, parse=lambda x: x,
                                                             description=t["desc"])
        elif k == "ENUM":
            reg[n] = (MyEnum if sub() else EnumType)(n, [EnumValue(v["name"], v["value"], deprecation_reason=v["reason"],
                                            description=v["desc"]) for v in t["values"]],
                              description=t["desc"])
        elif k == "INPUT_OBJECT":
            reg[n] = (MyInput if sub() else InputObjectType)(n, (lambda ivs=t["inputs"]: [mk_iv(InputField, iv) for iv in ivs]),
                                     description=t["desc"])
        elif k == "INTERFACE":
            reg[n] = (MyInterface if sub() else InterfaceType)(n, mk_fields(t["fields"]), description=t["desc"])
        elif k == "OBJECT":
            reg[n] = (MyObject if sub() else ObjectType)(n, mk_fields(t["fields"]),
                                interfaces=(lambda ifs=t["interfaces"]: [reg[i] for i in ifs]),
                                description=t["desc"])
        elif k == "UNION":
            reg[n] = (MyUnion if sub() else UnionType)(n, (lambda ms=t["members"]: [reg[m] for m in ms]),
                                                       description=t["desc"])
    directives = [Directive(d["name"], d["locations"], args=[mk_iv(Argument, a) for a in d["args"]],
                            description=d["desc"]) for d in desc["directives"]]
    extra = list(reg.values())
    order_rng.shuffle(extra)
    order_rng.shuffle(directives)
    return Schema(
        query_type=reg[desc["query"]],
        mutation_type=reg[desc["mutation"]] if desc["mutation"] else None,
        subscription_type=reg[desc["subscription"]] if desc["subscription"] else None,
        directives=directives, types=extra)


def build(case):
    """case: {"mode": "sdl"|"code"|"sdl_text", ...} -> Schema"""
    import random
    if case["mode"] == "sdl":
        return build_schema(to_sdl(case["desc"]))
    if case["mode"] == "sdl_text":
        return build_schema(case["sdl"])
    if case["mode"] == "code":
        ss = case.get("subclass_seed")
        return to_code(case["desc"], random.Random(case.get("order_seed", 0)),
                       random.Random(ss) if ss is not None else None)
    if case["mode"] == "special":
        return SPECIAL[case["special"]]()
    raise ValueError(case["mode"])


# hand-written code-built schemas (corpus witnesses that need python_name etc.)
def _special_python_name():
    inp = InputObjectType("I", [InputField("fooBar", Int, python_name="foo_bar"),
                                InputField("plain", String, default_value="p")])
    q = ObjectType("Query", [Field("f", Int, [Argument("i", inp, default_value={"foo_bar": 1, "plain": "p"})])])
    return Schema(q)


def _special_pinned_test():
    inp = InputObjectType("TestInputObject", [
        InputField("a", String, default_value="tes\t de\x0cault"),
        InputField("b", ListType(String)),
        InputField("c", String, default_value=None)])
    q = ObjectType("TestType", [Field("field", String, [Argument("complex", inp)])])
    return Schema(q)


def _special_enum_internal():
    e = EnumType("E", [EnumValue("A", 1), EnumValue("B", "bee", deprecation_reason="")])
    q = ObjectType("Query", [Field("f", Int, [Argument("a", e, default_value=1),
                                              Argument("b", ListType(e), default_value=["bee", 1])]),
                             Field("g", e, deprecation_reason="")])
    return Schema(q)


def _special_list_escapes():
    q = ObjectType("Query", [Field("f", Int, [
        Argument("a", ListType(String), default_value=['say "hi"', "back\\slash", "line\nbreak", "plain"]),
        Argument("b", ListType(ListType(String)), default_value=[['"'], ["\\", "tab\tform\x0cfeed"], []]),
        Argument("c", ListType(ID), default_value=['i"d', "7"]),
        Argument("d", ListType(String), default_value=["café", None, ""])])])
    return Schema(q)


def _special_subclassed():
    """every kind as an instance of a subclass of its type class, incl. the
    library's RegexType and subclassed wrappers (witness of seeded C15-e)"""
    from py_gql.schema import RegexType
    email = RegexType("Email", r"^\S+@\S+$")
    date = MyScalar("Date", serialize=lambda x: x, parse=lambda x: x)
    color = MyEnum("Color", [EnumValue("RED", 1), EnumValue("BLUE", 2, deprecation_reason="old")])
    pt = MyInput("Pt", [InputField("x", MyNonNull(Int)), InputField("mail", email, default_value="a@b.c")])
    node = MyInterface("Node", [Field("id", ID)])
    a = MyObject("A", [Field("id", ID), Field("mail", email)], interfaces=[node])
    b = ObjectType("B", [Field("id", ID), Field("c", MyList(MyNonNull(color)))], interfaces=[node])
    u = MyUnion("U", [b, a])
    q = MyObject("Query", [
        Field("f", Int, [Argument("p", pt), Argument("d", MyList(date), default_value=["2020-01-01"]),
                         Argument("e", email, default_value="x@y.z")]),
        Field("n", node), Field("u", MyNonNull(MyList(u))), Field("a", a)])
    return Schema(q, types=[u, b])


SPECIAL = {"subclassed": _special_subclassed, "list_escapes": _special_list_escapes, "python_name": _special_python_name, "pinned_test": _special_pinned_test,
           "enum_internal": _special_enum_internal}


# --------------------------------------------------------------------------
# dumper: real Schema object -> by-name dump (JSON-able)
def dump_ref(t):
    if isinstance(t, NonNullType):
        return ["NN", dump_ref(t.type)]
    if isinstance(t, ListType):
        return ["L", dump_ref(t.type)]
    return ["N", t.name]


def _jsonable(v):
    if v is None or isinstance(v, (bool, int, float, str)):
        return v
    if isinstance(v, (list, tuple)):
        return [_jsonable(x) for x in v]
    if isinstance(v, dict):
        return {str(k): _jsonable(x) for k, x in v.items()}
    raise TypeError("non JSON-like default %r" % (v,))


def dump_iv(iv):
    d = {"name": iv.name, "desc": iv.description, "type": dump_ref(iv.type),
         "has_default": bool(iv.has_default_value), "default": None}
    if iv.has_default_value:
        d["default"] = _jsonable(iv.default_value)
    return d


def dump_field(f):
    return {"name": f.name, "desc": f.description, "args": [dump_iv(a) for a in f.arguments],
            "type": dump_ref(f.type), "deprecated": f.deprecated, "reason": f.deprecation_reason}


def dump_schema(schema):
    types = []
    for name, t in schema.types.items():
        d = {"name": t.name, "desc": t.description}
        if isinstance(t, ScalarType):
            d["kind"] = "SCALAR"
        elif isinstance(t, ObjectType):
            d["kind"] = "OBJECT"
            d["fields"] = [dump_field(f) for f in t.fields]
            d["interfaces"] = [i.name for i in t.interfaces]
        elif isinstance(t, InterfaceType):
            d["kind"] = "INTERFACE"
            d["fields"] = [dump_field(f) for f in t.fields]
        elif isinstance(t, UnionType):
            d["kind"] = "UNION"
            d["members"] = [m.name for m in t.types]
        elif isinstance(t, EnumType):
            d["kind"] = "ENUM"
            d["values"] = [{"name": v.name, "desc": v.description, "deprecated": v.deprecated,
                            "reason": v.deprecation_reason, "value": _jsonable(v.value)} for v in t.values]
        elif isinstance(t, InputObjectType):
            d["kind"] = "INPUT_OBJECT"
            d["inputs"] = [dump_iv(f) for f in t.fields]
        else:
            raise TypeError(repr(t))
        types.append(d)
    directives = [{"name": d.name, "desc": d.description, "locations": list(d.locations),
                   "args": [dump_iv(a) for a in d.arguments]} for d in schema.directives.values()]
    return {"types": types, "directives": directives,
            "query": schema.query_type.name,
            "mutation": schema.mutation_type.name if schema.mutation_type else None,
            "subscription": schema.subscription_type.name if schema.subscription_type else None}


# --------------------------------------------------------------------------
# dump -> Coq term  (ischema pv)
def cref(t):
    if t[0] == "N":
        return "(IRNamed %s)" % ser.cstr(t[1])
    if t[0] == "L":
        return "(IRList %s)" % cref(t[1])
    return "(IRNonNull %s)" % cref(t[1])


def _ostr(x):
    return ser.copt(x, ser.cstr)


def civ(iv):
    return "(IInput %s %s %s %s)" % (ser.cstr(iv["name"]), _ostr(iv["desc"]), cref(iv["type"]),
                                     "(Some %s)" % ser.cpv(iv["default"]) if iv["has_default"] else "None")


def cfield(f):
    return "(IField %s %s %s %s %s %s)" % (ser.cstr(f["name"]), _ostr(f["desc"]), ser.clist(f["args"], civ),
                                           cref(f["type"]), ser.cbool(f["deprecated"]), _ostr(f["reason"]))


def cenumval(v):
    return "(IEnumVal %s %s %s %s %s)" % (ser.cstr(v["name"]), _ostr(v["desc"]), ser.cbool(v["deprecated"]),
                                          _ostr(v["reason"]), ser.cpv(v["value"]))


def ctype(t):
    k = t["kind"]
    if k == "SCALAR":
        d = "IScalar"
    elif k == "OBJECT":
        d = "(IObject %s %s)" % (ser.clist(t["fields"], cfield), ser.clist(t["interfaces"], ser.cstr))
    elif k == "INTERFACE":
        d = "(IInterface %s)" % ser.clist(t["fields"], cfield)
    elif k == "UNION":
        d = "(IUnion %s)" % ser.clist(t["members"], ser.cstr)
    elif k == "ENUM":
        d = "(IEnum %s)" % ser.clist(t["values"], cenumval)
    else:
        d = "(IInputObject %s)" % ser.clist(t["inputs"], civ)
    return "(IType %s %s %s)" % (ser.cstr(t["name"]), _ostr(t["desc"]), d)


def cdirective(d):
    return "(IDirective %s %s %s %s)" % (ser.cstr(d["name"]), _ostr(d["desc"]),
                                         ser.clist(d["locations"], ser.cstr), ser.clist(d["args"], civ))


def cschema(dump):
    return "(ISchema %s %s %s %s %s)" % (
        ser.clist(dump["types"], ctype), ser.clist(dump["directives"], cdirective),
        ser.cstr(dump["query"]), _ostr(dump["mutation"]), _ostr(dump["subscription"]))


def cflags(incl, desc):
    return "(IFlags %s %s)" % (ser.cbool(incl), ser.cbool(desc))


def cpsel(p):
    k = p["k"]
    if k == "field":
        return "(PSField %s %s %s)" % (ser.cstr(p["key"]), ser.cstr(p["name"]), ser.clist(p["sub"], cpsel))
    if k == "typename":
        return "(PSTypename %s)" % ser.cstr(p["key"])
    if k == "schema":
        return "(PSSchema %s)" % ser.cstr(p["key"])
    if k == "type":
        return "(PSType %s %s %s)" % (ser.cstr(p["key"]), cflags(p["incl"], p["desc"]), ser.cstr(p["name"]))
    raise ValueError(k)


# --------------------------------------------------------------------------
# query texts
def intro_query(incl, desc):
    q = introspection_query(description=desc)
    assert q.count("includeDeprecated: true") == 2
    if incl is False:
        q = q.replace("includeDeprecated: true", "includeDeprecated: false")
    elif incl == "omit":
        q = q.replace("(includeDeprecated: true)", "")
    return q


def full_type_fragments(incl, desc):
    q = intro_query(incl, desc)
    return q[q.index("fragment FullType"):]


def type_query(name, incl, desc):
    return "query { __type(name: %s) { ...FullType } }\n%s" % (_qs(name), full_type_fragments(incl, desc))


def _sel_text(p):
    k = p["k"]
    if k == "field":
        head = p["name"] if p["key"] == p["name"] else "%s: %s" % (p["key"], p["name"])
        if p["sub"]:
            return "%s { %s }" % (head, " ".join(_sel_text(x) for x in p["sub"]))
        return head
    if k == "typename":
        return "__typename" if p["key"] == "__typename" else "%s: __typename" % p["key"]
    if k == "schema":
        head = "__schema" if p["key"] == "__schema" else "%s: __schema" % p["key"]
        return head + " { queryType { name } }"
    if k == "type":
        head = "__type" if p["key"] == "__type" else "%s: __type" % p["key"]
        return "%s(name: %s) { ...FullType }" % (head, _qs(p["name"]))
    raise ValueError(k)


def _has_type_sel(sels):
    return any(p["k"] == "type" or (p["k"] == "field" and _has_type_sel(p["sub"])) for p in sels)


def probe_query(op):
    text = "%s { %s }" % ("mutation" if op["mutation"] else "query", " ".join(_sel_text(p) for p in op["sels"]))
    tsels = [p for p in op["sels"] if p["k"] == "type"]
    if tsels:
        text += "\n" + full_type_fragments(bool(tsels[0]["incl"]), tsels[0]["desc"])
    return text


# --------------------------------------------------------------------------
# probes over a dumped schema: __typename at composite positions, ordinary
# leaves, meta-fields at the root
_LEAF_VALUES = {"Int": [0, 7, -3], "String": ["s", "", "café"], "Boolean": [True, False], "ID": ["id1", "22"]}


def gen_probe(rng, dump, mutation=False):
    types = {t["name"]: t for t in dump["types"]}
    counter = [0]

    def key(base, used):
        if rng.random() < 0.5 and base not in used:
            return base
        counter[0] += 1
        return "k%d" % counter[0]

    def possible(t):
        if t["kind"] == "UNION":
            return list(t["members"])
        return [o["name"] for o in dump["types"] if o["kind"] == "OBJECT" and t["name"] in o["interfaces"]]

    def gen_sels(tname, depth):
        """selections valid on the static type tname"""
        t = types[tname]
        sels, used = [], set()
        if rng.random() < 0.85:
            k = key("__typename", used)
            used.add(k)
            sels.append({"k": "typename", "key": k})
        for f in t.get("fields", []):
            if any(a["type"][0] == "NN" and not a["has_default"] for a in f["args"]):
                continue
            if rng.random() < 0.3:
                continue
            base = _base(f["type"])
            if base in _LEAF_VALUES:
                sub = []
            elif base in types and types[base]["kind"] in ("OBJECT", "INTERFACE", "UNION") and depth > 0:
                if types[base]["kind"] != "OBJECT" and not possible(types[base]):
                    continue
                sub = gen_sels(base, depth - 1)
                if not sub:
                    continue
            else:
                continue
            k = key(f["name"], used)
            used.add(k)
            sels.append({"k": "field", "key": k, "name": f["name"], "sub": sub})
        if rng.random() < 0.3 and sels:
            k = key("__typename", used)
            sels.append({"k": "typename", "key": k})
        return sels

    def shape(t, mk):
        if t[0] == "NN":
            v = shape(t[1], mk)
            while v is None:
                v = shape(t[1], mk)
            return v
        if rng.random() < 0.1:
            return None
        if t[0] == "L":
            return [shape(t[1], mk) for _ in range(rng.choice([0, 1, 2, 3]))]
        return mk()

    def gen_obj(sels, runtime_name):
        """a dict value of the given runtime object type answering sels"""
        rt = types[runtime_name]
        v = {"__typename__": runtime_name}
        for p in sels:
            if p["k"] != "field":
                continue
            f = [g for g in rt["fields"] if g["name"] == p["name"]][0]
            base = _base(f["type"])
            if base in _LEAF_VALUES:
                v[f["name"]] = shape(f["type"], lambda: rng.choice(_LEAF_VALUES[base]))
            elif types[base]["kind"] == "OBJECT":
                v[f["name"]] = shape(f["type"], lambda: gen_obj(p["sub"], base))
            else:
                ps = possible(types[base])
                v[f["name"]] = shape(f["type"], lambda: gen_obj(p["sub"], rng.choice(ps)))
        return v

    rootname = dump["mutation"] if mutation else dump["query"]
    sels = gen_sels(rootname, 3)
    if not sels:
        sels = [{"k": "typename", "key": "__typename"}]
    root = gen_obj(sels, rootname)
    root.pop("__typename__", None)
    if not mutation:
        incl = rng.random() < 0.5
        desc = rng.random() < 0.5
        if rng.random() < 0.7:
            sels.insert(rng.randint(0, len(sels)), {"k": "schema", "key": rng.choice(["__schema", "sch"])})
        names = [t["name"] for t in dump["types"]]
        for i in range(rng.choice([0, 1, 1, 2])):
            sels.insert(rng.randint(0, len(sels)),
                        {"k": "type", "key": "__type" if i == 0 and rng.random() < 0.5 else "ty%d" % i,
                         "incl": incl, "desc": desc,
                         "name": rng.choice(names) if rng.random() < 0.85 else "NoSuchType"})
    return {"op": "probe", "mutation": mutation, "sels": sels, "root": root}


# --------------------------------------------------------------------------
# in-place edits of a live Schema object through the public visitor API
# (SchemaVisitor.on_schema edits the schema it is given; transform_schema()
# would clone first)
def apply_edit(schema, edit):
    from py_gql.schema import SchemaVisitor
    from py_gql.schema.transforms import VisibilitySchemaTransform

    k = edit["edit"]
    if k in ("hide_type", "hide_field", "hide_input_field", "hide_directive"):
        class Hide(VisibilitySchemaTransform):
            def is_type_visible(self, name):
                return not (k == "hide_type" and name == edit["name"])

            def is_field_visible(self, typename, fieldname):
                return not (k == "hide_field" and typename == edit["type"] and fieldname == edit["name"])

            def is_input_field_visible(self, typename, fieldname):
                return not (k == "hide_input_field" and typename == edit["type"] and fieldname == edit["name"])

            def is_directive_visible(self, name):
                return not (k == "hide_directive" and name == edit["name"])

        Hide().on_schema(schema)
    elif k == "hide_enum_value":
        class HideValue(SchemaVisitor):
            _cur = None

            def on_enum(self, enum_type):
                self._cur = enum_type.name
                return super().on_enum(enum_type)

            def on_enum_value(self, enum_value):
                if self._cur == edit["type"] and enum_value.name == edit["name"]:
                    return None
                return enum_value

        HideValue().on_schema(schema)
    elif k == "drop_interface":
        class Drop(SchemaVisitor):
            def on_object(self, object_type):
                if object_type.name == edit["type"]:
                    return object_type.__class__(
                        object_type.name, list(object_type.fields),
                        interfaces=[i for i in object_type.interfaces if i.name != edit["name"]],
                        default_resolver=object_type.default_resolver,
                        description=object_type.description, nodes=object_type.nodes)
                return object_type

        Drop().on_schema(schema)
    else:
        raise ValueError(k)
    return schema


def dangling(dump):
    """names referenced by the dump that are not in its registry (a stale
    reference left by an in-place edit: not representable by name)"""
    names = {t["name"] for t in dump["types"]}
    out = set()

    def ref(t):
        if _base(t) not in names:
            out.add(_base(t))
    for t in dump["types"]:
        for f in t.get("fields", []):
            ref(f["type"])
            for a in f["args"]:
                ref(a["type"])
        for iv in t.get("inputs", []):
            ref(iv["type"])
        for n in t.get("interfaces", []) + t.get("members", []):
            if n not in names:
                out.add(n)
    for d in dump["directives"]:
        for a in d["args"]:
            ref(a["type"])
    for n in (dump["query"], dump["mutation"], dump["subscription"]):
        if n is not None and n not in names:
            out.add(n)
    return sorted(out)


def gen_edit(rng, dump):
    """one in-place edit applicable to the schema as dumped (or None)"""
    user = [t for t in dump["types"] if not t["name"].startswith("__") and t["name"] not in BUILTIN]
    roots = {dump["query"], dump["mutation"], dump["subscription"]}
    members = sorted({m for t in user if t["kind"] == "UNION" for m in t["members"]}
                     | {t["name"] for t in user if t["kind"] == "OBJECT" and t["interfaces"]})
    cands = []
    for m in members:
        if m not in roots:
            cands += [{"edit": "hide_type", "name": m}] * 4          # an interface / union member
    for t in user:
        if t["name"] in roots:
            pass
        elif t["kind"] in ("ENUM", "INPUT_OBJECT", "SCALAR", "INTERFACE", "UNION", "OBJECT"):
            cands.append({"edit": "hide_type", "name": t["name"]})
        if t["kind"] in ("OBJECT", "INTERFACE") and len(t["fields"]) > 1:
            f = rng.choice(t["fields"])
            cands.append({"edit": "hide_field", "type": t["name"], "name": f["name"]})
        if t["kind"] == "INPUT_OBJECT" and len(t["inputs"]) > 1:
            cands.append({"edit": "hide_input_field", "type": t["name"], "name": rng.choice(t["inputs"])["name"]})
        if t["kind"] == "ENUM" and len(t["values"]) > 1:
            cands.append({"edit": "hide_enum_value", "type": t["name"], "name": rng.choice(t["values"])["name"]})
        if t["kind"] == "OBJECT" and t["interfaces"]:
            cands += [{"edit": "drop_interface", "type": t["name"], "name": rng.choice(t["interfaces"])}] * 2
    for d in dump["directives"]:
        if d["name"] not in ("skip", "include", "deprecated"):
            cands.append({"edit": "hide_directive", "name": d["name"]})
    return rng.choice(cands) if cands else None
