# -*- coding: utf-8 -*-
"""Program language of the C08/C09 correspondence: behaviour trees.

A *program* is the tree of resolver invocations an operation causes together
with what each resolver does (the "world" folded into the operation):

    program = {"op": "query" | "mutation", "fields": [fld, ...]}
    fld     = {"k": int,            response key  "k<k>"
               "m": "S"|"P"|"C",    how the resolver is provided (see below)
               "lv": int,           extra levels of nested futures/awaitables the
                                    resolver returns when it is deferred
               "nn": bool,          the field type is non-null
               "b": body}
    body    = ["int", z] | ["null"] | ["err"] | ["err", variant] | ["exn", x]
                                   variant 0..5: which ResolverError class / instance is raised
                                   (plain, with extensions, subclasses with one-argument /
                                   multi-positional / keyword-only constructors, a shared instance)
            | ["echo"]             the resolver returns the coerced value of its argument `dflt`: the one
                                   passed in f["args"], else the default declared by the *concrete*
                                   parent type (T: 100, T2: 200, Q: 300, M: 400); Coq: BInt of that
            | ["snull"]            the resolver returns a non-null value of the custom scalar Sc
                                   that *serialises to null* (completes to null)
            | ["sbad", x]          ... a value whose serialisation raises (RuntimeError tagged x
                                   raised by complete_value, not by the resolver)
            | ["obj", [fld, ...]] | ["list", inn, "int"|"obj"|"sc"|"abs", [item, ...]]
    item    = ["null"] | ["int", z] | ["obj", [fld, ...]] | ["obj", [fld, ...], "T2"] (concrete type of
              an item of an "abs" list; default "T") | ["snull"] (in an "sc" list)
            | ["raise", v] (any list kind): the resolver returns a *lazy iterable* (v = 0: a generator,
              v = 1: an iterator object) that raises a ResolverError at this position, after having
              yielded the items before it. Same policy and same Coq abstraction as ["bad"].
    (model-free cases only -- the Coq tree language has no nested lists; see props/c09.py nested cases:)
    body    = ... | ["list2", "llu"|"llr"|"llR", [row, ...]]    a list of lists of the union U
    row     = ["null"] | ["row", [item, ...]]                    items as in an "abs" list
            | ["bad"] (in an "abs" list: a list of the union type U; the item cannot be completed --
              U.resolve_type raises a ResolverError for it). Library policy: the items before it are
              started and run to completion, the items after it are never started, then the whole
              list field is null with exactly ONE error at the field's path. In the Coq abstraction
              the list is truncated before the bad item (same events, same timing) and the
              comparison nulls the field and expects the extra error (Run/C08run.v fix_data).
  In the Coq abstraction snull is BNull / ItNull ("the completed value is null") and
  sbad x is BExn x ("an unexpected exception is raised by the resolver or by completing
  its value"): the events and every observable of the machine are the same.

From a program this module derives a real GraphQL document over a fixed
schema (field name = shape + mode, e.g. `onC` = `T!` provided by a coroutine /
pool task, aliased to the response key) and the table path -> fld that the
generic resolvers consult through `info.path`; it runs the document through
`process_graphql_query` under the four configurations and serialises the
program's abstraction *for a given configuration* to the Coq type
`Exec.RuntimeMachine.fld`:

    mode  blocking x2         asyncio "aio" (no thread offload)  threadpool "pool" / asyncio "aiot" (thread offload, the default)
    S     attribute callable  attribute callable                 attribute callable   (default resolver over an object
                                                                                      *method* returning a plain value: immediate)
    A     default resolver over a (non-callable) object attribute                     immediate everywhere
    V     default resolver over a dict value (the parent is a Mapping; all its
          default-resolved fields are then V)                                         immediate everywhere
    D     default resolver over an object method that returns a *deferred* value: a coroutine under asyncio, a
          Future from info.runtime.submit under the thread pool (deferred there); a plain value under blocking
    P     plain function      plain function (immediate)         plain function -> handed to the pool / loop executor (deferred)
    C     plain function      coroutine function (deferred)      pool: plain function -> pool task; aiot: coroutine (deferred)
"""
from py_gql import build_schema, process_graphql_query
from py_gql.exc import ResolverError, ScalarSerializationError
from py_gql.schema import ScalarType
from collections.abc import Mapping
from py_gql.lang import parse
from py_gql.validation import validate_ast
from py_gql.execution import BlockingExecutor, Executor
from py_gql.execution.runtime import BlockingRuntime

import contextlib
import functools
import re
import sys

from . import sched

import warnings

# an early failure legitimately leaves sibling coroutines un-awaited (lazy coroutines)
warnings.filterwarnings("ignore", category=RuntimeWarning, message="coroutine .* was never awaited")

CONFIGS = ["bexec", "brt", "aio", "aiot", "pool", "poole", "poolh", "prom"]   # prom: a third-party Runtime (sched.PromiseRuntime)  # poole: pool + calls that finish before submit returns
MODES = ["S", "P", "C", "D", "A", "V"]
# schema field names: shape + mode (+ variant 0..2 for A and V, whose value is looked up by
# *name* on the parent: two response keys of one parent must not share such a field)
FIELD_SUFFIXES = ["S", "P", "C", "D"] + ["%s%d" % (m, i) for m in ("A", "V") for i in range(3)]


def field_names(fields):
    """response key -> schema field name for the fields of one parent"""
    names, seen = {}, {}
    for f in sorted(fields, key=lambda f: f["k"]):
        sh, m = shape_of(f), f["m"]
        if m in ("A", "V"):
            i = seen.get((sh, m), 0)
            seen[(sh, m)] = i + 1
            names[f["k"]] = "%s%s%d" % (sh, m, i)   # i > 2: no such field -> the generator avoids it
        else:
            names[f["k"]] = sh + m
    return names
SHAPES = {  # shape name -> (GraphQL type, non-null?, kind)
    "i": ("Int", False, "int"), "in": ("Int!", True, "int"),
    "o": ("T", False, "obj"), "on": ("T!", True, "obj"),
    "lo": ("[T]", False, "lobj"), "lon": ("[T]!", True, "lobj"),
    "lO": ("[T!]", False, "lobjn"), "lOn": ("[T!]!", True, "lobjn"),
    "li": ("[Int]", False, "lint"), "lin": ("[Int]!", True, "lint"),
    "lI": ("[Int!]", False, "lintn"), "lIn": ("[Int!]!", True, "lintn"),
    "lu": ("[U]", False, "labs"), "lun": ("[U]!", True, "labs"),      # U: a union whose resolve_type may raise
    "lU": ("[U!]", False, "labsn"), "lUn": ("[U!]!", True, "labsn"),
    "llu": ("[[U]]", False, "ll"), "llr": ("[[U]!]", False, "ll"), "llR": ("[[U!]!]!", True, "ll"),   # lists of lists
    "s": ("Sc", False, "sc"), "sn": ("Sc!", True, "sc"),
    "ls": ("[Sc]", False, "lsc"), "lsn": ("[Sc]!", True, "lsc"),
    "lS": ("[Sc!]", False, "lscn"), "lSn": ("[Sc!]!", True, "lscn"),
}


# ---- the family of resolver-error classes a failing resolver draws from (["err", variant]);
# the behaviour tree only says "fails with a resolver error"
class OneArgError(ResolverError):
    def __init__(self, code):
        super().__init__("resolver error: code %s" % code, extensions={"code": code})
        self.code = code


class InsufficientFunds(ResolverError):
    """multi-positional domain constructor computing message and extensions"""

    def __init__(self, balance, requested):
        super().__init__("resolver error: balance %d < %d" % (balance, requested),
                         extensions={"balance": balance, "requested": requested})
        self.balance, self.requested = balance, requested


class KeywordOnlyError(ResolverError):
    def __init__(self, *, reason, retry_after=0):
        super().__init__("resolver error: %s" % reason, extensions={"retry_after": retry_after})
        self.reason = reason


SHARED_ERROR = ResolverError("resolver error (shared instance)", extensions={"shared": True})
N_ERR_VARIANTS = 6


def make_error(variant):
    if variant == 1:
        return ResolverError("resolver error", extensions={"code": "E1", "detail": [1, 2]})
    if variant == 2:
        return OneArgError(42)
    if variant == 3:
        return InsufficientFunds(10, 25)
    if variant == 4:
        return KeywordOnlyError(reason="busy", retry_after=3)
    if variant == 5:
        return SHARED_ERROR
    return ResolverError("resolver error")


class BadItem:
    """a list item the union's resolve_type cannot type"""


def _resolve_u(value, _ctx, _info):
    if isinstance(value, BadItem):
        raise ResolverError("resolver error: untypable list item")
    return value._tname


class ScNull:
    """a non-null internal value of the custom scalar that serialises to null"""


class ScBad:
    def __init__(self, tag):
        self.tag = tag


def _sc_serialize(v):
    if isinstance(v, ScNull):
        return None
    if isinstance(v, ScBad):
        raise ScalarSerializationError("x%d" % v.tag)
    return v


def _sc_type():
    return ScalarType("Sc", serialize=_sc_serialize, parse=lambda v: v)


# schema layouts (program["layout"], default "distinct"): the property quantifies over all
# mutation operations whatever the schema looks like
#   distinct   query root Q, mutation root M, nested objects T (the three have the same fields)
#   shared     one ObjectType T is query root, mutation root and the nested object type
#   mutnested  query root Q; the mutation root T is also the type of every nested object
LAYOUTS = {"distinct": ("Q", "M", ["Q", "M", "T"]), "shared": ("T", "T", ["T"]),
           "mutnested": ("Q", "T", ["Q", "T"])}


# every field declares these (nullable Int) arguments: names that collide with parameters of the
# library's / the runtimes' own plumbing. f["args"] = {name: int} passes some of them in the query;
# resolvers take **kwargs and ignore them: arguments do not alter the behaviour tree.
ARG_POOL = ["fn", "func", "self", "args", "kwargs", "root", "ctx", "info", "callback", "value", "loop",
            "executor", "future", "timeout"]
# `root` and `info` are parameters of py_gql's default_resolver itself: passing them to a field
# without explicit resolver fails identically under every configuration on HEAD
ARGS_NOT_FOR_DEFAULT_RESOLVER = {"root", "info"}


def allowed_args(mode):
    return [a for a in ARG_POOL if mode in ("P", "C") or a not in ARGS_NOT_FOR_DEFAULT_RESOLVER]


# every field also declares `dflt: Int`, whose *default differs per concrete type*; T and T2 implement
# the interface IF (which declares it without default). An ["echo"] leaf returns the `dflt` it
# received, so the expected value depends on the concrete parent type (or on f["args"]["dflt"]).
DFLT = {"T": 100, "T2": 200, "Q": 300, "M": 400}


def _sdl(layout="distinct"):
    def fields(default):
        args = "(%s, dflt: Int%s)" % (", ".join("%s: Int" % a for a in ARG_POOL),
                                      "" if default is None else " = %d" % default)
        return "\n".join("  %s%s%s: %s" % (sh, m, args, SHAPES[sh][0]) for sh in SHAPES for m in FIELD_SUFFIXES)

    q, mu, types = LAYOUTS[layout]
    out = "scalar Sc\nunion U = T | T2\nschema { query: %s mutation: %s }\n" % (q, mu)
    out += "interface IF {\n%s\n}\n" % fields(None)
    for t in sorted(set(types) | {"T2"}):
        impl = " implements IF" if t in ("T", "T2") else ""
        out += "type %s%s {\n%s\n}\n" % (t, impl, fields(DFLT[t]))
    return out


def deferred(fld, config):
    if config in ("pool", "poole", "poolh", "aiot", "prom"):
        return fld["m"] in ("P", "C", "D")
    if config == "aio":
        return fld["m"] in ("C", "D")
    return False


def shape_of(fld):
    b = fld["b"]
    nn = fld["nn"]
    if b[0] == "obj":
        return "on" if nn else "o"
    if b[0] in ("snull", "sbad"):
        return "sn" if nn else "s"
    if b[0] == "list2":
        return b[1]
    if b[0] == "fan":
        return "lin" if nn else "li"
    if b[0] == "list":
        base = {"obj": "lo", "int": "li", "sc": "ls", "abs": "lu"}[b[2]]
        if b[1]:
            base = base[0] + base[1].upper()
        return base + ("n" if nn else "")
    # scalars, null, err, exn: any shape would do for null/err/exn; use the hint
    hint = fld.get("sh")
    if hint and b[0] in ("null", "err", "exn"):
        return hint
    return "in" if nn else "i"


def _root_type(program):
    q, mu, _types = LAYOUTS[program.get("layout", "distinct")]
    return mu if program["op"] == "mutation" else q


def doc_of(program):
    """the GraphQL document of a program. program["render"] (optional) is a plan for the
    *root* selection, f["render"] one for the sub-selection of an object field:
        plan = [item...];  item = ["f", key] | ["inline", typed: bool, plan] | ["spread", name, plan]
    Keys may occur several times (always with the identical sub-selection, so the occurrences
    merge); fields the plan does not mention are appended. The response key order of the
    operation is the order of first occurrence."""
    frag_defs = []

    def field_text(f, name):
        b = f["b"]
        sub = ""
        if b[0] == "obj":
            sub = " { %s }" % sel(b[1], f.get("render"), "T")
        elif b[0] == "list" and b[2] in ("obj", "abs"):
            # one selection for all items: union of the items' keys (same key => same field)
            merged = {}
            for it in b[3]:
                if it[0] == "obj":
                    for g in it[1]:
                        merged.setdefault(g["k"], g)
            inner = sel([merged[k] for k in sorted(merged)], None, "T") if merged else "__typename"
            # items of the union are T or T2: one selection on the interface both implement, i.e. one
            # AST field node executed against each concrete type
            sub = " { ... on IF { %s } }" % inner if b[2] == "abs" else " { %s }" % inner
        elif b[0] == "list2":
            merged = {}
            for row in b[2]:
                for it in (row[1] if row[0] == "row" else []):
                    if it[0] == "obj":
                        for g in it[1]:
                            merged.setdefault(g["k"], g)
            inner = sel([merged[k] for k in sorted(merged)], None, "T") if merged else "__typename"
            sub = " { ... on IF { %s } }" % inner
        elif SHAPES[shape_of(f)][2] in ("obj", "lobj", "lobjn", "labs", "labsn", "ll"):
            sub = " { __typename }"
        args = ""
        if f.get("args"):
            args = "(%s)" % ", ".join("%s: %d" % (a, v) for a, v in sorted(f["args"].items()))
        return "k%d: %s%s%s" % (f["k"], name, args, sub)

    def sel(fields, plan, tname, meta=None):
        by_key = {f["k"]: f for f in fields}
        names = field_names(fields)
        texts = {}
        used = set()

        def text(k):
            if k not in texts:
                texts[k] = field_text(by_key[k], names[k])
            return texts[k]

        def render(items):
            out = []
            for it in items:
                if it[0] == "f":
                    if it[1] in by_key:
                        used.add(it[1])
                        out.append(text(it[1]))
                elif it[0] == "inline":
                    inner = render(it[2])
                    if inner:
                        out.append("...%s { %s }" % (" on " + tname if it[1] else "", " ".join(inner)))
                else:
                    inner = render(it[2])
                    if inner:
                        frag_defs.append("fragment %s on %s { %s }" % (it[1], tname, " ".join(inner)))
                        out.append("..." + it[1])
            return out

        parts = render(plan or [])
        parts += [text(f["k"]) for f in fields if f["k"] not in used]
        for pos, name in sorted(meta or [], reverse=True):
            parts.insert(min(pos, len(parts)),
                         "__typename" if name == "__typename" else "__schema { queryType { name } }")
        return " ".join(parts)

    # program["meta"] = [[position, "__typename" | "__schema"], ...]: meta fields selected at the
    # root, inserted between the top-level items of the root selection
    body = sel(program["fields"], program.get("render"), _root_type(program), program.get("meta"))
    return "%s { %s }%s" % (program["op"], body, "".join(" " + d for d in frag_defs))


def key_order_of(text):
    """response keys of the operation in order of first occurrence, at every level, computed
    from the *document* by an independent grouping (fields, inline fragments and fragment
    spreads flattened in document order; sub-selections of the occurrences of one key
    concatenated) -- not by the library's collect_fields. Returns [(key, children), ...]."""
    from py_gql.lang import ast as A
    doc = parse(text)
    frags = {d.name.value: d for d in doc.definitions if isinstance(d, A.FragmentDefinition)}
    op = [d for d in doc.definitions if isinstance(d, A.OperationDefinition)][0]

    def group(selsets):
        order, nodes = [], {}

        def walk(sels):
            for s_ in sels:
                if isinstance(s_, A.Field):
                    if s_.name.value.startswith("__"):
                        continue      # meta fields are not part of the behaviour tree
                    k = s_.alias.value if s_.alias else s_.name.value
                    if k not in nodes:
                        order.append(k)
                        nodes[k] = []
                    nodes[k].append(s_)
                elif isinstance(s_, A.InlineFragment):
                    walk(s_.selection_set.selections)
                else:
                    walk(frags[s_.name.value].selection_set.selections)

        for ss in selsets:
            walk(ss)
        return [(k, group([n.selection_set.selections for n in nodes[k] if n.selection_set]))
                for k in order]

    return group([op.selection_set.selections])


def ordered_program(program):
    """the program with its fields, at every level, in the document's first-occurrence order"""
    tree = key_order_of(doc_of(program))

    def reorder(fields, children):
        pos = {k: i for i, (k, _c) in enumerate(children)}
        sub = dict(children)
        out = []
        for f in sorted(fields, key=lambda f: pos["k%d" % f["k"]]):
            b = f["b"]
            ch = sub["k%d" % f["k"]]
            if b[0] == "obj":
                f = dict(f, b=["obj", reorder(b[1], ch)])
            elif b[0] == "list" and b[2] in ("obj", "abs"):
                f = dict(f, b=b[:3] + [[["obj", reorder(it[1], ch)] + it[2:] if it[0] == "obj" else it for it in b[3]]])
            out.append(f)
        return out

    return dict(program, fields=reorder(program["fields"], tree))


def world_of(program):
    """path -> fld, and (parent path, schema field name) -> response key for A / V fields"""
    table, by_name = {}, {}

    def level(path, fields):
        for k, name in field_names(fields).items():
            by_name[(path, name)] = "k%d" % k
        for f in fields:
            walk(path, f)

    def walk(path, f):
        p = path + ("k%d" % f["k"],)
        table[p] = f
        b = f["b"]
        if b[0] == "obj":
            level(p, b[1])
        elif b[0] == "list":
            for i, it in enumerate(b[3]):
                if it[0] == "obj":
                    level(p + (i,), it[1])
        elif b[0] == "list2":
            for i, row in enumerate(b[2]):
                for j, it in enumerate(row[1] if row[0] == "row" else []):
                    if it[0] == "obj":
                        level(p + (i, j), it[1])

    level((), program["fields"])
    table["by_name"] = by_name
    return table


class Obj:
    """a resolved object, for the default resolver: S fields are methods returning a plain
    value, D fields methods returning a deferred value, A fields plain attributes"""

    def __init__(self, run, path, tname="T"):
        self._run = run
        self._path = path
        self._tname = tname

    def __getattr__(self, name):
        if name.startswith("_"):
            raise AttributeError(name)
        if name.endswith("S"):
            return self._run.immediate
        if name.endswith("D"):
            return self._run.method_deferred
        if name[-2:-1] == "A":
            return self._run.lookup(self._path, name)
        raise AttributeError(name)


class DictObj(Mapping):
    """a resolved object that is a Mapping: the default resolver returns root.get(name)"""

    def __init__(self, run, path, tname="T"):
        self._run = run
        self._path = path
        self._tname = tname

    def get(self, name, default=None):
        if name[-2:-1] != "V":
            return default
        return self._run.lookup(self._path, name)

    def __getitem__(self, name):
        return self.get(name)

    def __iter__(self):
        return iter(())

    def __len__(self):
        return 0


def _mw(next_, root, ctx, info, /, **args):
    return next_(root, ctx, info, **args)


class _RaisingIterator:
    """a lazy iterable that is not a generator: yields the items, then raises"""

    def __init__(self, items):
        self._items = list(items)
        self._i = 0

    def __iter__(self):
        return self

    def __next__(self):
        if self._i < len(self._items):
            self._i += 1
            return self._items[self._i - 1]
        raise ResolverError("resolver error: the iterable failed part-way")


def _raising_iterable(items, variant):
    if variant == 1:
        return _RaisingIterator(items)

    def gen():
        for x in items:
            yield x
        raise ResolverError("resolver error: the generator failed part-way")

    return gen()


class _At:
    """stands in for `info` in the label of a call parked by a controller"""
    def __init__(self, path):
        self.path = list(path)


def fan_value(b):
    return [e[1] if e[0] in ("p", "w") else 2 * e[1] + 2 if e[0] == "m" else 2 * e[1] + 1 for e in b[2]]


class _Run:
    def __init__(self, program, config, ctl):
        self.world = world_of(program)
        self.config = config
        self.ctl = ctl

    def obj(self, path, fields, tname="T"):
        kind = DictObj if any(f["m"] == "V" for f in fields) else Obj
        return kind(self, path, tname)

    def lookup(self, parent_path, name):
        """an attribute / dict value of the parent: evaluated (and logged) when the default
        resolver reads it"""
        p = parent_path + (self.world["by_name"][(parent_path, name)],)
        self.ctl.log("invoke", (p, 0))
        self.ctl.log("finish", (p, 0))
        return self.behave(self.world[p], p)

    def behave(self, fld, p, a=None, info=None):
        b = fld["b"]
        if b[0] == "int":
            return b[1]
        if b[0] == "fan":
            return self.fan(b, p, info)
        if b[0] == "echo":
            return (a or {}).get("dflt")     # the coerced argument the resolver received
        if b[0] == "null":
            return None
        if b[0] == "err":
            raise make_error(b[1] if len(b) > 1 else 0)
        if b[0] == "exn":
            raise RuntimeError("x%d" % b[1])
        if b[0] == "snull":
            return ScNull()
        if b[0] == "sbad":
            return ScBad(b[1])
        if b[0] == "obj":
            return self.obj(p, b[1])
        if b[0] == "list2":
            rows = []
            for i, row in enumerate(b[2]):
                if row[0] == "null":
                    rows.append(None)
                    continue
                rows.append([None if it[0] == "null" else BadItem() if it[0] == "bad"
                             else self.obj(p + (i, j), it[1], it[2] if len(it) > 2 else "T")
                             for j, it in enumerate(row[1])])
            return rows
        out = []
        for i, it in enumerate(b[3]):
            if it[0] == "raise":
                return _raising_iterable(out, it[1] if len(it) > 1 else 0)
            out.append(None if it[0] == "null" else it[1] if it[0] == "int"
                       else ScNull() if it[0] == "snull" else BadItem() if it[0] == "bad"
                       else self.obj(p + (i,), it[1], it[2] if len(it) > 2 else "T"))
        return out

    def fan(self, b, p, info):
        """["fan", kind, entries, wrap]: the resolver fans out through the runtime API itself and
        returns runtime.gather_values(<generator | iterator | list | tuple>) of entries
            ["p", n] a plain value            ["w", n] runtime.ensure_wrapped(n)
            ["s", n] runtime.submit(work, n)  ["m", n] runtime.map_value(runtime.submit(work, n), +1)
            ["a", n] runtime.submit(<coroutine function>, n) under asyncio (else as "s")
        optionally mapped ("m" in wrap) / wrapped ("w" in wrap) again. fan_value() is the list it
        stands for under every runtime."""
        rt = info.runtime

        def work(_r, _c, _i, n):
            return 2 * n + 1

        async def awork(_r, _c, i, n):
            await self.ctl.gate((tuple(i.path), 0))
            return 2 * n + 1

        def entry(i, e):
            at = _At(p + (1000 + i,))       # gives the parked call its label
            if e[0] == "p":
                return e[1]
            if e[0] == "w":
                return rt.ensure_wrapped(e[1])
            if e[0] == "a" and self.config in ("aio", "aiot"):
                return rt.submit(awork, None, None, at, e[1])
            sub = rt.submit(work, None, None, at, e[1])
            return rt.map_value(sub, lambda v: v + 1) if e[0] == "m" else sub

        kind, entries, wrap = b[1], b[2], (b[3] if len(b) > 3 else "")
        if kind == "gen":
            values = (entry(i, e) for i, e in enumerate(entries))
        else:
            made = [entry(i, e) for i, e in enumerate(entries)]
            values = iter(made) if kind == "iter" else tuple(made) if kind == "tuple" else made
        res = rt.gather_values(values)
        if "m" in wrap:
            res = rt.map_value(res, lambda vs: [v for v in vs])
        if "w" in wrap:
            res = rt.ensure_wrapped(res)
        return res

    # S everywhere; P/C under the blocking configurations; P under asyncio
    def immediate(self, _ctx, info, /, **_a):
        p = tuple(info.path)
        self.ctl.log("invoke", (p, 0))
        self.ctl.log("finish", (p, 0))
        return self.behave(self.world[p], p, _a, info)

    # D: a method of the parent object (default resolver) that returns a deferred value
    def method_deferred(self, ctx, info, /, **a):
        if self.config in ("aio", "aiot"):
            return self.coro(None, ctx, info, **a)          # a coroutine object
        if self.config == "pool":
            # a Future (a Deferred under the third-party runtime); the arguments travel in a partial:
            # Runtime.submit(func, *args, **kwargs) has parameters of its own
            return info.runtime.submit(functools.partial(self.pooled, None, ctx, info, **a))
        return self.immediate(ctx, info, **a)

    def plain(self, _root, ctx, info, /, **a):
        return self.immediate(ctx, info, **a)

    # P/C under the pool: the body runs when the controller completes the parked call
    def pooled(self, _root, _ctx, info, /, **_a):
        p = tuple(info.path)
        fld = self.world[p]

        def level(l):
            if l < fld["lv"]:
                return self.ctl.defer((p, l + 1), level, l + 1)
            return self.behave(fld, p, _a, info)

        return level(0)

    # P under asyncio with thread offload (AsyncIORuntime's default): the body runs when the
    # controller completes the parked executor call; further levels are awaitables
    def offloaded(self, _root, _ctx, info, /, **_a):
        p = tuple(info.path)
        fld = self.world[p]

        async def level(l):
            await self.ctl.gate((p, l))
            if l < fld["lv"]:
                return level(l + 1)
            return self.behave(fld, p, _a, info)

        if fld["lv"] > 0:
            return level(1)
        return self.behave(fld, p, _a, info)

    # C under asyncio
    async def coro(self, _root, _ctx, info, /, **_a):
        p = tuple(info.path)
        fld = self.world[p]

        async def level(l):
            await self.ctl.gate((p, l))
            if l < fld["lv"]:
                return level(l + 1)
            return self.behave(fld, p, _a, info)

        return await level(0)


class _NullCtl:
    def __init__(self):
        self.events = []
        self.swallowed = []

    def log(self, kind, label):
        self.events.append([kind, label])


_SCHEMAS = {}


def _schema(config, run_box, layout="distinct"):
    """one schema per configuration and layout (resolvers dispatch to the current run)"""
    if (config, layout) in _SCHEMAS:
        return _SCHEMAS[(config, layout)]
    schema = build_schema(_sdl(layout), additional_types=[_sc_type()])
    schema.get_type("U").resolve_type = _resolve_u
    for tname in sorted(set(LAYOUTS[layout][2]) | {"T2"}):
        for sh in SHAPES:
            for m in ("P", "C"):
                if config in ("aio", "aiot") and m == "C":
                    async def r(_p0, _p1, _p2, /, **a):   # names that cannot collide with an argument
                        return await run_box[0].coro(_p0, _p1, _p2, **a)
                elif config == "aiot":
                    def r(_p0, _p1, _p2, /, **a):
                        return run_box[0].offloaded(_p0, _p1, _p2, **a)
                elif config == "pool":
                    def r(_p0, _p1, _p2, /, **a):
                        return run_box[0].pooled(_p0, _p1, _p2, **a)
                else:
                    def r(_p0, _p1, _p2, /, **a):
                        return run_box[0].plain(_p0, _p1, _p2, **a)
                schema.register_resolver(tname, sh + m, r)
    _SCHEMAS[(config, layout)] = schema
    return schema


_BOX = [None]
_DOCS = {}


def _validated(schema, program, config):
    """parse + validate once per (document, schema layout); the runs then pass
    the validated Document with validators=[] (validation is schedule-independent
    and dominates the run time otherwise)"""
    text = doc_of(program)
    key = (program.get("layout", "distinct"), text)   # the schemas of the configurations differ in resolvers only
    if key not in _DOCS:
        if len(_DOCS) > 2000:
            _DOCS.clear()
        doc = parse(text)
        res = validate_ast(schema, doc)
        if not res:
            raise AssertionError("generated operation is invalid: %s / %s" % (text, [str(e) for e in res.errors]))
        _DOCS[key] = doc
    return _DOCS[key]


def _exc_obs(e):
    if isinstance(e, RuntimeError):
        msg = str(e)
        if msg.startswith("x") and msg[1:].isdigit():
            return {"fail": int(msg[1:])}
        m = re.search(r'cannot be serialized as "Sc!?": x(\d+)$', msg)
        if m:
            return {"fail": int(m.group(1))}
    return {"fail_other": type(e).__name__, "msg": str(e)[:200]}


def _seg(x):
    if isinstance(x, str):  # response keys are "k<N>"; anything else (e.g. __typename) is foreign
        return int(x[1:]) if x[:1] == "k" and x[1:].isdigit() else 999999
    return int(x)


def _is_meta(lb):
    return any(isinstance(x, str) and x.startswith("__") for x in lb[0])


def _label(lb):
    return [[_seg(x) for x in lb[0]], lb[1]]


class _BadData(Exception):
    pass


def _data(v):
    """GraphQL data -> JSON form with numeric keys (ordered pairs)"""
    if v is None or (isinstance(v, int) and not isinstance(v, bool)):
        return v
    if isinstance(v, list):
        return {"l": [_data(x) for x in v]}
    if isinstance(v, dict):
        return {"o": [[_seg(k), _data(x)] for k, x in v.items()]}
    raise _BadData(type(v).__name__)  # e.g. a Future / coroutine leaked into the response


def _strip_meta(data, program):
    """root meta fields (program["meta"]): absent when introspection is disabled, else present with
    their well-known values at their document position; they are checked here and removed (they are
    not part of the behaviour tree). Anything unexpected is left in place and so fails the comparison."""
    if not isinstance(data, dict) or program is None or not program.get("meta"):
        return data
    if program.get("nointro"):
        return data               # nothing to strip: a meta key that shows up is foreign
    if not program.get("render"):
        want = ["k%d" % f["k"] for f in program["fields"]]
        for pos, name in sorted(program["meta"], reverse=True):
            want.insert(min(pos, len(want)), name)
        if list(data.keys()) != want:
            return data
    qname = LAYOUTS[program.get("layout", "distinct")][0]
    out = type(data)()
    for k, v in data.items():
        if k == "__typename" and v == _root_type(program):
            continue
        if k == "__schema" and v == {"queryType": {"name": qname}}:
            continue
        out[k] = v
    return out


def _result_obs(res, program=None):
    try:
        data = _data(_strip_meta(res.data, program))
    except _BadData as e:
        return {"fail_other": "BadData", "msg": "response data contains a %s" % e}
    errs = []
    for e in res.errors:
        kind = "nn" if "is not nullable" in e.message else ("res" if e.message.startswith("resolver error") else "other:" + e.message[:80])
        errs.append([[_seg(x) for x in (e.path or [])], kind])
    return {"data": data, "errors": errs}


def _finish_obs(ctl, state, first, schedule, extra=None, program=None):
    kind, val = state
    if kind == "pending":
        obs = {"pending": True}
    elif kind == "raised":
        obs = _exc_obs(val)
    else:
        obs = _result_obs(val, program)
    if first is not None and first[0] != "pending":
        fo = _exc_obs(first[1]) if first[0] == "raised" else _result_obs(first[1], program)
        if fo != {k: v for k, v in obs.items() if k in fo}:
            obs["changed_after_completion"] = fo
    # root meta fields (program["meta"]) are not part of the behaviour tree: their resolver is a
    # leaf without effects; its tasks / events are left out of the observation
    obs["events"] = [[k, _label(lb)] for k, lb in ctl.events if not _is_meta(lb)]
    obs["schedule"] = [_label(lb) for lb in schedule if not _is_meta(lb)]
    obs["leftover"] = extra.get("leftover", 0) if extra else 0
    obs["eager"] = [_label(lb) for lb in (extra or {}).get("eager", []) if not _is_meta(lb)]
    obs["swallowed"] = sorted(set(ctl.swallowed))
    return obs


@contextlib.contextmanager
def _interpreter_default_recursion_limit():
    """./check raises the recursion limit for its own (Coq term building) needs; the
    implementation runs under CPython's default so that recursion proportional to the size of
    the operation is seen as it would be in an application"""
    old = sys.getrecursionlimit()
    sys.setrecursionlimit(1000)
    try:
        yield
    finally:
        sys.setrecursionlimit(old)


def run_blocking(program, config):
    ctl = _NullCtl()
    run = _Run(program, config, ctl)
    _BOX[0] = run
    schema = _schema(config, _BOX, program.get("layout", "distinct"))
    cls = BlockingExecutor if config == "bexec" else Executor
    try:
        doc = _validated(schema, program, config)
        with _interpreter_default_recursion_limit():
            res = process_graphql_query(schema, doc, root=run.obj((), program["fields"]), middlewares=([_mw] if program.get("mw") else None), disable_introspection=bool(program.get("nointro")), validators=[],
                                        runtime=BlockingRuntime(), executor_cls=cls)
        state = ("ok", res)
    except Exception as e:  # noqa
        state = ("raised", e)
    return _finish_obs(ctl, state, None, [], program=program)


def run_scheduled(program, config, choose, timeout=None):
    """one run under `config` in {"aio","aiot","pool","poole"}; choose(sorted labels) -> label.
    poole: at every submission the schedule also chooses whether the call completes before
    submit returns (choose(["0park", "1now"])); offered for a first-level call and for the
    next level of a call that itself completed that way"""
    eager = []
    if config == "poole":
        def is_eager(lb):
            if lb[1] > 0 and (lb[0], lb[1] - 1) not in eager:
                return False
            if choose(["0park", "1now"]) == "1now":
                eager.append(lb)
                return True
            return False
        ctl = sched.PoolController(eager=is_eager)
    elif config == "poolh":
        # the just-submitted call may complete right after any runtime.map_value returned (e.g.
        # between execute_fields_serially chaining a field's value and its next statement); for
        # the model this is a call that finished before its submitter went on
        def is_handoff(lb):
            if lb[1] > 0 and (lb[0], lb[1] - 1) not in eager:
                return False
            if choose(["0wait", "1now"]) == "1now":
                eager.append(lb)
                return True
            return False
        ctl = sched.PoolController(handoff=is_handoff)
    elif config == "prom":
        ctl = sched.PromiseController()
    else:
        ctl = sched.PoolController() if config == "pool" else sched.LoopController(config == "aiot")
    base = "pool" if config in ("poole", "poolh", "prom") else config
    try:
        run = _Run(program, base, ctl)
        _BOX[0] = run
        schema = _schema(base, _BOX, program.get("layout", "distinct"))
        schedule = []
        doc = _validated(schema, program, base)
        try:
            with sched.watchdog(timeout), _interpreter_default_recursion_limit():
                ctl.start(lambda: process_graphql_query(
                    schema, doc, root=run.obj((), program["fields"]), middlewares=([_mw] if program.get("mw") else None), disable_introspection=bool(program.get("nointro")), validators=[], runtime=ctl.runtime, executor_cls=Executor))
                schedule = _drive(ctl, choose, schedule)
        except sched.Hang:
            obs = {"hang": True, "events": [[k, _label(lb)] for k, lb in ctl.events],
                   "schedule": [_label(lb) for lb in schedule], "leftover": 0, "swallowed": [],
                   "eager": [_label(lb) for lb in eager]}
            return obs
        return _finish_obs(ctl, ctl.outcome(), ctl.first_outcome(), schedule, program=program, extra=
                           {"leftover": ctl.leftover(), "eager": eager})
    finally:
        ctl.close()


def _drive(ctl, choose, schedule):
    for _ in range(10000):
        labels = sorted(ctl.parked(), key=repr)
        if not labels:
            return schedule
        lb = choose(labels)
        schedule.append(lb)
        ctl.complete(lb)
    raise sched.Hang()


def run_threads(program, rng, timeout=None):
    """pool runtime, parked calls completed from several OS threads at once; some calls
    complete before submit returns"""
    p_eager = rng.choice([0.0, 0.0, 0.3, 0.7])
    ctl = sched.PoolController(eager=lambda _lb: rng.random() < p_eager)
    try:
        run = _Run(program, "pool", ctl)
        _BOX[0] = run
        schema = _schema("pool", _BOX, program.get("layout", "distinct"))
        schedule = []
        ok = True
        doc = _validated(schema, program, "pool")
        ctl.start(lambda: process_graphql_query(
            schema, doc, root=run.obj((), program["fields"]), middlewares=([_mw] if program.get("mw") else None), disable_introspection=bool(program.get("nointro")), validators=[], runtime=ctl.runtime, executor_cls=Executor))
        for _ in range(10000):
            labels = sorted(ctl.parked(), key=repr)
            if not labels:
                break
            n = rng.randint(1, min(4, len(labels)))
            batch = rng.sample(labels, n)
            schedule.extend(batch)
            if not ctl.complete_concurrently(batch, timeout or sched.TIMEOUT[0]):
                ok = False
                break
        if not ok:
            return {"hang": True, "events": [], "schedule": [_label(lb) for lb in schedule],
                    "leftover": 0, "swallowed": []}
        return _finish_obs(ctl, ctl.outcome(), ctl.first_outcome(), schedule, program=program, extra=
                           {"leftover": ctl.leftover()})
    finally:
        ctl.close()


# ------------------------------------------------------------------ Coq terms
def cz(n):
    return "(%d)%%Z" % n


def c_fld(f, config, ptype="T"):
    d = "(Some (N.to_nat %d, O))" % f["lv"] if deferred(f, config) else "None"
    b = f["b"]
    if b[0] == "echo":     # the value the resolver must have received for `dflt`
        b = ["int", f.get("args", {}).get("dflt", DFLT[ptype])]
    return "(Fld %d %s %s %s)" % (f["k"], d, "true" if f["nn"] else "false", c_body(b, config))


def c_flds(fs, config, ptype="T"):
    out = "FNil"
    for f in reversed(fs):
        out = "(FCons %s %s)" % (c_fld(f, config, ptype), out)
    return out


def c_body(b, config):
    if b[0] == "int":
        return "(BInt %s)" % cz(b[1])
    if b[0] in ("null", "snull"):
        return "BNull"
    if b[0] == "sbad":
        return "(BExn %d)" % b[1]
    if b[0] == "err":
        return "BErr"
    if b[0] == "exn":
        return "(BExn %d)" % b[1]
    if b[0] == "obj":
        return "(BObj %s)" % c_flds(b[1], config)
    items = "INil"
    its = b[3]
    for j, it in enumerate(its):
        if it[0] in ("bad", "raise"):      # the items after it are never started
            its = its[:j]
            break
    for it in reversed(its):
        if it[0] in ("null", "snull"):
            t = "ItNull"
        elif it[0] == "int":
            t = "(ItInt %s)" % cz(it[1])
        else:
            t = "(ItObj %s)" % c_flds(it[1], config, it[2] if len(it) > 2 else "T")
        items = "(ICons %s %s)" % (t, items)
    return "(BList %s %s)" % ("true" if b[1] else "false", items)


def c_prog(program, config):
    program = ordered_program(program)   # field order = first-occurrence order in the document
    return "(Prog %s %s)" % ("true" if program["op"] == "mutation" else "false",
                             c_flds(program["fields"], config, _root_type(program)))


def c_val(v):
    if v is None:
        return "VNull"
    if isinstance(v, int):
        return "(VInt %s)" % cz(v)
    if "l" in v:
        return "(VList [%s])" % "; ".join(c_val(x) for x in v["l"])
    return "(VObj [%s])" % "; ".join("(%d, %s)" % (k, c_val(x)) for k, x in v["o"])


def c_path(p):
    return "[%s]" % "; ".join(str(x) for x in p)


def c_tid(lb):
    return "(%s, N.to_nat %d)" % (c_path(lb[0]), lb[1])


def c_entry_err(e):
    kind = {"nn": "ENonNull", "res": "EResolver"}.get(e[1], "EOther")
    return "(LErr %s %s)" % (c_path(e[0]), kind)


def c_event(ev):
    return "(%s %s)" % ("LInvoke" if ev[0] == "invoke" else "LFinish", c_tid(ev[1]))


def bad_paths(program):
    """numeric paths of the list fields that contain an item that cannot be completed"""
    out = []

    def walk(path, f):
        p = path + [f["k"]]
        b = f["b"]
        if b[0] == "obj":
            for g in b[1]:
                walk(p, g)
        elif b[0] == "list":
            for i, it in enumerate(b[3]):
                if it[0] in ("bad", "raise"):
                    out.append(p)
                    break
                if it[0] == "obj":
                    for g in it[1]:
                        walk(p + [i], g)

    for f in program["fields"]:
        walk([], f)
    return out


def c_obs(obs, bad=()):
    """Coq term of type Run.C08run.obs"""
    if obs.get("hang"):
        core = "OHang"
    elif obs.get("pending"):
        core = "OPending"
    elif "fail" in obs:
        core = "(OFail %d)" % obs["fail"]
    elif "fail_other" in obs:
        core = "OFailOther"
    else:
        core = "(OData %s [%s])" % (c_val(obs["data"]), "; ".join(c_entry_err(e) for e in obs["errors"]))
    return "(MkObs [%s] %s [%s] %d %s [%s] [%s])" % (
        "; ".join(c_tid(t) for t in obs["schedule"]), core,
        "; ".join(c_event(e) for e in obs["events"]), obs.get("leftover", 0),
        "true" if obs.get("changed_after_completion") else "false",
        "; ".join(c_tid(t) for t in obs.get("eager", [])),
        "; ".join(c_path(p) for p in bad))
