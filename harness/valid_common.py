# -*- coding: utf-8 -*-
"""Implementation drivers shared by the C05 and C06 checks."""
from py_gql import build_schema
from py_gql.lang import parse
from py_gql.validation import validate_ast
from py_gql.validation.validate import SPECIFIED_RULES, default_validator

from . import gen_valid, ser, ser_valid

POOL = ser_valid.SchemaPool()
_SCHEMAS = {}
_RULES_CACHE = {}
REPO_TAG = 0


def schema_of(sdl):
    if sdl not in _SCHEMAS:
        _SCHEMAS[sdl] = build_schema(sdl)
    return _SCHEMAS[sdl]


ALT_RULES_ALL = False   # thorough tier: every rule class also on the alternative parses


def parse_case(case, mode="loc"):
    """mode loc: the text with locations (this is what the model sees);
    noloc: parse(text, no_location=True) -- every node's loc is None;
    parts: a Document assembled from separately parsed sources (case["parts"]),
    so that the locations of nodes of different definitions coincide"""
    ats = bool(case.get("ats"))
    if mode == "noloc":
        return parse(case["text"], allow_type_system=ats, no_location=True)
    if mode == "parts":
        from py_gql.lang import ast as _ast
        defs = []
        for t in case["parts"]:
            defs.extend(parse(t, allow_type_system=ats).definitions)
        return _ast.Document(definitions=defs)
    return parse(case["text"], allow_type_system=ats)


def _alt_rules(case):
    if ALT_RULES_ALL:
        return list(range(1, 27))
    import zlib
    h = zlib.crc32(case["text"].encode("utf-8"))
    return sorted({25} | {i for i in range(1, 27) if (h + i) % 5 == 0})


def _run_alt(case, schema, mode):
    raised, reported, rules = [], [], _alt_rules(case)
    try:
        doc = parse_case(case, mode)
    except Exception as e:  # noqa
        return {"parse_exc": [type(e).__name__, str(e)[:120]]}
    for i in rules:
        cls = SPECIFIED_RULES[i - 1]
        try:
            res = validate_ast(schema, doc, validators=[_only(cls)])
            if res.errors:
                reported.append(i)
        except Exception as e:  # noqa
            raised.append([i, type(e).__name__, str(e)[:120]])
    out = {"rules": rules, "raised": raised, "reported": reported}
    try:
        out["full"] = len(validate_ast(schema, parse_case(case, mode)).errors)
    except Exception as e:  # noqa
        out["full_exc"] = [type(e).__name__, str(e)[:120]]
    return out


def _only(cls):
    return lambda s, d, v: default_validator(s, d, v, validators=[cls])


def run_rules(case):
    """each rule class alone through the public validators= parameter, then
    the default validator; returns a JSON-able observable"""
    key = _key(case)
    if key in _RULES_CACHE:
        return dict(_RULES_CACHE[key])
    schema = schema_of(case["sdl"])
    raised, reported = [], []
    doc = parse_case(case)
    for i, cls in enumerate(SPECIFIED_RULES, 1):
        try:
            res = validate_ast(schema, doc, validators=[_only(cls)])
            if not isinstance(res.errors, list):
                raised.append([i, "not-a-list"])
            elif res.errors:
                reported.append(i)
        except Exception as e:  # noqa
            raised.append([i, type(e).__name__, str(e)[:120]])
    obs = {"raised": raised, "reported": reported}
    try:
        full = validate_ast(schema, parse_case(case))
        obs["full"] = len(full.errors)
    except Exception as e:  # noqa
        obs["full_exc"] = [type(e).__name__, str(e)[:120]]
    obs["noloc"] = _run_alt(case, schema, "noloc")
    if case.get("parts"):
        obs["parts"] = _run_alt(case, schema, "parts")
    _RULES_CACHE[key] = dict(obs)
    return obs


def _key(case):
    return (REPO_TAG, case["sdl"], case["text"], bool(case.get("ats")), tuple(case.get("parts") or ()))


def rules_direct_checks(case, obs):
    out = []
    for mode, what in (("noloc", "parsing-without-locations"), ("parts", "assembling-separately-parsed-sources")):
        alt = obs.get(mode)
        if not alt:
            continue
        if alt.get("raised") or "full_exc" in alt or "parse_exc" in alt:
            out.append(("validation-returns-its-error-list-without-raising", None))
        elif not obs.get("raised") and "full" in obs:
            if [r for r in obs["reported"] if r in alt["rules"]] != alt["reported"]:
                out.append(("per-rule-verdict-unchanged-by-%s" % what, None))
            elif (alt["full"] > 0) != (obs["full"] > 0):
                out.append(("default-validator-verdict-unchanged-by-%s" % what, None))
    if obs.get("raised") or "full_exc" in obs:
        out.append(("validation-returns-its-error-list-without-raising", None))
    elif (obs["full"] > 0) != bool(obs["reported"]):
        out.append(("default-validator-verdict-equals-the-union-of-its-rules", None))
    lab = case.get("label")
    if lab and not obs.get("raised") and lab not in obs["reported"]:
        out.append(("single-violation-is-attributed-to-its-rule", None))
    return out


def schema_ref(case):
    return POOL.ref(case["sdl"], schema_of(case["sdl"]))


def header():
    return "Local Open Scope N_scope.\n" + POOL.header


def rules_term(case, obs):
    doc = parse_case(case)
    return "(%s, %s)" % (schema_ref(case), ser.cdoc(doc))


def nlist(xs):
    return "[" + "; ".join(str(x) for x in xs) + "]"


def label_name(i):
    return gen_valid.RULES[i - 1]


def _worker(case):
    try:
        return run_rules(case)
    except Exception:  # noqa  (left to run_impl, which reports it as a harness error)
        return None


def prefetch(cases):
    """run the (slow, pure) per-rule validation of all cases on a process pool
    and keep the observables; run_impl then finds them in the cache"""
    import multiprocessing
    todo, seen = [], set()
    for c in cases:
        key = _key(c)
        if key not in seen and key not in _RULES_CACHE:
            seen.add(key)
            todo.append(c)
    if len(todo) < 8:
        return
    for c in todo:
        schema_of(c["sdl"])
    try:
        with multiprocessing.get_context("fork").Pool(14) as pool:
            res = pool.map(_worker, todo, chunksize=4)
    except Exception:  # noqa
        return
    for c, o in zip(todo, res):
        if o is not None:
            _RULES_CACHE[_key(c)] = o
