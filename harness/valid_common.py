# -*- coding: utf-8 -*-
"""Implementation drivers shared by the C05 and C06 checks."""
from py_gql import build_schema
from py_gql.lang import parse
from py_gql.validation import validate_ast
from py_gql.validation.validate import SPECIFIED_RULES, default_validator

from . import gen_valid, ser, ser_valid

POOL = ser_valid.SchemaPool()
_SCHEMAS = {}
_RULES_CACHE = {}
REPO_TAG = 0


def schema_of(sdl):
    if sdl not in _SCHEMAS:
        _SCHEMAS[sdl] = build_schema(sdl)
    return _SCHEMAS[sdl]


def parse_case(case):
    return parse(case["text"], allow_type_system=bool(case.get("ats")))


def _only(cls):
    return lambda s, d, v: default_validator(s, d, v, validators=[cls])


def run_rules(case):
    """each rule class alone through the public validators= parameter, then
    the default validator; returns a JSON-able observable"""
    key = (REPO_TAG, case["sdl"], case["text"], bool(case.get("ats")))
    if key in _RULES_CACHE:
        return dict(_RULES_CACHE[key])
    schema = schema_of(case["sdl"])
    raised, reported = [], []
    doc = parse_case(case)
    for i, cls in enumerate(SPECIFIED_RULES, 1):
        try:
            res = validate_ast(schema, doc, validators=[_only(cls)])
            if not isinstance(res.errors, list):
                raised.append([i, "not-a-list"])
            elif res.errors:
                reported.append(i)
        except Exception as e:  # noqa
            raised.append([i, type(e).__name__, str(e)[:120]])
    obs = {"raised": raised, "reported": reported}
    try:
        full = validate_ast(schema, parse_case(case))
        obs["full"] = len(full.errors)
    except Exception as e:  # noqa
        obs["full_exc"] = [type(e).__name__, str(e)[:120]]
    _RULES_CACHE[key] = dict(obs)
    return obs


def rules_direct_checks(case, obs):
    out = []
    if obs.get("raised") or "full_exc" in obs:
        out.append(("validation-returns-its-error-list-without-raising", None))
    elif (obs["full"] > 0) != bool(obs["reported"]):
        out.append(("default-validator-verdict-equals-the-union-of-its-rules", None))
    lab = case.get("label")
    if lab and not obs.get("raised") and lab not in obs["reported"]:
        out.append(("single-violation-is-attributed-to-its-rule", None))
    return out


def schema_ref(case):
    return POOL.ref(case["sdl"], schema_of(case["sdl"]))


def header():
    return "Local Open Scope N_scope.\n" + POOL.header


def rules_term(case, obs):
    doc = parse_case(case)
    return "(%s, %s)" % (schema_ref(case), ser.cdoc(doc))


def nlist(xs):
    return "[" + "; ".join(str(x) for x in xs) + "]"


def label_name(i):
    return gen_valid.RULES[i - 1]


def _worker(case):
    try:
        return run_rules(case)
    except Exception:  # noqa  (left to run_impl, which reports it as a harness error)
        return None


def prefetch(cases):
    """run the (slow, pure) per-rule validation of all cases on a process pool
    and keep the observables; run_impl then finds them in the cache"""
    import multiprocessing
    todo, seen = [], set()
    for c in cases:
        key = (REPO_TAG, c["sdl"], c["text"], bool(c.get("ats")))
        if key not in seen and key not in _RULES_CACHE:
            seen.add(key)
            todo.append(c)
    if len(todo) < 8:
        return
    for c in todo:
        schema_of(c["sdl"])
    try:
        with multiprocessing.get_context("fork").Pool(14) as pool:
            res = pool.map(_worker, todo, chunksize=4)
    except Exception:  # noqa
        return
    for c, o in zip(todo, res):
        if o is not None:
            _RULES_CACHE[(REPO_TAG, c["sdl"], c["text"], bool(c.get("ats")))] = o
