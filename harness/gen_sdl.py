# -*- coding: utf-8 -*-
"""Generator of type-system documents (C11, C12).

A *spec* is a JSON-able description of a schema (all six kinds, wrappers,
defaults of every input kind, descriptions, deprecations, custom directives,
roots); it is valid by construction.  [render] turns a spec into SDL text,
splitting the members of a type arbitrarily over `extend` blocks and permuting
the blocks (extensions of one target keep their relative order).  [invalidate]
derives labelled invalid documents, one broken rule each.  [code_schema]
builds the same schema with the Python API (internal enum values, python
names) for C12."""
import copy
import json

SPEC_SCALARS = ["Int", "Float", "String", "Boolean", "ID"]
TS_LOCATIONS = ["SCHEMA", "SCALAR", "OBJECT", "FIELD_DEFINITION", "ARGUMENT_DEFINITION", "INTERFACE",
                "UNION", "ENUM", "ENUM_VALUE", "INPUT_OBJECT", "INPUT_FIELD_DEFINITION"]
EXEC_LOCATIONS = ["QUERY", "MUTATION", "SUBSCRIPTION", "FIELD", "FRAGMENT_DEFINITION",
                  "FRAGMENT_SPREAD", "INLINE_FRAGMENT"]

_STRINGS = ["", "a", "hello world", 'q"uote', "back\\slash", "tab\there", "line\nbreak", "x y z",
            "No longer supported", "   lead", "trail  ", "semi;colon", "#hash", "brace{}", "5x", "e10x",
            "café", " sep", "\U0001F600", "rocket \U0001F680", "\U00010000", "\U0010FFFF", "sep\u2028", "ctl\b\f.", "del\x7f",
            "bmp\uffff", 'q"\\"\U0001F680']
_ASCII_STRINGS = [s for s in _STRINGS if all(ord(c) < 127 for c in s)]
_DESCS = ["A description", "desc with \"quotes\" inside", "ends with quote\"", "multi\nline", "  leading ws",
          "first\n  indented\nlast", "x", "semi; colon: and, commas", "back\\slash", 'triple """ quote',
          "word " * 12 + "end", "line one\n\nline three", "tab\tinside", "trailing space ",
          "long " * 30 + "tail", "a-b_c " * 25, "noboundary" * 14, "été",
          "x" * 69, "y" * 70, "z" * 71, "ends with backslash\\", "b\\", "long " * 15 + "tail\\", "two\nlines\\",
          "First paragraph.\u2028Second paragraph.", "sep\u2029here", "nel\x85inside", "nbsp\xa0x", "bom\ufeffx",
          "word " * 20 + "\u2028tail", "l1\nl2\u2028x\nl3\x85y", "trail\u2028", "\u2029lead", "a\u2028\u2029\x85b", "ab " * 40 + "x", "q" * 120, "cd " * 38 + "efgh ij", "w" * 112 + " " + "v" * 12,
          "rocket \U0001F680", "\U00010000 and \U0010FFFF", "del\x7fx", "bmp\uffffx"]
_ROOT_CASE_VARIANTS = ["query", "QUERY", "qUERY", "mutation", "MUTATION", "Mutation_", "subscription",
                       "SubScription", "SUBSCRIPTION", "Querys"]
_FIELD_NAMES = ["id", "name", "value", "items", "owner", "next", "count", "flag", "data", "kind", "fooBar", "snake_case"]
_ARG_NAMES = ["first", "after", "filter", "where", "orderBy", "flag", "argOne"]


def tref_name(t):
    while not isinstance(t, str):
        t = t.get("nn") or t.get("list")
    return t


def tref_str(t):
    if isinstance(t, str):
        return t
    if "nn" in t:
        return tref_str(t["nn"]) + "!"
    return "[" + tref_str(t["list"]) + "]"


# ------------------------------------------------------------------ enum internal values
# How a code-built schema spells the internal (Python) values of an enum.
# True: ints / lower-cased strings that are nobody's name; False: the names.
# The other modes make internal values collide with member *names*: a default
# given by internal value must be printed as the member holding that value,
# never as the member whose name is spelled like it.
ENUM_VALUE_MODES = ("rot", "swap", "partial", "self", "mixed")


def enum_internal_values(names, mode):
    """member name -> internal value"""
    n = len(names)
    plain = lambda i: i + 1 if i % 2 == 0 else names[i].lower() + "_"  # noqa: E731
    if mode is False:
        return {x: x for x in names}
    if mode is True or mode is None:
        return {x: plain(i) for i, x in enumerate(names)}
    if mode == "rot":        # a permutation of the name set (every value is another member's name)
        return {x: names[(i + 1) % n] for i, x in enumerate(names)}
    if mode == "swap":       # pairwise swapped; an odd member out holds its own name
        out = {}
        for i, x in enumerate(names):
            j = i + 1 if i % 2 == 0 else i - 1
            out[x] = names[j] if j < n else x
        return out
    if mode == "partial":    # one collision only, the colliding name's own member holds a non-string
        out = {x: plain(i) for i, x in enumerate(names)}
        if n > 1:
            out[names[0]] = names[1]
            out[names[1]] = 2
        else:
            out[names[0]] = names[0]
        return out
    if mode == "self":       # first member holds its own name, the rest rotate
        rest = names[1:]
        out = {names[0]: names[0]}
        for i, x in enumerate(rest):
            out[x] = rest[(i + 1) % len(rest)]
        return out
    if mode == "mixed":      # non-string values next to colliding strings
        out = {}
        for i, x in enumerate(names):
            out[x] = (10 + i) if i % 3 == 0 else (names[(i + 1) % n] if i % 3 == 1 else 2.5 + i)
        return out
    raise ValueError(mode)


# ------------------------------------------------------------------ literals
def lit_str(j):
    k = j["k"]
    if k in ("int", "float", "enum"):
        return j["v"]
    if k == "var":
        return "$" + j["v"]
    if k == "str":
        if j.get("b"):
            return '"""' + j["v"].replace('"""', '\\"""') + '"""'
        return json.dumps(j["v"], ensure_ascii=False)
    if k == "bool":
        return "true" if j["v"] else "false"
    if k == "null":
        return "null"
    if k == "list":
        return "[" + ", ".join(lit_str(x) for x in j["v"]) + "]"
    if k == "obj":
        return "{" + ", ".join("%s: %s" % (n, lit_str(v)) for n, v in j["v"]) + "}"
    raise TypeError(k)


class Gen:
    def __init__(self, rng, ascii_only=False, c12=False):
        self.rng = rng
        self.ascii_only = ascii_only
        self.c12 = c12          # restrict to what the printer can round trip
        self.scalars, self.enums, self.inputs = [], {}, {}
        self.interfaces, self.objects, self.unions = {}, {}, {}
        self.directives = []
        self.plain_inputs = []
        self.pinned = set()     # types whose members are used by a default: never split over extensions

    # -------------------------------------------------------------- pieces
    def string(self):
        pool = _ASCII_STRINGS if self.ascii_only else _STRINGS
        return self.rng.choice(pool)

    def desc(self, p=0.35):
        r = self.rng
        if r.random() > p:
            return None
        text = r.choice(_DESCS)
        return {"text": text, "block": ("\n" in text) or r.random() < 0.4}

    def wrap(self, name, allow_list=True, nonnull_p=0.3):
        r = self.rng
        t = name
        if r.random() < nonnull_p:
            t = {"nn": t}
        depth = 0
        while allow_list and r.random() < 0.25 and depth < 2:
            t = {"list": t}
            if r.random() < 0.3:
                t = {"nn": t}
            depth += 1
        return t

    def covariant(self, t):
        """A sub-type of the (interface field) type t drawn from the wrapper lattice: non-null added at any
        level -- T! for T, [T]! / [T!] / [T!]! for [T], [[T]!] for [[T]] ...; the named core is specialised
        afterwards (specialise_cores) once objects and unions are known."""
        r = self.rng
        if isinstance(t, str):
            return {"nn": t} if r.random() < 0.3 else t
        if "nn" in t:
            inner = self.covariant(t["nn"])
            return inner if isinstance(inner, dict) and "nn" in inner else {"nn": inner}
        inner = self.covariant(t["list"])
        out = {"list": inner}
        return {"nn": out} if r.random() < 0.35 else out

    def specialise_cores(self):
        """object-for-interface / member-for-union inside whatever wrappers the implementing field has"""
        r = self.rng
        for o in self.objects.values():
            for i in o.get("ifaces", []):
                for f in self.interfaces[i]["fields"]:
                    core = type_core(f["type"])
                    if core in self.interfaces:
                        subs = [x["name"] for x in self.objects.values() if core in x.get("ifaces", [])]
                    elif core in self.unions:
                        subs = list(self.unions[core].get("members", []))
                    else:
                        continue
                    if not subs or r.random() >= 0.4:
                        continue
                    for g in o["fields"]:
                        if g["name"] == f["name"] and type_core(g["type"]) == core:
                            g["type"] = with_core(g["type"], r.choice(subs))

    def int_lit(self):
        r = self.rng
        return {"k": "int", "v": str(r.choice([0, 1, -1, 7, 42, -300, 2147483646, -2147483647, r.randint(-99999, 99999)]))}

    def float_lit(self):
        return {"k": self.rng.choice(["float", "float", "int"]), "v": None}

    def lit(self, t, depth=2, top=True):
        """a literal valid for input type [t]"""
        r = self.rng
        if not isinstance(t, str) and "nn" in t:
            return self._lit_nn(t["nn"], depth)
        if r.random() < 0.12:
            return {"k": "null"}
        return self._lit_nn(t, depth)

    def _lit_nn(self, t, depth):
        r = self.rng
        if not isinstance(t, str):
            inner = t["list"]
            if depth <= 0:
                return {"k": "list", "v": []}
            if r.random() < 0.8:
                return {"k": "list", "v": [self.lit(inner, depth, False) for _ in range(r.choice([0, 1, 1, 2, 3]))]}
            # single item coerced to a list: must not be null for a non-null item
            base = inner
            while not isinstance(base, str):
                base = base.get("nn") or base.get("list")
            return self._lit_nn(base, depth)
        if t == "Int":
            return self.int_lit()
        if t == "Float":
            if r.random() < 0.3:
                return {"k": "int", "v": str(r.choice([0, 3, -12, 100]))}
            pool = ["1.5", "-0.25", "10.0", "0.0", "3.14159", "2.50", "123456.789", "0.001"]
            if not self.c12:
                pool.append("-0.0")     # printed as 0 (equal under ==, different repr): outside the C12 oracle
            return {"k": "float", "v": r.choice(pool)}
        if t == "String":
            s = self.string()
            return {"k": "str", "v": s, "b": (not self.c12) and s != "" and r.random() < 0.15}
        if t == "Boolean":
            return {"k": "bool", "v": r.random() < 0.5}
        if t == "ID":
            if r.random() < 0.4:
                return {"k": "int", "v": str(r.choice([0, 5, 123, -4]))}
            return {"k": "str", "v": r.choice(["abc", "id-1", "x_y", "A1"]), "b": False}
        if t in self.enums:
            self.pinned.add(t)
            return {"k": "enum", "v": r.choice(self.enums[t]["values"])["name"]}
        if t in self.scalars:
            c = r.random()
            if c < 0.2:
                return {"k": "bool", "v": r.random() < 0.5}
            if c < 0.4:
                return {"k": "int", "v": str(r.choice([0, 5, -12, 2147483648, -99999999999, 42]))}
            if c < 0.55:
                return {"k": "float", "v": r.choice(["1.5", "-0.25", "10.0", "2.50", "0.001", "123456.789"])}
            # strings whose text is a number literal are the open finding
            # custom-scalar-numeric-string-default: corpus only
            return {"k": "str", "v": r.choice(["abc", "2020-01-01", "x y", "not a number", ""]), "b": False}
        if t in self.inputs:
            self.pinned.add(t)
            fs = self.inputs[t]["fields"]
            out = []
            for f in fs:
                required = (not isinstance(f["type"], str)) and "nn" in f["type"] and f["default"] is None
                if required or (depth > 0 and r.random() < 0.6):
                    if depth <= 0 and tref_name(f["type"]) in self.inputs and not required:
                        continue
                    out.append([f["name"], self.lit(f["type"], depth - 1, False)])
            if not self.c12 and r.random() < 0.03:
                out.append(["unknownField", {"k": "int", "v": "1"}])
            r.shuffle(out)
            return {"k": "obj", "v": out}
        raise KeyError(t)

    def free_lit(self, depth=1):
        r = self.rng
        c = r.random()
        if c < 0.2:
            return self.int_lit()
        if c < 0.4:
            return {"k": "str", "v": self.string() if not self.c12 else r.choice(["a", "b c", "x"]), "b": False}
        if c < 0.5:
            return {"k": "bool", "v": r.random() < 0.5}
        if c < 0.6:
            return {"k": "enum", "v": r.choice(["FOO", "BAR"])}
        if c < 0.65:
            return {"k": "null"}
        if c < 0.7:
            return {"k": "float", "v": r.choice(["1.5", "2.0e3", "-0.1"])}
        if depth > 0 and c < 0.85:
            return {"k": "list", "v": [self.free_lit(depth - 1) for _ in range(r.randint(0, 2))]}
        if depth > 0:
            return {"k": "obj", "v": [[n, self.free_lit(depth - 1)] for n in r.sample(["a", "b", "c"], r.randint(0, 2))]}
        return self.int_lit()

    def dirapps(self, loc, p=0.2):
        r = self.rng
        out = []
        for d in self.directives:
            if r.random() < p and (loc in d["locs"] or r.random() < 0.1):
                args = []
                for a in d["args"]:
                    if r.random() < 0.6:
                        args.append([a["name"], self.lit(a["type"], 1)])
                out.append({"n": d["name"], "a": args})
        if r.random() < 0.03:
            out.append({"n": "undefinedDirective", "a": [["x", self.free_lit()]]})
        return out

    def deprecation(self):
        r = self.rng
        c = r.random()
        if c < 0.75:
            return None
        if c < 0.85:
            return {"reason": None}
        pool = ["use other", "No longer supported", 'with "quote"', "multi\nline", "tab\t",
                "rocket \U0001F680", "\U00010000", "max \U0010FFFF.", "caf\u00e9", "sep\u2028here", "back\\slash \\u0041",
                "ctl\b\f\t\n.", "del\x7f", "bmp\uffff", "\U0001F680\U0001F600 two", 'q"\\"\U0001F680']
        if not self.c12:
            pool.append("")
        return {"reason": r.choice(pool)}

    def input_type_names(self):
        return SPEC_SCALARS + self.scalars + list(self.enums) + list(self.inputs)

    def output_type_names(self):
        return (SPEC_SCALARS + self.scalars + list(self.enums) + list(self.objects)
                + list(self.interfaces) + list(self.unions))

    def ivalue(self, name, loc, tnames=None, default_p=0.5):
        r = self.rng
        tn = r.choice(tnames or self.input_type_names())
        t = self.wrap(tn)
        default = None
        if r.random() < default_p:
            default = self.lit(t, 2)
        return {"name": name, "desc": self.desc(0.2), "type": t, "default": default,
                "dirs": self.dirapps(loc, 0.1)}

    def field(self, name, tnames=None):
        r = self.rng
        args = [self.ivalue(n, "ARGUMENT_DEFINITION") for n in r.sample(_ARG_NAMES, r.choice([0, 0, 1, 1, 2, 3]))]
        t = self.wrap(r.choice(tnames or self.output_type_names()))
        return {"name": name, "desc": self.desc(0.25), "args": args, "type": t,
                "dep": self.deprecation(), "dirs": self.dirapps("FIELD_DEFINITION", 0.1)}

    # -------------------------------------------------------------- schema
    def schema(self, size=None):
        r = self.rng
        size = size if size is not None else r.choice([0, 1, 1, 2, 2, 3])
        self.scalars = r.sample(["Date", "Url", "Blob"], r.choice([0, 1, 1, 2]) if size else 0)
        # directive definitions first (their args use scalars only; enum args added later)
        for n in r.sample(["tag", "auth", "length"], r.choice([0, 1, 1, 2]) if size else r.choice([0, 1])):
            locs = r.sample(TS_LOCATIONS, r.randint(1, 5))
            if r.random() < 0.3:
                locs += r.sample(EXEC_LOCATIONS, r.randint(1, 2))
            self.directives.append({"name": n, "desc": None, "locs": locs, "args": []})
        for n in r.sample(["Color", "Size", "Role"], r.choice([1, 1, 2]) if size else r.choice([0, 1])):
            vals = r.sample(["RED", "GREEN", "BLUE", "SMALL", "LARGE", "ADMIN", "USER", "a_b"], r.randint(1, 4))
            self.enums[n] = {"kind": "enum", "name": n, "desc": None, "dirs": [], "values": [
                {"name": v, "desc": None, "dep": None, "dirs": []} for v in vals]}
        for d in self.directives:
            d["desc"] = self.desc(0.3)
            for an in r.sample(["name", "n", "on", "mode"], r.choice([0, 1, 1, 2])):
                d["args"].append(self.ivalue(an, "ARGUMENT_DEFINITION", SPEC_SCALARS + self.scalars + list(self.enums)))
        for e in self.enums.values():
            e["desc"] = self.desc()
            e["dirs"] = self.dirapps("ENUM")
            for v in e["values"]:
                v.update(desc=self.desc(0.2), dep=self.deprecation(), dirs=self.dirapps("ENUM_VALUE", 0.1))
        # input types: recursive / mutually recursive references allowed; object
        # literal defaults only towards earlier "plain" input types
        in_names = r.sample(["InA", "InB", "InC", "Filter"], r.choice([0, 1, 2, 3]) if size else r.choice([0, 1]))
        for n in in_names:
            self.inputs[n] = {"kind": "input", "name": n, "desc": None, "dirs": [], "fields": []}
        for n in in_names:
            fs = []
            plain = True
            for fn in r.sample(_FIELD_NAMES, r.randint(1, 4)):
                if r.random() < 0.35:
                    tn = r.choice(in_names)
                    plain = False
                    t = self.wrap(tn, nonnull_p=0.0)
                    if not isinstance(t, str) and "list" in t and r.random() < 0.5:
                        pass
                    default = None
                    if r.random() < 0.3:
                        default = {"k": "null"} if isinstance(t, str) or "nn" not in t else None
                    if tn in self.plain_inputs and tn != n and r.random() < 0.6:
                        default = self.lit(t, 1)
                    fs.append({"name": fn, "desc": self.desc(0.2), "type": t, "default": default,
                               "dirs": self.dirapps("INPUT_FIELD_DEFINITION", 0.1)})
                else:
                    fs.append(self.ivalue(fn, "INPUT_FIELD_DEFINITION",
                                          SPEC_SCALARS + self.scalars + list(self.enums)))
            self.inputs[n]["fields"] = fs
            if plain:
                self.plain_inputs.append(n)
        for i in self.inputs.values():
            i["desc"] = self.desc()
            i["dirs"] = self.dirapps("INPUT_OBJECT")
        # names of output composite types first (fields may reference any of them)
        if_names = r.sample(["Node", "Named", "Entity"], r.choice([0, 1, 1, 2]) if size else 0)
        ob_names = r.sample(["User", "Post", "Comment", "Orphan", "Tag"], r.choice([1, 2, 3, 4]) if size else r.choice([0, 1]))
        roots = {}
        explicit = r.random() < 0.35
        qn = r.choice(["RootQuery", "Q"]) if explicit and r.random() < 0.7 else "Query"
        roots["query"] = qn
        if r.random() < 0.4:
            roots["mutation"] = r.choice(["Mutation", "M"]) if explicit else "Mutation"
        if r.random() < 0.25:
            roots["subscription"] = r.choice(["Subscription", "Sub"]) if explicit else "Subscription"
        if explicit and r.random() < 0.45:
            # any partial injective assignment of the default names (and custom ones) to the three slots: a root
            # may sit under the default name of ANOTHER operation whose own slot is empty or filled differently
            # (`schema { query: Query subscription: Mutation }`, seeded C12-i)
            names = ["Query", "Mutation", "Subscription", r.choice(["RootQuery", "Q"]), r.choice(["M", "Sub"])]
            slots = ["query"] + [o for o in ("mutation", "subscription") if r.random() < 0.5]
            roots = dict(zip(slots, r.sample(names, len(slots))))
        ob_names = ob_names + [n for n in roots.values() if n not in ob_names]
        if explicit and r.random() < 0.3:
            n = r.choice(["Mutation", "Mutation", "Subscription", "Query"])
            if n not in ob_names:
                ob_names.append(n)       # default-named type that is not a root
        # ordinary types whose names differ from a default root name only by case
        # (or by a suffix): never roots, with or without a schema definition
        if r.random() < 0.3:
            for n in r.sample(_ROOT_CASE_VARIANTS, r.randint(1, 3)):
                if n not in ob_names:
                    ob_names.append(n)
        if r.random() < 0.08:
            v = r.choice(["subscription", "MUTATION", "query"])
            if v not in ob_names and v not in if_names:
                if_names.append(v)    # ... also as an interface name
        un_names = r.sample(["SearchResult", "Media"], r.choice([0, 1, 1, 2]) if size and len(ob_names) > 1 else 0)
        for n in if_names:
            self.interfaces[n] = {"kind": "interface", "name": n}
        for n in ob_names:
            self.objects[n] = {"kind": "object", "name": n}
        for n in un_names:
            self.unions[n] = {"kind": "union", "name": n}
        for n in if_names:
            fs = [self.field(fn) for fn in r.sample(_FIELD_NAMES, r.randint(1, 3))]
            self.interfaces[n].update(desc=self.desc(), dirs=self.dirapps("INTERFACE"), fields=fs)
        for n in ob_names:
            ifs = r.sample(if_names, min(len(if_names), r.choice([0, 0, 1, 2])))
            fields, seen = [], set()
            for i in ifs:
                for f in self.interfaces[i]["fields"]:
                    if f["name"] in seen:
                        # two interfaces share a field name: keep the first, drop the interface
                        break
                else:
                    for f in self.interfaces[i]["fields"]:
                        g = copy.deepcopy(f)
                        g["desc"] = self.desc(0.2)
                        g["dep"] = self.deprecation()
                        g["type"] = self.covariant(g["type"])
                        seen.add(g["name"])
                        fields.append(g)
                    continue
                ifs = [x for x in ifs if x != i]
            extra = [fn for fn in r.sample(_FIELD_NAMES, r.randint(1, 3)) if fn not in seen]
            if not fields and not extra:
                extra = ["id"]
            fields += [self.field(fn) for fn in extra]
            r.shuffle(fields)
            self.objects[n].update(desc=self.desc(), dirs=self.dirapps("OBJECT"), ifaces=ifs, fields=fields)
        for n in un_names:
            ms = r.sample(ob_names, r.randint(1, min(3, len(ob_names))))
            self.unions[n].update(desc=self.desc(), dirs=self.dirapps("UNION"), members=ms)
        self.specialise_cores()
        scalars = [{"kind": "scalar", "name": n, "desc": self.desc(), "dirs": self.dirapps("SCALAR")} for n in self.scalars]
        types = (scalars + list(self.enums.values()) + list(self.inputs.values()) + list(self.interfaces.values())
                 + list(self.objects.values()) + list(self.unions.values()))
        for t in types:
            if t["name"] in self.pinned:
                t["pinned"] = True
        return {"types": types, "directives": self.directives, "roots": roots, "explicit_schema": explicit,
                "schema_dirs": self.dirapps("SCHEMA") if explicit else []}


def type_core(t):
    while not isinstance(t, str):
        t = t.get("nn", t.get("list"))
    return t


def with_core(t, name):
    if isinstance(t, str):
        return name
    k = "nn" if "nn" in t else "list"
    return {k: with_core(t[k], name)}


def supertype_variants(t):
    """strict super-types of t obtained by dropping one non-null wrapper (at any level)"""
    out = []
    if isinstance(t, str):
        return out
    if "nn" in t:
        out.append(t["nn"])
        out += [{"nn": x} for x in supertype_variants(t["nn"])]
    else:
        out += [{"list": x} for x in supertype_variants(t["list"])]
    return out


def subtype_variants(t, top=True):
    """strict sub-types of t obtained by adding one non-null wrapper (at any level)"""
    if isinstance(t, str):
        return [{"nn": t}] if top else []
    if "nn" in t:
        return [{"nn": x} for x in subtype_variants(t["nn"], False)]
    return ([{"nn": t}] if top else []) + [{"list": x} for x in subtype_variants(t["list"], True)]


# ------------------------------------------------------------------ rendering
def desc_str(d, indent=""):
    if d is None:
        return ""
    if d["block"]:
        body = d["text"].replace('"""', '\\"""')
        lines = body.split("\n")
        if len(lines) == 1 and not body.endswith('"') and not body.startswith(" "):
            return indent + '"""' + body + '"""\n'
        return indent + '"""\n' + "\n".join((indent + l) if l else l for l in lines) + "\n" + indent + '"""\n'
    return indent + json.dumps(d["text"], ensure_ascii=False) + "\n"


def dirs_str(ds):
    out = ""
    for d in ds:
        out += " @" + d["n"]
        if d["a"]:
            out += "(" + ", ".join("%s: %s" % (n, lit_str(v)) for n, v in d["a"]) + ")"
    return out


def dep_str(dep):
    if dep is None:
        return ""
    if dep["reason"] is None:
        return " @deprecated"
    return " @deprecated(reason: %s)" % json.dumps(dep["reason"], ensure_ascii=False)


def ivalue_str(a, indent=""):
    s = desc_str(a["desc"], indent) + indent + "%s: %s" % (a["name"], tref_str(a["type"]))
    if a["default"] is not None:
        s += " = " + lit_str(a["default"])
    return s + dirs_str(a["dirs"])


def args_str(args, indent):
    if not args:
        return ""
    if any(a["desc"] for a in args):
        return "(\n" + "\n".join(ivalue_str(a, indent + "  ") for a in args) + "\n" + indent + ")"
    return "(" + ", ".join(ivalue_str(a) for a in args) + ")"


def field_str(f, indent="  "):
    return (desc_str(f["desc"], indent) + indent + f["name"] + args_str(f["args"], indent) + ": "
            + tref_str(f["type"]) + dep_str(f["dep"]) + dirs_str(f["dirs"]))


def enum_value_str(v, indent="  "):
    return desc_str(v["desc"], indent) + indent + v["name"] + dep_str(v["dep"]) + dirs_str(v["dirs"])


_KW = {"scalar": "scalar", "object": "type", "interface": "interface", "union": "union", "enum": "enum",
       "input": "input"}


def block_str(t, members, ifaces, dirs, ext):
    """one definition or extension of [t] with the given chunk of members"""
    k = t["kind"]
    head = ("extend " if ext else desc_str(t.get("desc"))) + _KW[k] + " " + t["name"]
    if k == "object" and ifaces:
        head += " implements " + " & ".join(ifaces)
    head += dirs_str(dirs)
    if k == "scalar":
        return head
    if k == "union":
        return head + (" = " + " | ".join(members) if members else "")
    if not members:
        return head
    if k in ("object", "interface"):
        body = "\n".join(field_str(f) for f in members)
    elif k == "enum":
        body = "\n".join(enum_value_str(v) for v in members)
    else:
        body = "\n".join(ivalue_str(f, "  ") for f in members)
    return head + " {\n" + body + "\n}"


def members_of(t):
    k = t["kind"]
    return {"object": "fields", "interface": "fields", "union": "members", "enum": "values", "input": "fields"}.get(k)


def _chunks(rng, xs, k):
    cuts = sorted(rng.randint(0, len(xs)) for _ in range(k))
    out, prev = [], 0
    for c in cuts + [len(xs)]:
        out.append(xs[prev:c])
        prev = c
    return out


def directive_def_str(d):
    return (desc_str(d["desc"]) + "directive @" + d["name"] + args_str(d["args"], "") + " on "
            + " | ".join(d["locs"]))


def render(spec, rng, split=True, permute=True, extra=()):
    """-> (text, blocks) where blocks is the list of (target|None, is_ext, text)"""
    groups = []   # each group: list of blocks that must keep their relative order
    for d in spec["directives"]:
        groups.append([(None, False, directive_def_str(d))])
    for t in spec["types"]:
        mk = members_of(t)
        ms = t[mk] if mk else []
        k = rng.choice([0, 0, 0, 1, 1, 2, 3]) if split else 0
        mch = _chunks(rng, ms, k)
        if t.get("pinned"):
            mch = [ms] + [[] for _ in range(k)]
        ich = _chunks(rng, t.get("ifaces", []), k)
        dch = _chunks(rng, t["dirs"], k)
        blocks = [(t["name"], False, block_str(t, mch[0], ich[0], dch[0], False))]
        for i in range(1, k + 1):
            if not (mch[i] or ich[i] or dch[i]):
                # an extension must extend something: give it the members of the next chunk
                continue
            blocks.append((t["name"], True, block_str(t, mch[i], ich[i], dch[i], True)))
        # members of skipped (empty) chunks are never lost: chunks are consecutive and
        # empty ones carry nothing
        groups.append(blocks)
    roots = spec["roots"]
    if spec["explicit_schema"]:
        ops = [(o, roots[o]) for o in ("query", "mutation", "subscription") if o in roots]
        k = rng.choice([0, 0, 1, 2]) if split else 0
        och = _chunks(rng, ops, k)
        dch = _chunks(rng, spec["schema_dirs"], k)
        body = lambda ch: (" {\n" + "\n".join("  %s: %s" % oc for oc in ch) + "\n}") if ch else ""  # noqa: E731
        if not och[0]:
            och[0], och[1:] = ops, [[] for _ in och[1:]]
        blocks = [("<schema>", False, "schema" + dirs_str(dch[0]) + body(och[0]))]
        for i in range(1, k + 1):
            if och[i] or dch[i]:
                blocks.append(("<schema>", True, "extend schema" + dirs_str(dch[i]) + body(och[i])))
        groups.append(blocks)
    if permute:
        # random interleaving that keeps the order inside each group
        seq = []
        idx = [0] * len(groups)
        remaining = sum(len(g) for g in groups)
        while remaining:
            cands = [i for i, g in enumerate(groups) if idx[i] < len(g)]
            weights = [len(groups[i]) - idx[i] for i in cands]
            i = rng.choices(cands, weights)[0]
            seq.append(groups[i][idx[i]])
            idx[i] += 1
            remaining -= 1
        # definitions may come after their extensions: rotate a group's definition later sometimes
        blocks = seq
        if rng.random() < 0.5:
            for gi, g in enumerate(groups):
                if len(g) > 1 and rng.random() < 0.5:
                    d = g[0]
                    pos = blocks.index(d)
                    blocks.pop(pos)
                    blocks.insert(rng.randint(pos, len(blocks)), d)
    else:
        blocks = [b for g in groups for b in g]
    blocks = list(blocks)
    for e in extra:
        blocks.insert(rng.randint(0, len(blocks)), (None, False, e))
    return "\n\n".join(b[2] for b in blocks) + "\n", blocks


def has_recursive_input(spec):
    ins = {t["name"]: t for t in spec["types"] if t["kind"] == "input"}
    for t in ins.values():
        for f in t["fields"]:
            if tref_name(f["type"]) in ins:
                return True
    return False


# ------------------------------------------------------------------ invalid documents
def _pick(rng, spec, kind):
    xs = [t for t in spec["types"] if t["kind"] == kind]
    return rng.choice(xs) if xs else None


def invalidate(spec, rng):
    """-> (label, text, expected_kind) or None; one broken rule"""
    s = copy.deepcopy(spec)
    r = rng
    obj = _pick(r, s, "object")
    labels = ["dup-type", "dup-directive-def", "two-schema-defs", "dup-operation", "unknown-field-type",
              "unknown-arg-type", "unknown-interface", "unknown-union-member", "unknown-input-field-type",
              "unknown-root", "unknown-directive-arg-type", "ext-undefined", "ext-wrong-kind", "ext-dup-field",
              "ext-dup-enum-value", "ext-dup-union-member", "ext-dup-interface", "ext-dup-input-field",
              "ext-dup-operation", "ext-dup-new-operation", "dup-field", "dup-arg", "dup-input-field", "dup-enum-value",
              "implements-object", "implements-nonfields", "union-member-non-object", "output-in-input-position",
              "output-in-input-position-default", "input-in-output-position", "bad-default-kind",
              "bad-default-enum", "bad-default-null", "bad-default-missing-field", "bad-default-int-range",
              "bad-deprecated-reason", "override-specified-directive", "interface-field-missing",
              "interface-field-type", "interface-field-contravariant", "empty-object", "empty-union", "no-query", "root-not-object",
              "reserved-type-name", "reserved-field-name", "ext-unknown-field-type"]
    label = r.choice(labels)
    extra = []          # extra blocks appended to the rendered document
    K_SDL, K_EXT, K_SCHEMA, K_VALUE, K_COERCION = 1, 2, 3, 4, 5

    def new_field(name, tname, args=None, default=None):
        return {"name": name, "desc": None, "args": args or [], "type": tname, "dep": None, "dirs": []}

    def new_iv(name, t, default=None):
        return {"name": name, "desc": None, "type": t, "default": default, "dirs": []}

    if label == "dup-type":
        t = r.choice(s["types"])
        extra.append(block_str(t, t.get(members_of(t) or "", []) if members_of(t) else [], t.get("ifaces", []), [], False))
        kind = K_SDL
    elif label == "dup-directive-def":
        if not s["directives"]:
            return None
        extra.append(directive_def_str(r.choice(s["directives"])))
        kind = K_SDL
    elif label == "two-schema-defs":
        if not s["explicit_schema"]:
            return None
        extra.append("schema { query: %s }" % s["roots"]["query"])
        kind = K_SDL
    elif label == "dup-operation":
        s["explicit_schema"] = True
        text, _ = render(s, r, split=False)
        q = s["roots"]["query"]
        text = text.replace("  query: %s\n" % q, "  query: %s\n  query: %s\n" % (q, q), 1)
        return label, text, K_SDL
    elif label == "unknown-field-type":
        obj["fields"].append(new_field("broken", r.choice(["Missing", {"list": "Missing"}, {"nn": "Missing"}])))
        kind = K_SDL
    elif label == "unknown-arg-type":
        obj["fields"].append(new_field("broken", "Int", [new_iv("a", "Missing")]))
        kind = K_SDL
    elif label == "unknown-interface":
        obj["ifaces"].append("Missing")
        kind = K_SDL
    elif label == "unknown-union-member":
        u = _pick(r, s, "union")
        if not u:
            return None
        u["members"].append("Missing")
        kind = K_SDL
    elif label == "unknown-input-field-type":
        i = _pick(r, s, "input")
        if not i:
            return None
        i["fields"].append(new_iv("broken", "Missing"))
        kind = K_SDL
    elif label == "unknown-root":
        s["explicit_schema"] = True
        s["roots"]["mutation"] = "Missing"
        kind = K_SDL
    elif label == "unknown-directive-arg-type":
        s["directives"].append({"name": "brokenDir", "desc": None, "locs": ["FIELD_DEFINITION"],
                                "args": [new_iv("a", "Missing")]})
        kind = K_SDL
    elif label == "ext-undefined":
        extra.append(r.choice(["extend type Missing { a: Int }", "extend enum Missing { A }",
                               "extend scalar Missing @tag", "extend input Missing { a: Int }"]))
        kind = K_EXT
    elif label == "ext-wrong-kind":
        t = r.choice(s["types"])
        other = {"object": "extend enum %s { ZZZ }", "enum": "extend type %s { zzz: Int }",
                 "scalar": "extend union %s = Query", "union": "extend input %s { zzz: Int }",
                 "interface": "extend type %s { zzz: Int }", "input": "extend interface %s { zzz: Int }"}
        extra.append(other[t["kind"]] % t["name"])
        kind = K_EXT
    elif label == "ext-dup-field":
        t = _pick(r, s, r.choice(["object", "interface"])) or obj
        f = r.choice(t["fields"])
        extra.append("extend %s %s { %s: Int }" % (_KW[t["kind"]], t["name"], f["name"]))
        kind = K_EXT
    elif label == "ext-dup-enum-value":
        e = _pick(r, s, "enum")
        if not e:
            return None
        extra.append("extend enum %s { %s }" % (e["name"], r.choice(e["values"])["name"]))
        kind = K_EXT
    elif label == "ext-dup-union-member":
        u = _pick(r, s, "union")
        if not u:
            return None
        extra.append("extend union %s = %s" % (u["name"], r.choice(u["members"])))
        kind = K_EXT
    elif label == "ext-dup-interface":
        cands = [t for t in s["types"] if t["kind"] == "object" and t["ifaces"]]
        if not cands:
            return None
        t = r.choice(cands)
        extra.append("extend type %s implements %s" % (t["name"], r.choice(t["ifaces"])))
        kind = K_EXT
    elif label == "ext-dup-input-field":
        i = _pick(r, s, "input")
        if not i:
            return None
        extra.append("extend input %s { %s: Int }" % (i["name"], r.choice(i["fields"])["name"]))
        kind = K_EXT
    elif label == "ext-dup-operation":
        extra.append("extend schema { query: %s }" % s["roots"]["query"])
        kind = K_EXT
    elif label == "ext-dup-new-operation":
        # a root operation the base schema does NOT define, given twice by extensions: by two `extend schema`
        # blocks or twice in one block, same or different types, anywhere in the document (seeded C11-i)
        objs = [t["name"] for t in s["types"] if t["kind"] == "object"]
        s["explicit_schema"] = True
        ops = ["mutation", "subscription"]
        r.shuffle(ops)
        keep = r.choice([0, 1])        # the base defines query only, or query and one more
        for o in ops[:2 - keep]:
            s["roots"].pop(o, None)
        op = ops[0]
        m1, m2 = r.choice(objs), r.choice(objs)
        form = r.choice(["two-blocks", "two-blocks", "one-block", "three"])
        if form == "one-block":
            extra.append("extend schema {\n  %s: %s\n  %s: %s\n}" % (op, m1, op, m2))
        else:
            extra.append("extend schema { %s: %s }" % (op, m1))
            extra.append("extend schema { %s: %s }" % (op, m2))
            if form == "three" and not keep:
                extra.append("extend schema { %s: %s }" % (ops[1], r.choice(objs)))
        kind = K_EXT
    elif label == "ext-unknown-field-type":
        extra.append("extend type %s { brokenExt: Missing }" % obj["name"])
        kind = K_SDL
    elif label == "dup-field":
        obj["fields"].append(copy.deepcopy(r.choice(obj["fields"])))
        kind = K_SCHEMA
    elif label == "dup-arg":
        obj["fields"].append(new_field("broken", "Int", [new_iv("a", "Int"), new_iv("a", "Int")]))
        kind = K_SCHEMA
    elif label == "dup-input-field":
        i = _pick(r, s, "input")
        if not i:
            return None
        i["fields"].append(copy.deepcopy(r.choice(i["fields"])))
        kind = K_SCHEMA
    elif label == "dup-enum-value":
        e = _pick(r, s, "enum")
        if not e:
            return None
        e["values"].append(copy.deepcopy(r.choice(e["values"])))
        kind = K_SDL
    elif label == "implements-object":
        others = [t for t in s["types"] if t["kind"] == "object" and t is not obj]
        if not others:
            return None
        o = r.choice(others)
        obj["ifaces"].append(o["name"])
        have = {f["name"] for f in obj["fields"]}
        obj["fields"] += [copy.deepcopy(f) for f in o["fields"] if f["name"] not in have]
        kind = K_SCHEMA
    elif label == "implements-nonfields":
        others = [t for t in s["types"] if t["kind"] in ("scalar", "enum", "union", "input")]
        if not others:
            return None
        obj["ifaces"].append(r.choice(others)["name"])
        kind = K_SCHEMA
    elif label == "union-member-non-object":
        u = _pick(r, s, "union")
        others = [t for t in s["types"] if t["kind"] not in ("object",)]
        if not u or not others:
            return None
        u["members"].append(r.choice(others)["name"])
        kind = K_SCHEMA
    elif label in ("output-in-input-position", "output-in-input-position-default"):
        others = [t for t in s["types"] if t["kind"] in ("object", "interface", "union")]
        o = r.choice(others)
        d = {"k": "int", "v": "1"} if label.endswith("default") else None
        if r.random() < 0.5 or not _pick(r, s, "input"):
            obj["fields"].append(new_field("broken", "Int", [new_iv("a", o["name"], d)]))
        else:
            _pick(r, s, "input")["fields"].append(new_iv("broken", o["name"], d))
        kind = K_SDL
    elif label == "input-in-output-position":
        i = _pick(r, s, "input")
        if not i:
            return None
        obj["fields"].append(new_field("broken", i["name"]))
        kind = K_SCHEMA
    elif label == "bad-default-kind":
        t, d = r.choice([("Int", {"k": "str", "v": "x", "b": False}), ("String", {"k": "int", "v": "1"}),
                         ("Boolean", {"k": "int", "v": "1"}), ("Float", {"k": "str", "v": "1.5", "b": False}),
                         ("Int", {"k": "float", "v": "1.5"}), ("ID", {"k": "float", "v": "1.5"}),
                         ("Int", {"k": "list", "v": [{"k": "list", "v": []}]}), ("Int", {"k": "obj", "v": []}),
                         ({"list": "Int"}, {"k": "list", "v": [{"k": "str", "v": "x", "b": False}]}),
                         ("String", {"k": "enum", "v": "FOO"}), ("Int", {"k": "bool", "v": True})])
        obj["fields"].append(new_field("broken", "Int", [new_iv("a", t, d)]))
        kind = K_VALUE
    elif label == "bad-default-enum":
        e = _pick(r, s, "enum")
        if not e:
            return None
        d = r.choice([{"k": "enum", "v": "NOT_A_VALUE"}, {"k": "str", "v": e["values"][0]["name"], "b": False},
                      {"k": "int", "v": "0"}])
        obj["fields"].append(new_field("broken", "Int", [new_iv("a", e["name"], d)]))
        kind = K_VALUE
    elif label == "bad-default-null":
        t = r.choice([{"nn": "Int"}, {"list": {"nn": "Int"}}, {"nn": {"list": "String"}}])
        d = {"k": "null"} if "nn" in t else {"k": "list", "v": [{"k": "int", "v": "1"}, {"k": "null"}]}
        obj["fields"].append(new_field("broken", "Int", [new_iv("a", t, d)]))
        kind = K_VALUE
    elif label == "bad-default-missing-field":
        s["types"].append({"kind": "input", "name": "Strict", "desc": None, "dirs": [], "pinned": True,
                           "fields": [new_iv("must", {"nn": "Int"}), new_iv("may", "Int")]})
        obj["fields"].append(new_field("broken", "Int", [new_iv("a", "Strict", {"k": "obj", "v": [["may", {"k": "int", "v": "1"}]]})]))
        kind = K_VALUE
    elif label == "bad-default-int-range":
        obj["fields"].append(new_field("broken", "Int", [new_iv("a", "Int", {"k": "int", "v": r.choice(["3000000000", "-2147483650", "99999999999999999999"])})]))
        kind = K_VALUE
    elif label == "bad-deprecated-reason":
        f = r.choice(obj["fields"])
        f["dep"] = None
        f["dirs"] = [{"n": "deprecated", "a": [["reason", r.choice([{"k": "int", "v": "1"}, {"k": "enum", "v": "X"},
                                                                     {"k": "list", "v": []}, {"k": "bool", "v": True}])]]}]
        kind = K_COERCION
    elif label == "override-specified-directive":
        s["directives"].append({"name": r.choice(["skip", "include", "deprecated"]), "desc": None,
                                "locs": ["FIELD"], "args": []})
        kind = K_SCHEMA
    elif label in ("interface-field-missing", "interface-field-type"):
        cands = [t for t in s["types"] if t["kind"] == "object" and t["ifaces"]]
        if not cands:
            return None
        t = r.choice(cands)
        iface = [x for x in s["types"] if x["name"] == t["ifaces"][0]][0]
        fname = iface["fields"][0]["name"]
        if label.endswith("missing"):
            t["fields"] = [f for f in t["fields"] if f["name"] != fname]
            if not t["fields"]:
                t["fields"] = [new_field("other__", "Int")]
                t["fields"][0]["name"] = "otherField"
        else:
            for f in t["fields"]:
                if f["name"] == fname:
                    f["type"] = {"list": {"list": {"list": "Boolean"}}}
        kind = K_SCHEMA
    elif label == "interface-field-contravariant":
        # the implementing field is a strict SUPER-type of the interface field (a non-null dropped at some
        # level, or the interface field made non-null at some level): rejected
        cands = [t for t in s["types"] if t["kind"] == "object" and t["ifaces"]]
        if not cands:
            return None
        t = r.choice(cands)
        iname = r.choice(t["ifaces"])
        iface = [x for x in s["types"] if x["name"] == iname][0]
        f = r.choice(iface["fields"])
        gs = [x for x in t["fields"] if x["name"] == f["name"]]
        if not gs:
            return None
        g = gs[0]
        sup = supertype_variants(f["type"])
        if sup and r.random() < 0.6:
            g["type"] = with_core(r.choice(sup), type_core(g["type"]))
        else:
            # tighten the interface instead: one more non-null at some level, the object keeps the old type
            tight = subtype_variants(f["type"])
            if not tight:
                return None
            g["type"] = with_core(copy.deepcopy(f["type"]), type_core(g["type"]))
            f["type"] = r.choice(tight)
        kind = K_SCHEMA
    elif label == "empty-object":
        s["types"].append({"kind": "object", "name": "Empty", "desc": None, "dirs": [], "ifaces": [], "fields": []})
        kind = K_SCHEMA
    elif label == "empty-union":
        s["types"].append({"kind": "union", "name": "EmptyU", "desc": None, "dirs": [], "members": []})
        kind = K_SCHEMA
    elif label == "no-query":
        if s["explicit_schema"]:
            return None
        q = [t for t in s["types"] if t["name"] == "Query"][0]
        new = r.choice(["NotQuery", "NotQuery", "query", "QUERY", "Query_", "qUERY"])
        if any(t["name"] == new for t in s["types"]):
            return None
        q["name"] = new
        for t in s["types"]:
            if t["kind"] == "union":
                t["members"] = [new if m == "Query" else m for m in t["members"]]
        text, _ = render(s, r)
        if "Query" in text.replace(new, ""):
            return None
        return label, text, K_SCHEMA
    elif label == "root-not-object":
        others = [t for t in s["types"] if t["kind"] in ("enum", "input", "scalar", "interface", "union")]
        if not others:
            return None
        s["explicit_schema"] = True
        s["roots"][r.choice(["query", "mutation", "subscription"])] = r.choice(others)["name"]
        kind = K_SCHEMA
    elif label == "reserved-type-name":
        extra.append(r.choice(["type __Reserved { a: Int }", "scalar __S", "enum __E { A }"]))
        kind = K_SCHEMA
    elif label == "reserved-field-name":
        obj["fields"].append(new_field("__broken", "Int"))
        kind = K_SCHEMA
    else:
        return None
    text, _ = render(s, r, split=r.random() < 0.5, extra=extra)
    return label, text, kind
