# -*- coding: utf-8 -*-
"""C14: serialise a live py_gql Schema as an explicit object heap (by Python
identity) and compute the identity-free `observe` dump.

Heap objects (JSON lists, mirrored by the constructors of Schema/StoreModel.v):
  ["T", name, kind, desc, members, ifaces, res, dirs]    named type
  ["F", name, pyname, tref, args, desc, depr, res, sub, dirs]
  ["A"|"I", name, pyname, tref, default, desc, dirs]     Argument | InputField
  ["V", name, value, desc, depr, dirs]                   EnumValue
  ["D", name, desc, locs, args]                          Directive
tref = ["N", oid] | ["L", tref] | ["NN", tref]; default = [] | [value].
Specified scalars have the fixed oids 1..5; introspection types and specified
directives are not part of the model (never replaced, never mutated).
"""
from py_gql.schema import (
    SPECIFIED_DIRECTIVES, SPECIFIED_SCALAR_TYPES, Argument, Directive, EnumType, EnumValue, Field,
    InputField, InputObjectType, InterfaceType, ListType, NonNullType, ObjectType, ScalarType,
    UnionType,
)
from py_gql.schema.types import _UNSET

from . import ser

BUILTIN = {"Int": 1, "Float": 2, "String": 3, "Boolean": 4, "ID": 5}
_SPEC_BY_ID = {id(t): BUILTIN[t.name] for t in SPECIFIED_SCALAR_TYPES}
KINDS = ["scalar", "object", "interface", "union", "enum", "input"]
SD_NAMES = ("rename", "remove")


def kind_of(t):
    if isinstance(t, ObjectType):
        return "object"
    if isinstance(t, InterfaceType):
        return "interface"
    if isinstance(t, UnionType):
        return "union"
    if isinstance(t, EnumType):
        return "enum"
    if isinstance(t, InputObjectType):
        return "input"
    if isinstance(t, ScalarType):
        return "scalar"
    raise TypeError(type(t))


def fn_id(f):
    if f is None:
        return None
    return getattr(f, "c14_id", 0)


def _dirs_of_nodes(nodes):
    out = []
    for n in nodes:
        if n is None:
            continue
        for d in (n.directives or []):
            if d.name.value == "deprecated":
                continue
            to = None
            for a in d.arguments:
                if a.name.value == "to":
                    to = a.value.value
            out.append([d.name.value, to])
    return out


def wrappers_of(t):
    """(list of 'L'/'NN' outermost first, named type object)"""
    ws = []
    while isinstance(t, (ListType, NonNullType)):
        ws.append("L" if isinstance(t, ListType) else "NN")
        t = t.type
    return ws, t


class Heap:
    """identity -> oid allocation and object serialisation"""

    def __init__(self, base):
        self.next = base
        self.ids = {}
        self.keep = []          # keep serialised objects alive (id() reuse)
        self.objs = []          # [oid, obj-json] in allocation order
        self.done = set()

    def oid(self, o):
        if id(o) in _SPEC_BY_ID:
            return _SPEC_BY_ID[id(o)]
        k = id(o)
        if k not in self.ids:
            self.ids[k] = self.next
            self.next += 1
            self.keep.append(o)
        return self.ids[k]

    def tref(self, t):
        if isinstance(t, ListType):
            return ["L", self.tref(t.type)]
        if isinstance(t, NonNullType):
            return ["NN", self.tref(t.type)]
        return ["N", self.add_type(t)]

    def add_input(self, a):
        o = self.oid(a)
        if o in self.done:
            return o
        self.done.add(o)
        tag = "A" if isinstance(a, Argument) else "I"
        default = [] if a._default_value is _UNSET else [a._default_value]
        slot = [o, None]
        self.objs.append(slot)
        slot[1] = [tag, a.name, a.python_name, self.tref(a.type), default, a.description,
                   _dirs_of_nodes([a.node])]
        return o

    def add_field(self, f):
        o = self.oid(f)
        if o in self.done:
            return o
        self.done.add(o)
        slot = [o, None]
        self.objs.append(slot)
        slot[1] = ["F", f.name, f.python_name, self.tref(f.type),
                   [self.add_input(a) for a in f.arguments], f.description, f.deprecation_reason,
                   fn_id(f.resolver), fn_id(f.subscription_resolver), _dirs_of_nodes([f.node])]
        return o

    def add_enum_value(self, v):
        o = self.oid(v)
        if o in self.done:
            return o
        self.done.add(o)
        self.objs.append([o, ["V", v.name, v.value, v.description, v.deprecation_reason,
                              _dirs_of_nodes([v.node])]])
        return o

    def add_type(self, t):
        o = self.oid(t)
        if o in self.done or o <= 5:
            return o
        self.done.add(o)
        slot = [o, None]
        self.objs.append(slot)
        k = kind_of(t)
        members, ifaces, res = [], [], None
        if k in ("object", "interface"):
            members = [self.add_field(f) for f in t.fields]
        if k == "object":
            ifaces = [self.add_type(i) for i in t.interfaces]
            res = fn_id(t.default_resolver)
        if k in ("interface", "union"):
            res = fn_id(t.resolve_type)
        if k == "union":
            ifaces = [self.add_type(m) for m in t.types]
        if k == "input":
            members = [self.add_input(f) for f in t.fields]
        if k == "enum":
            members = [self.add_enum_value(v) for v in t.values]
        slot[1] = ["T", t.name, k, t.description, members, ifaces, res,
                   _dirs_of_nodes(getattr(t, "nodes", []) or [])]
        return o

    def add_directive(self, d):
        o = self.oid(d)
        if o in self.done:
            return o
        self.done.add(o)
        slot = [o, None]
        self.objs.append(slot)
        slot[1] = ["D", d.name, d.description, list(d.locations), [self.add_input(a) for a in d.arguments]]
        return o

    def add_schema(self, schema):
        """serialise everything reachable; returns the schema record"""
        types = [[n, self.add_type(t)] for n, t in schema.types.items() if not n.startswith("__")]
        dirs = [[n, self.add_directive(d)] for n, d in schema.directives.items()
                if d not in SPECIFIED_DIRECTIVES]
        roots = [None if r is None else self.add_type(r)
                 for r in (schema.query_type, schema.mutation_type, schema.subscription_type)]
        impls = [[n, [self.add_type(t) for t in ts]] for n, ts in schema.implementations.items()]
        poss = [[self.add_type(a), [self.add_type(t) for t in ts]]
                for a, ts in schema._possible_types.items() if not a.name.startswith("__")]
        return {"types": types, "dirs": dirs, "roots": roots, "impls": impls, "poss": poss}


# ------------------------------------------------------------------ observe
def _named(schema, t):
    return {"name": t.name, "ok": schema.types.get(t.name) is t}


def _ref(schema, t):
    ws, inner = wrappers_of(t)
    return {"w": ws, "name": inner.name, "ok": schema.types.get(inner.name) is inner}


def _dump_input(schema, a):
    return {"name": a.name, "py": a.python_name, "type": _ref(schema, a.type),
            "default": [] if a._default_value is _UNSET else [a._default_value], "desc": a.description,
            "sdirs": _dirs_of_nodes([a.node])}


def _dump_field(schema, f):
    return {"name": f.name, "py": f.python_name, "type": _ref(schema, f.type),
            "args": [_dump_input(schema, a) for a in f.arguments], "desc": f.description,
            "depr": f.deprecation_reason, "res": fn_id(f.resolver), "sub": fn_id(f.subscription_resolver),
            "sdirs": _dirs_of_nodes([f.node])}


def dump_schema(schema):
    """identity-free dump; identity bits are computed with `is` against
    schema.types[name]. Calls get_possible_types for every registered abstract
    type (the model's observe does the same)."""
    types = []
    for n, t in schema.types.items():
        if n.startswith("__") or t in SPECIFIED_SCALAR_TYPES:
            continue
        k = kind_of(t)
        e = {"name": t.name, "kind": k, "desc": t.description, "members": [], "refs": [], "res": None,
             "builtin": t in SPECIFIED_SCALAR_TYPES, "key": n,
             "sdirs": _dirs_of_nodes(getattr(t, "nodes", []) or [])}
        if k in ("object", "interface"):
            e["fields"] = [_dump_field(schema, f) for f in t.fields]
        if k == "object":
            e["refs"] = [_named(schema, i) for i in t.interfaces]
            e["res"] = fn_id(t.default_resolver)
        if k in ("interface", "union"):
            e["res"] = fn_id(t.resolve_type)
        if k == "union":
            e["refs"] = [_named(schema, m) for m in t.types]
            e["members"] = e["refs"]
        if k == "input":
            e["fields"] = [_dump_input(schema, f) for f in t.fields]
        if k == "enum":
            e["values"] = [{"name": v.name, "value": v.value, "desc": v.description,
                            "depr": v.deprecation_reason, "sdirs": _dirs_of_nodes([v.node])} for v in t.values]
        types.append(e)
    dirs = []
    for n, d in schema.directives.items():
        if d in SPECIFIED_DIRECTIVES:
            continue
        dirs.append({"name": d.name, "desc": d.description, "locs": list(d.locations),
                     "args": [_dump_input(schema, a) for a in d.arguments], "key": n})
    roots = [None if r is None else _named(schema, r)
             for r in (schema.query_type, schema.mutation_type, schema.subscription_type)]
    impls = sorted(([n, sorted((_named(schema, t) for t in ts), key=lambda x: (x["name"], x["ok"]))]
                    for n, ts in schema.implementations.items() if ts), key=lambda x: x[0])
    poss = []
    for n, t in schema.types.items():
        if isinstance(t, (InterfaceType, UnionType)) and not n.startswith("__"):
            ts = schema.get_possible_types(t)
            poss.append([t.name, sorted((_named(schema, x) for x in ts), key=lambda x: (x["name"], x["ok"]))])
    poss.sort(key=lambda x: x[0])
    return {"roots": roots, "types": sorted(types, key=lambda e: e["name"]),
            "directives": sorted(dirs, key=lambda e: e["name"]), "impls": impls, "poss": poss}


# ------------------------------------------------------------------ Coq terms
def _ostr(x):
    return ser.copt(x, ser.cstr)


def _on(x):
    return "None" if x is None else "(Some %d)" % x


def c_tref(r):
    if r[0] == "N":
        return "(RNamed %d)" % r[1]
    if r[0] == "L":
        return "(RList %s)" % c_tref(r[1])
    return "(RNonNull %s)" % c_tref(r[1])


def _oids(l):
    return "[" + ";".join(str(x) for x in l) + "]"


def _dirs(ds):
    return ser.clist(ds, lambda d: "(%s,%s)" % (ser.cstr(d[0]), _ostr(d[1])))


def _odef(d):
    return "None" if not d else "(Some %s)" % ser.cpv(d[0])


def c_obj(o):
    t = o[0]
    if t == "T":
        return "(OType %s K%s %s %s %s %s %s)" % (ser.cstr(o[1]), o[2], _ostr(o[3]), _oids(o[4]), _oids(o[5]),
                                                  _on(o[6]), _dirs(o[7]))
    if t == "F":
        return "(OField %s %s %s %s %s %s %s %s %s)" % (
            ser.cstr(o[1]), ser.cstr(o[2]), c_tref(o[3]), _oids(o[4]), _ostr(o[5]), _ostr(o[6]),
            _on(o[7]), _on(o[8]), _dirs(o[9]))
    if t in ("A", "I"):
        return "(OInput %s %s %s %s %s %s %s)" % (
            "true" if t == "A" else "false", ser.cstr(o[1]), ser.cstr(o[2]), c_tref(o[3]), _odef(o[4]),
            _ostr(o[5]), _dirs(o[6]))
    if t == "V":
        return "(OEnumV %s %s %s %s %s)" % (ser.cstr(o[1]), ser.cpv(o[2]), _ostr(o[3]), _ostr(o[4]), _dirs(o[5]))
    if t == "D":
        return "(ODir %s %s %s %s)" % (ser.cstr(o[1]), _ostr(o[2]), ser.clist(o[3], ser.cstr), _oids(o[4]))
    raise ValueError(t)


def c_heap(objs):
    return "[" + ";\n ".join("(%d,%s)" % (oid, c_obj(o)) for oid, o in objs) + "]"


def c_schema(rec):
    def al(xs, f):
        return ser.clist(xs, lambda p: "(%s,%s)" % (f(p[0]), p[1] if not isinstance(p[1], list) else _oids(p[1])))
    return "(MkSchema %s %s %s %s %s %s %s)" % (
        al(rec["types"], ser.cstr), al(rec["dirs"], ser.cstr),
        _on(rec["roots"][0]), _on(rec["roots"][1]), _on(rec["roots"][2]),
        al(rec["impls"], ser.cstr), al(rec["poss"], str))


# sx trees: SA n | SS str | SL list -- layout mirrored by `observe` in StoreModel.v
def _sl(xs):
    return "(SL [" + ";".join(xs) + "])"


def _sa(n):
    return "(SA %d)" % n


def _ss(x):
    return "(SS %s)" % ser.cstr(x)


def _sos(x):
    return _sl([]) if x is None else _sl([_ss(x)])


def _son(x):
    return _sl([]) if x is None else _sl([_sa(x)])


def sx_pv(v):
    if v is None:
        return _sl([_sa(0)])
    if v is True or v is False:
        return _sl([_sa(1), _sa(1 if v else 0)])
    if isinstance(v, int):
        return _sl([_sa(2), _sa(1 if v < 0 else 0), _sa(abs(v))])
    if isinstance(v, float):
        return _sl([_sa(3), _ss(repr(v))])
    if isinstance(v, str):
        return _sl([_sa(4), _ss(v)])
    if isinstance(v, (list, tuple)):
        return _sl([_sa(5)] + [sx_pv(x) for x in v])
    if isinstance(v, dict):
        return _sl([_sa(6)] + [_sl([_ss(k), sx_pv(x)]) for k, x in v.items()])
    raise TypeError(repr(v))


def sx_named(n):
    return _sl([_ss(n["name"]), _sa(1 if n["ok"] else 0)])


def sx_ref(r):
    return _sl([_sl([_sa(1 if w == "L" else 2) for w in r["w"]]), _ss(r["name"]), _sa(1 if r["ok"] else 0)])


def sx_dirs(ds):
    return _sl([_sl([_ss(d[0]), _sos(d[1])]) for d in ds])


def sx_input(a):
    return _sl([_ss(a["name"]), _ss(a["py"]), sx_ref(a["type"]),
                _sl([sx_pv(a["default"][0])] if a["default"] else []), _sos(a["desc"]), sx_dirs(a.get("sdirs", []))])


def sx_field(f):
    return _sl([_ss(f["name"]), _ss(f["py"]), sx_ref(f["type"]), _sl([sx_input(a) for a in f["args"]]),
                _sos(f["desc"]), _sos(f["depr"]), _son(f["res"]), _son(f["sub"]), sx_dirs(f.get("sdirs", []))])


def sx_type(t):
    k = t["kind"]
    if k in ("object", "interface"):
        members = [sx_field(f) for f in t["fields"]]
    elif k == "input":
        members = [sx_input(f) for f in t["fields"]]
    elif k == "enum":
        members = [_sl([_ss(v["name"]), sx_pv(v["value"]), _sos(v["desc"]), _sos(v["depr"]), sx_dirs(v.get("sdirs", []))])
                   for v in t["values"]]
    else:
        members = []
    return _sl([_ss(t["name"]), _sa(KINDS.index(k)), _sos(t["desc"]), _sl(members),
                _sl([sx_named(n) for n in t["refs"]]), _son(t["res"]), sx_dirs(t.get("sdirs", []))])


def sx_dump(d):
    roots = _sl([_sl([]) if r is None else _sl([sx_named(r)]) for r in d["roots"]])
    types = _sl([sx_type(t) for t in d["types"]])
    dirs = _sl([_sl([_ss(x["name"]), _sos(x["desc"]), _sl([_ss(l) for l in x["locs"]]),
                     _sl([sx_input(a) for a in x["args"]])]) for x in d["directives"]])
    impls = _sl([_sl([_ss(n), _sl([sx_named(x) for x in ts])]) for n, ts in d["impls"]])
    poss = _sl([_sl([_ss(n), _sl([sx_named(x) for x in ts])]) for n, ts in d["poss"]])
    return _sl([roots, types, dirs, impls, poss])


# ------------------------------------------------------------------ extension documents
def _nt(t):
    from py_gql.lang import ast as A
    if isinstance(t, A.ListType):
        return "(NList %s)" % _nt(t.type)
    if isinstance(t, A.NonNullType):
        return "(NNonNull %s)" % _nt(t.type)
    return "(NNamed %s)" % ser.cstr(t.name.value)


def _literal_pv(v):
    """python value of a default literal, for the literal kinds whose coercion is the identity
    (Int, Float, String, Boolean, enum names, null, lists of those)"""
    from py_gql.lang import ast as A
    if isinstance(v, A.IntValue):
        return int(v.value)
    if isinstance(v, A.FloatValue):
        return float(v.value)
    if isinstance(v, (A.StringValue, A.EnumValue)):
        return v.value
    if isinstance(v, A.BooleanValue):
        return v.value
    if isinstance(v, A.NullValue):
        return None
    if isinstance(v, A.ListValue):
        return [_literal_pv(x) for x in v.values]
    raise TypeError("unsupported default literal %r" % (v,))


def _desc(n):
    return n.description.value if getattr(n, "description", None) else None


def _depr(n):
    for d in n.directives or []:
        if d.name.value == "deprecated":
            for a in d.arguments:
                if a.name.value == "reason":
                    return a.value.value
            return "No longer supported"
    return None


def _narg(a):
    default = "None" if a.default_value is None else "(Some %s)" % ser.cpv(_literal_pv(a.default_value))
    return "(NArg %s %s %s %s %s)" % (ser.cstr(a.name.value), _nt(a.type), default, _ostr(_desc(a)),
                                      _dirs(_dirs_of_nodes([a])))


def _nfield(f):
    return "(NField %s %s %s %s %s %s)" % (ser.cstr(f.name.value), _nt(f.type), ser.clist(f.arguments or [], _narg),
                                           _ostr(_desc(f)), _ostr(_depr(f)), _dirs(_dirs_of_nodes([f])))


def _nbody(n):
    from py_gql.lang import ast as A
    if isinstance(n, (A.ObjectTypeDefinition, A.ObjectTypeExtension)):
        return "Kobject", "(NBFields %s %s)" % (ser.clist(n.fields or [], _nfield),
                                                ser.clist(n.interfaces or [], lambda i: ser.cstr(i.name.value)))
    if isinstance(n, (A.InterfaceTypeDefinition, A.InterfaceTypeExtension)):
        return "Kinterface", "(NBFields %s [])" % ser.clist(n.fields or [], _nfield)
    if isinstance(n, (A.InputObjectTypeDefinition, A.InputObjectTypeExtension)):
        return "Kinput", "(NBInputs %s)" % ser.clist(n.fields or [], _narg)
    if isinstance(n, (A.EnumTypeDefinition, A.EnumTypeExtension)):
        return "Kenum", "(NBValues %s)" % ser.clist(
            n.values or [], lambda v: "(NValue %s %s %s %s)" % (ser.cstr(v.name.value), _ostr(_desc(v)),
                                                               _ostr(_depr(v)), _dirs(_dirs_of_nodes([v]))))
    if isinstance(n, (A.UnionTypeDefinition, A.UnionTypeExtension)):
        return "Kunion", "(NBUnion %s)" % ser.clist(n.types or [], lambda t: ser.cstr(t.name.value))
    if isinstance(n, (A.ScalarTypeDefinition, A.ScalarTypeExtension)):
        return "Kscalar", "NBScalar"
    raise TypeError(type(n))


def c_extdoc(text):
    """the extension document as the model's [extdoc]"""
    from py_gql.lang import ast as A, parse
    doc = parse(text, allow_type_system=True)
    schema_def, defs, exts, dirs, ops = False, [], [], [], []
    for n in doc.definitions:
        if isinstance(n, A.SchemaDefinition):
            schema_def = True
        elif isinstance(n, A.SchemaExtension):
            for o in n.operation_types:
                ops.append("(%d, %s)" % (["query", "mutation", "subscription"].index(o.operation),
                                         ser.cstr(o.type.name.value)))
        elif isinstance(n, A.TypeDefinition):
            k, b = _nbody(n)
            defs.append("(NTypeDef %s %s %s %s %s)" % (ser.cstr(n.name.value), k, _ostr(_desc(n)), b,
                                                       _dirs(_dirs_of_nodes([n]))))
        elif isinstance(n, A.TypeExtension):
            k, b = _nbody(n)
            exts.append("(NTypeExt %s %s %s %s)" % (ser.cstr(n.name.value), k, b, _dirs(_dirs_of_nodes([n]))))
        elif isinstance(n, A.DirectiveDefinition):
            dirs.append("(NDirDef %s %s %s %s)" % (ser.cstr(n.name.value), _ostr(_desc(n)),
                                                   ser.clist(n.locations, lambda l: ser.cstr(l.value)),
                                                   ser.clist(n.arguments or [], _narg)))
    return "(MkExt %s [%s] [%s] [%s] [%s])" % (ser.cbool(schema_def), "; ".join(defs), "; ".join(exts),
                                               "; ".join(dirs), "; ".join(ops))
