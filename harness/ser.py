# -*- coding: utf-8 -*-
"""Python -> Coq term serialiser for the correspondence cases.

Terms are written for a file that has `Local Open Scope N_scope.` so bare
numerals are `N`. Helper notations/definitions come from PyGql.Run.Driver:
  (s "abc")      ASCII literal          (L a b) / NL   locations
"""
from py_gql.lang import ast as A


def cstr(s):
    """Python str -> Coq term of type `str` (list N of code points)."""
    if s is None:
        raise TypeError("cstr(None)")
    if all(32 <= ord(c) <= 126 and c != '"' for c in s) and len(s) > 0:
        return '(s "%s")' % s
    return "[" + ";".join(str(ord(c)) for c in s) + "]"


def cbool(b):
    return "true" if b else "false"


def copt(x, f):
    return "None" if x is None else "(Some %s)" % f(x)


def clist(xs, f):
    return "[" + "; ".join(f(x) for x in xs) + "]"


def cloc(loc):
    if loc is None:
        return "NL"
    return "(L %d %d)" % (loc[0], loc[1])


def cz(n):
    return "(%d)%%Z" % n


def cnat(n):
    return "(N.to_nat %d)" % n


# ---------------------------------------------------------------- python values
def cpv(v):
    if v is None:
        return "PNone"
    if v is True or v is False:
        return "(PBool %s)" % cbool(v)
    if isinstance(v, int):
        return "(PInt %s)" % cz(v)
    if isinstance(v, float):
        return "(PFloat %s)" % cstr(repr(v))
    if isinstance(v, str):
        return "(PStr %s)" % cstr(v)
    if isinstance(v, (list, tuple)):
        return "(PList %s)" % clist(v, cpv)
    if isinstance(v, dict):
        return "(PDict %s)" % clist(
            list(v.items()), lambda kv: "(%s, %s)" % (cstr(kv[0]), cpv(kv[1]))
        )
    raise TypeError("cpv: %r" % (v,))


def cvars(d):
    return clist(list(d.items()), lambda kv: "(%s, %s)" % (cstr(kv[0]), cpv(kv[1])))


# ---------------------------------------------------------------- AST
def cname(n):
    return "(Name %s %s)" % (cstr(n.value), cloc(n.loc))


def ctype(t):
    if isinstance(t, A.NamedType):
        return "(TNamed %s %s)" % (cname(t.name), cloc(t.loc))
    if isinstance(t, A.ListType):
        return "(TList %s %s)" % (ctype(t.type), cloc(t.loc))
    if isinstance(t, A.NonNullType):
        return "(TNonNull %s %s)" % (ctype(t.type), cloc(t.loc))
    raise TypeError("ctype: %r" % (t,))


def cvalue(v):
    l = cloc(v.loc)
    if isinstance(v, A.Variable):
        return "(VVar %s %s)" % (cname(v.name), l)
    if isinstance(v, A.IntValue):
        return "(VInt %s %s)" % (cstr(v.value), l)
    if isinstance(v, A.FloatValue):
        return "(VFloat %s %s)" % (cstr(v.value), l)
    if isinstance(v, A.StringValue):
        return "(VString %s %s %s)" % (cstr(v.value), cbool(v.block), l)
    if isinstance(v, A.BooleanValue):
        return "(VBool %s %s)" % (cbool(v.value), l)
    if isinstance(v, A.NullValue):
        return "(VNull %s)" % l
    if isinstance(v, A.EnumValue):
        return "(VEnum %s %s)" % (cstr(v.value), l)
    if isinstance(v, A.ListValue):
        return "(VList %s %s)" % (clist(v.values, cvalue), l)
    if isinstance(v, A.ObjectValue):
        return "(VObject %s %s)" % (
            clist(
                v.fields,
                lambda f: "(%s, %s, %s)" % (cname(f.name), cvalue(f.value), cloc(f.loc)),
            ),
            l,
        )
    raise TypeError("cvalue: %r" % (v,))


def carg(a):
    return "(Arg %s %s %s)" % (cname(a.name), cvalue(a.value), cloc(a.loc))


def cdir(d):
    return "(Dir %s %s %s)" % (cname(d.name), clist(d.arguments, carg), cloc(d.loc))


def cdirs(ds):
    return clist(ds, cdir)


def csel(x):
    if isinstance(x, A.Field):
        ss = x.selection_set
        return "(SField %s %s %s %s %s %s %s)" % (
            copt(x.alias, cname),
            cname(x.name),
            clist(x.arguments, carg),
            cdirs(x.directives),
            "None" if ss is None else "(Some %s)" % cloc(ss.loc),
            "[]" if ss is None else clist(ss.selections, csel),
            cloc(x.loc),
        )
    if isinstance(x, A.FragmentSpread):
        return "(SSpread %s %s %s)" % (cname(x.name), cdirs(x.directives), cloc(x.loc))
    if isinstance(x, A.InlineFragment):
        return "(SInline %s %s %s %s %s)" % (
            copt(x.type_condition, ctype),
            cdirs(x.directives),
            cloc(x.selection_set.loc),
            clist(x.selection_set.selections, csel),
            cloc(x.loc),
        )
    raise TypeError("csel: %r" % (x,))


def cvardef(v):
    return "(VarDef %s %s %s %s %s %s)" % (
        cname(v.variable.name),
        cloc(v.variable.loc),
        ctype(v.type),
        copt(v.default_value, cvalue),
        cdirs(v.directives),
        cloc(v.loc),
    )


_OPK = {"query": "OpQuery", "mutation": "OpMutation", "subscription": "OpSubscription"}


def cstrval(v):
    return "(StrVal %s %s %s)" % (cstr(v.value), cbool(v.block), cloc(v.loc))


def civdef(v):
    return "(IVDef %s %s %s %s %s %s)" % (
        copt(v.description, cstrval),
        cname(v.name),
        ctype(v.type),
        copt(v.default_value, cvalue),
        cdirs(v.directives),
        cloc(v.loc),
    )


def cfdef(f):
    return "(FDef %s %s %s %s %s %s)" % (
        copt(f.description, cstrval),
        cname(f.name),
        clist(f.arguments, civdef),
        ctype(f.type),
        cdirs(f.directives),
        cloc(f.loc),
    )


def cevdef(v):
    return "(EVDef %s %s %s %s)" % (
        copt(v.description, cstrval),
        cname(v.name),
        cdirs(v.directives),
        cloc(v.loc),
    )


def cotdef(o):
    return "(OTDef %s %s %s)" % (_OPK[o.operation], ctype(o.type), cloc(o.loc))


def cdef(d):
    l = cloc(d.loc)
    if isinstance(d, A.OperationDefinition):
        return "(DOperation %s %s %s %s %s %s %s)" % (
            _OPK[d.operation],
            copt(d.name, cname),
            clist(d.variable_definitions, cvardef),
            cdirs(d.directives),
            cloc(d.selection_set.loc),
            clist(d.selection_set.selections, csel),
            l,
        )
    if isinstance(d, A.FragmentDefinition):
        return "(DFragment %s %s %s %s %s %s %s)" % (
            cname(d.name),
            clist(d.variable_definitions, cvardef),
            ctype(d.type_condition),
            cdirs(d.directives),
            cloc(d.selection_set.loc),
            clist(d.selection_set.selections, csel),
            l,
        )
    ext = isinstance(d, A.TypeSystemExtension)
    e = cbool(ext)
    desc = "None" if ext else copt(getattr(d, "description", None), cstrval)
    if isinstance(d, (A.SchemaDefinition, A.SchemaExtension)):
        return "(DSchema %s %s %s %s)" % (e, cdirs(d.directives), clist(d.operation_types, cotdef), l)
    if isinstance(d, (A.ScalarTypeDefinition, A.ScalarTypeExtension)):
        return "(DScalar %s %s %s %s %s)" % (e, desc, cname(d.name), cdirs(d.directives), l)
    if isinstance(d, (A.ObjectTypeDefinition, A.ObjectTypeExtension)):
        return "(DObject %s %s %s %s %s %s %s)" % (
            e, desc, cname(d.name), clist(d.interfaces, ctype), cdirs(d.directives),
            clist(d.fields, cfdef), l)
    if isinstance(d, (A.InterfaceTypeDefinition, A.InterfaceTypeExtension)):
        return "(DInterface %s %s %s %s %s %s)" % (
            e, desc, cname(d.name), cdirs(d.directives), clist(d.fields, cfdef), l)
    if isinstance(d, (A.UnionTypeDefinition, A.UnionTypeExtension)):
        return "(DUnion %s %s %s %s %s %s)" % (
            e, desc, cname(d.name), cdirs(d.directives), clist(d.types, ctype), l)
    if isinstance(d, (A.EnumTypeDefinition, A.EnumTypeExtension)):
        return "(DEnum %s %s %s %s %s %s)" % (
            e, desc, cname(d.name), cdirs(d.directives), clist(d.values, cevdef), l)
    if isinstance(d, (A.InputObjectTypeDefinition, A.InputObjectTypeExtension)):
        return "(DInput %s %s %s %s %s %s)" % (
            e, desc, cname(d.name), cdirs(d.directives), clist(d.fields, civdef), l)
    if isinstance(d, A.DirectiveDefinition):
        return "(DDirective %s %s %s %s %s)" % (
            copt(d.description, cstrval), cname(d.name), clist(d.arguments, civdef),
            clist(d.locations, cname), l)
    raise TypeError("cdef: %r" % (d,))


def cdoc(doc):
    return "(Doc %s %s)" % (clist(doc.definitions, cdef), cloc(doc.loc))
