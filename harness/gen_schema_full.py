# -*- coding: utf-8 -*-
"""Schema generator shared by C13 (schema validation) and C20 (schema diffing).

A schema is described by a JSON-able *spec*:

  {"types": [typedef...], "directives": [dirdef...], "query": name|None,
   "mutation": name|None, "subscription": name|None,
   "default_resolver": sig|None, "via": "code"|"sdl"}

  typedef  = {"kind": "object", "name", "interfaces": [name], "fields": [field], "default_resolver": sig|None}
           | {"kind": "interface", "name", "fields": [field]}
           | {"kind": "union", "name", "members": [name]}
           | {"kind": "enum", "name", "values": [{"name", "depr": str|None}]}
           | {"kind": "input", "name", "fields": [{"name", "type", "default"}]}
           | {"kind": "scalar", "name"}
  field    = {"name", "type", "args": [arg], "depr": str|None, "resolver": sig|None}
  arg      = {"name", "type", "default": None | {"py": value, "gql": literal}}
  type     = ["N", name] | ["L", type] | ["NN", type]
  sig      = [[param name, kind, has_default], ...]   kind in PO PK VP KO VK

From a spec the real py_gql Schema is built (by code or through SDL text) and
the Coq term is serialised from the *real objects*, never from the spec.
All randomness comes from the rng passed in."""
import copy
import inspect

from py_gql import schema as S
from py_gql.schema.introspection import is_introspection_type
from py_gql.schema.scalars import SPECIFIED_SCALAR_TYPES
from py_gql.sdl.schema_from_ast import build_schema_ignoring_extensions

from . import ser

SPEC_SCALARS = {t.name: t for t in SPECIFIED_SCALAR_TYPES}
KINDS = {"PO": inspect.Parameter.POSITIONAL_ONLY, "PK": inspect.Parameter.POSITIONAL_OR_KEYWORD,
         "VP": inspect.Parameter.VAR_POSITIONAL, "KO": inspect.Parameter.KEYWORD_ONLY,
         "VK": inspect.Parameter.VAR_KEYWORD}
KIND_COQ = {inspect.Parameter.POSITIONAL_ONLY: "PosOnly", inspect.Parameter.POSITIONAL_OR_KEYWORD: "PosOrKw",
            inspect.Parameter.VAR_POSITIONAL: "VarPos", inspect.Parameter.KEYWORD_ONLY: "KwOnly",
            inspect.Parameter.VAR_KEYWORD: "VarKw"}
LOCATIONS = ["QUERY", "MUTATION", "FIELD", "FRAGMENT_SPREAD", "INLINE_FRAGMENT", "FRAGMENT_DEFINITION",
             "SCHEMA", "SCALAR", "OBJECT", "FIELD_DEFINITION", "ARGUMENT_DEFINITION", "INTERFACE", "UNION",
             "ENUM", "ENUM_VALUE", "INPUT_OBJECT", "INPUT_FIELD_DEFINITION"]


# ------------------------------------------------------------------ types
def N(name):
    return ["N", name]


def L(t):
    return ["L", t]


def NN(t):
    return ["NN", t]


def tstr(t):
    if t[0] == "N":
        return t[1]
    if t[0] == "L":
        return "[%s]" % tstr(t[1])
    return "%s!" % tstr(t[1])


def tbase(t):
    while t[0] != "N":
        t = t[1]
    return t[1]


def tdepth(t):
    return 0 if t[0] == "N" else 1 + tdepth(t[1])


def all_wrappings(base, depth):
    """every type of wrapper depth <= depth over the named type [base]
    (NonNull never directly inside NonNull)"""
    out = [N(base)]
    frontier = [N(base)]
    for _ in range(depth):
        nxt = []
        for t in frontier:
            nxt.append(L(t))
            if t[0] != "NN":
                nxt.append(NN(t))
        out.extend(nxt)
        frontier = nxt
    return out


def rand_wrap(rng, base, maxdepth=3):
    t = N(base)
    for _ in range(rng.choice([0, 0, 1, 1, 2, 2, 3][:maxdepth * 2 + 1])):
        if t[0] != "NN" and rng.random() < 0.5:
            t = NN(t)
        else:
            t = L(t)
    return t


# ------------------------------------------------------------------ signatures
_FN_CACHE = {}
_KIND_NAME = {v: k for k, v in KINDS.items()}
# how the callable is presented to the validator; every shape shows (through
# inspect.signature with its default follow_wrapped=True) the parameter list [sig],
# partial_kw shows one more keyword-only parameter with a default
SHAPES = ["bare", "lambda", "wrapped", "wrapped2", "partial_pos", "partial_kw", "bound", "callable",
          "static", "classbound"]


def _params_src(sig):
    parts, seen_star = [], False
    po = [p for p in sig if p[1] == "PO"]
    for i, (name, kind, dflt) in enumerate(sig):
        d = "=None" if dflt else ""
        if kind == "PO":
            parts.append(name + d)
            if i + 1 == len(po):
                parts.append("/")
        elif kind == "PK":
            parts.append(name + d)
        elif kind == "VP":
            parts.append("*" + name)
            seen_star = True
        elif kind == "KO":
            if not seen_star:
                parts.append("*")
                seen_star = True
            parts.append(name + d)
        elif kind == "VK":
            parts.append("**" + name)
    return ", ".join(parts)


def sig_of(fn):
    """the parameter list the (unchanged) validator sees: inspect.signature, following __wrapped__"""
    return [[p.name, _KIND_NAME[p.kind], p.default is not inspect.Parameter.empty]
            for p in inspect.signature(fn).parameters.values()]


def _passthrough(fn):
    import functools

    @functools.wraps(fn)
    def wrapper(*args, **kwargs):
        return fn(*args, **kwargs)
    return wrapper


def shape_for(sig, seed):
    """one shape per signature within a case (same signature = same function object)"""
    if not seed or sig is None:
        return "bare"
    return SHAPES[(sum(ord(c) for c in repr(sig)) + seed) % len(SHAPES)]


def make_fn(sig, shape="bare"):
    """a real Python callable whose visible parameter list is [sig], presented as [shape]"""
    if sig is None:
        return None
    key = (tuple(tuple(p) for p in sig), shape)
    if key in _FN_CACHE:
        return _FN_CACHE[key]
    import functools
    src_params = _params_src(sig)
    ns = {}
    if shape in ("bare", "wrapped", "wrapped2"):
        exec("def resolver(%s):\n    return None\n" % src_params, ns)  # noqa: S102 - closed grammar
        fn = ns["resolver"]
        if shape != "bare":
            fn = _passthrough(fn)
        if shape == "wrapped2":
            fn = _passthrough(fn)
    elif shape == "lambda":
        fn = eval("lambda %s: None" % src_params, ns)  # noqa: S307 - closed grammar
    elif shape == "partial_pos":
        exec("def resolver(%s):\n    return None\n" % ", ".join(x for x in ["_b0", src_params] if x), ns)  # noqa: S102
        fn = functools.partial(ns["resolver"], 0)
    elif shape == "partial_kw":
        vk = [p for p in sig if p[1] == "VK"]
        exec("def resolver(%s):\n    return None\n" % _params_src(  # noqa: S102
            [p for p in sig if p[1] != "VK"] + [["_k0", "KO", False]] + vk), ns)
        fn = functools.partial(ns["resolver"], _k0=1)
    elif shape in ("bound", "callable", "static", "classbound"):
        deco = {"static": "    @staticmethod\n", "classbound": "    @classmethod\n"}.get(shape, "")
        first = {"static": "", "classbound": "cls"}.get(shape, "self")
        meth = "__call__" if shape == "callable" else "resolve"
        exec("class Holder:\n%s    def %s(%s):\n        return None\n" % (
            deco, meth, ", ".join(x for x in [first, src_params] if x)), ns)  # noqa: S102
        holder = ns["Holder"]
        fn = {"bound": lambda: holder().resolve, "callable": lambda: holder(),
              "static": lambda: holder.resolve, "classbound": lambda: holder.resolve}[shape]()
    else:
        raise ValueError(shape)
    got = sig_of(fn)
    want = [list(p) for p in sig] if shape != "partial_kw" else (
        [list(p) for p in sig if p[1] != "VK"] + [["_k0", "KO", True]] + [list(p) for p in sig if p[1] == "VK"])
    assert got == want, (shape, got, sig)
    _FN_CACHE[key] = fn
    return fn


def make_shaped(sig, seed):
    return make_fn(sig, shape_for(sig, seed))


def sig_valid_python(sig):
    """can this parameter list be written as a def? (order of kinds, defaults
    not followed by non-defaults among positionals, unique names)"""
    order = {"PO": 0, "PK": 1, "VP": 2, "KO": 3, "VK": 4}
    ks = [order[p[1]] for p in sig]
    if ks != sorted(ks) or ks.count(2) > 1 or ks.count(4) > 1:
        return False
    if len({p[0] for p in sig}) != len(sig):
        return False
    seen_default = False
    for name, kind, dflt in sig:
        if kind in ("PO", "PK"):
            if dflt:
                seen_default = True
            elif seen_default:
                return False
    return True


# ------------------------------------------------------------------ spec -> Schema (code)
def build_code(spec):
    """py_gql Schema built through the Python constructors (lazy references)"""
    reg = dict(SPEC_SCALARS)
    seed = spec.get("shape_seed", 0)      # how resolvers are presented (functools.wraps, partial, methods, ...)

    def ref(t):
        if t[0] == "N":
            return reg[t[1]]
        if t[0] == "L":
            return S.ListType(ref(t[1]))
        return S.NonNullType(ref(t[1]))

    def mk_arg(a):
        kw = {}
        if a.get("default") is not None:
            kw["default_value"] = copy.deepcopy(a["default"]["py"])
        if a.get("pyname"):
            kw["python_name"] = a["pyname"]
        return S.Argument(a["name"], ref(a["type"]), **kw)

    def mk_field(f):
        return S.Field(f["name"], ref(f["type"]), args=[mk_arg(a) for a in f.get("args", [])],
                       deprecation_reason=f.get("depr"), resolver=make_shaped(f.get("resolver"), seed))

    def mk_input_field(f):
        kw = {}
        if f.get("default") is not None:
            kw["default_value"] = copy.deepcopy(f["default"]["py"])
        return S.InputField(f["name"], ref(f["type"]), **kw)

    for td in spec["types"]:
        k, name = td["kind"], td["name"]
        if name in reg:
            raise ValueError("duplicate type " + name)
        if k == "scalar":
            reg[name] = S.ScalarType(name, serialize=lambda x: x, parse=lambda x: x)
        elif k == "object":
            reg[name] = S.ObjectType(
                name, fields=(lambda td=td: [mk_field(f) for f in td["fields"]]),
                interfaces=(lambda td=td: [reg[i] for i in td["interfaces"]]),
                default_resolver=make_shaped(td.get("default_resolver"), seed))
        elif k == "interface":
            reg[name] = S.InterfaceType(name, fields=(lambda td=td: [mk_field(f) for f in td["fields"]]))
        elif k == "union":
            reg[name] = S.UnionType(name, types=(lambda td=td: [reg[m] for m in td["members"]]))
        elif k == "enum":
            reg[name] = S.EnumType(name, [S.EnumValue(v["name"], deprecation_reason=v.get("depr"))
                                          for v in td["values"]])
        elif k == "input":
            reg[name] = S.InputObjectType(name, fields=(lambda td=td: [mk_input_field(f) for f in td["fields"]]))
        else:
            raise ValueError(k)
    directives = [S.Directive(d["name"], d["locations"], args=[mk_arg(a) for a in d.get("args", [])])
                  for d in spec.get("directives", [])]
    sch = S.Schema(
        query_type=reg[spec["query"]] if spec.get("query") else None,
        mutation_type=reg[spec["mutation"]] if spec.get("mutation") else None,
        subscription_type=reg[spec["subscription"]] if spec.get("subscription") else None,
        directives=directives,
        types=[reg[td["name"]] for td in spec["types"]],
    )
    if spec.get("default_resolver") is not None:
        sch.default_resolver = make_shaped(spec["default_resolver"], seed)
    return sch


# ------------------------------------------------------------------ spec -> SDL
def _sdl_args(args):
    if not args:
        return ""
    return "(" + ", ".join(
        "%s: %s%s" % (a["name"], tstr(a["type"]),
                      (" = " + a["default"]["gql"]) if a.get("default") is not None else "")
        for a in args) + ")"


def _sdl_depr(d):
    if d is None:
        return ""
    return ' @deprecated(reason: "%s")' % d


def to_sdl(spec):
    out = []
    for d in spec.get("directives", []):
        out.append("directive @%s%s on %s" % (d["name"], _sdl_args(d.get("args", [])), " | ".join(d["locations"])))
    for td in spec["types"]:
        k, name = td["kind"], td["name"]
        if k == "scalar":
            out.append("scalar %s" % name)
        elif k in ("object", "interface"):
            impl = ""
            if k == "object" and td["interfaces"]:
                impl = " implements " + " & ".join(td["interfaces"])
            body = "\n".join("  %s%s: %s%s" % (f["name"], _sdl_args(f.get("args", [])), tstr(f["type"]),
                                               _sdl_depr(f.get("depr"))) for f in td["fields"])
            out.append("%s %s%s {\n%s\n}" % ("type" if k == "object" else "interface", name, impl, body))
        elif k == "union":
            out.append("union %s = %s" % (name, " | ".join(td["members"])))
        elif k == "enum":
            out.append("enum %s {\n%s\n}" % (name, "\n".join("  %s%s" % (v["name"], _sdl_depr(v.get("depr")))
                                                              for v in td["values"])))
        elif k == "input":
            out.append("input %s {\n%s\n}" % (name, "\n".join(
                "  %s: %s%s" % (f["name"], tstr(f["type"]),
                                (" = " + f["default"]["gql"]) if f.get("default") is not None else "")
                for f in td["fields"])))
    roots = [(op, spec.get(op)) for op in ("query", "mutation", "subscription") if spec.get(op)]
    out.append("schema {\n%s\n}" % "\n".join("  %s: %s" % r for r in roots))
    return "\n\n".join(out) + "\n"


def build(spec):
    if spec.get("via") == "sdl":
        # build_schema = this + extend_schema (no extensions here) + schema.validate();
        # validation is what the checks observe, so it is left to them
        return build_schema_ignoring_extensions(to_sdl(spec))
    return build_code(spec)


# ------------------------------------------------------------------ Schema -> Coq
def cty(t):
    if isinstance(t, S.NonNullType):
        return "(TyNonNull %s)" % cty(t.type)
    if isinstance(t, S.ListType):
        return "(TyList %s)" % cty(t.type)
    return "(TyNamed %s)" % ser.cstr(t.name)


def csig(fn):
    if fn is None:
        return "None"
    params = inspect.signature(fn).parameters.values()
    return "(Some %s)" % ser.clist(list(params), lambda p: "(mkParam %s %s %s)" % (
        ser.cstr(p.name), KIND_COQ[p.kind], ser.cbool(p.default is not inspect.Parameter.empty)))


def cdefault(a):
    return "(Some %s)" % ser.cpv(a.default_value) if a.has_default_value else "None"


def carg(a):
    return "(mkArg %s %s %s %s)" % (ser.cstr(a.name), ser.cstr(a.python_name), cty(a.type), cdefault(a))


def cfield(f, with_resolvers=True):
    return "(mkField %s %s %s %s %s)" % (
        ser.cstr(f.name), cty(f.type), ser.clist(list(f.arguments), carg),
        ser.copt(f.deprecation_reason, ser.cstr), csig(f.resolver) if with_resolvers else "None")


def ctypedef(t, with_resolvers=True):
    if isinstance(t, S.ObjectType):
        body = "(BObject %s %s %s)" % (
            ser.clist(list(t.interfaces), lambda i: ser.cstr(i.name)),
            ser.clist(list(t.fields), lambda f: cfield(f, with_resolvers)),
            csig(t.default_resolver) if with_resolvers else "None")
    elif isinstance(t, S.InterfaceType):
        body = "(BInterface %s)" % ser.clist(list(t.fields), lambda f: cfield(f, with_resolvers))
    elif isinstance(t, S.UnionType):
        body = "(BUnion %s)" % ser.clist(list(t.types), lambda m: ser.cstr(m.name))
    elif isinstance(t, S.EnumType):
        body = "(BEnum %s)" % ser.clist(list(t.values), lambda v: "(mkEnumV %s %s)" % (
            ser.cstr(v.name), ser.copt(v.deprecation_reason, ser.cstr)))
    elif isinstance(t, S.InputObjectType):
        body = "(BInput %s)" % ser.clist(list(t.fields), lambda f: "(mkInput %s %s %s)" % (
            ser.cstr(f.name), cty(f.type), cdefault(f)))
    elif isinstance(t, S.ScalarType):
        body = "BScalar"
    else:
        raise TypeError(repr(t))
    return "(mkType %s %s %s %s)" % (ser.cstr(t.name), ser.cbool(is_introspection_type(t)),
                                     ser.cbool(t in SPECIFIED_SCALAR_TYPES), body)


def cdirective(d):
    return "(mkDir %s %s %s %s)" % (ser.cstr(d.name), ser.cbool(d in S.SPECIFIED_DIRECTIVES),
                                    ser.clist(list(d.locations), ser.cstr), ser.clist(list(d.arguments), carg))


def _builtin_types():
    from py_gql.schema.schema import _default_type_map
    return list(_default_type_map().values())


def coq_header():
    """the constant prefix of every type map (specified scalars and
    introspection types) and the specified directives, serialised once"""
    return ("Definition builtin_types : list type_def := %s.\n"
            "Definition builtin_dirs : list directive_def := %s.\n" % (
                ser.clist(_builtin_types(), ctypedef),
                ser.clist(list(S.SPECIFIED_DIRECTIVES), cdirective)))


def cschema(sch):
    types = list(sch.types.values())
    bt = _builtin_types()
    assert len(types) >= len(bt) and all(a is b for a, b in zip(types, bt)), "type map prefix"
    dirs = list(sch.directives.values())
    bd = list(S.SPECIFIED_DIRECTIVES)
    assert all(a is b for a, b in zip(dirs, bd)), "directive map prefix"
    root = lambda t: ser.copt(t.name if t is not None else None, ser.cstr)  # noqa: E731
    return "(mkSchema (builtin_types ++ %s) (builtin_dirs ++ %s) %s %s %s %s)" % (
        ser.clist(types[len(bt):], ctypedef), ser.clist(dirs[len(bd):], cdirective),
        root(sch.query_type), root(sch.mutation_type), root(sch.subscription_type),
        csig(sch.default_resolver))


# ------------------------------------------------------------------ valid specs
def _default_for(rng, spec_types, t, depth=0):
    """a default value (python + literal text) of input type t, or None"""
    if t[0] == "NN":
        d = _default_for(rng, spec_types, t[1], depth)
        return d if d is not None and d["py"] is not None else None
    if rng.random() < 0.15:
        return {"py": None, "gql": "null"}
    if t[0] == "L":
        item = _default_for(rng, spec_types, t[1], depth + 1)
        if item is None:
            return {"py": [], "gql": "[]"}
        return {"py": [item["py"]], "gql": "[%s]" % item["gql"]}
    name = t[1]
    if name == "Int":
        v = rng.randint(2, 9)
        return {"py": v, "gql": str(v)}
    if name == "String" or name == "ID":
        v = rng.choice(["s1", "s2", "xyz"])
        return {"py": v, "gql": '"%s"' % v}
    if name == "Boolean":
        v = rng.random() < 0.5
        return {"py": v, "gql": "true" if v else "false"}
    td = next((x for x in spec_types if x["name"] == name), None)
    if td is None:
        return None
    if td["kind"] == "enum":
        v = rng.choice(td["values"])["name"]
        return {"py": v, "gql": v}
    return None


def gen_valid_spec(rng, via="code", size=None, with_resolvers=False):
    """valid-by-construction schema over all six kinds, wrappers to depth 3"""
    size = size or rng.choice([1, 2, 2, 3])
    enums, inputs, scalars, ifaces, objects, unions = [], [], [], [], [], []
    types = []
    for i in range(rng.randint(1, size)):
        td = {"kind": "enum", "name": "E%d" % i, "values": [
            {"name": "V%d" % j, "depr": rng.choice([None, None, None, "old", "gone"])}
            for j in range(rng.randint(1, 4))]}
        enums.append(td)
    if rng.random() < 0.5:
        scalars.append({"kind": "scalar", "name": "Date"})
    n_in = rng.randint(1, size)
    in_leaf = ["Int", "Float", "String", "Boolean", "ID"] + [e["name"] for e in enums] + [s_["name"] for s_ in scalars]
    for i in range(n_in):
        inputs.append({"kind": "input", "name": "In%d" % i, "fields": []})
    sofar = enums + scalars
    for i, td in enumerate(inputs):
        for j in range(rng.randint(1, 4)):
            if rng.random() < 0.25:
                # reference to an input type; self/forward references only in the code route, nullable
                cands = [x["name"] for x in (inputs if via == "code" else inputs[:i])]
                if cands:
                    base = rng.choice(cands)
                    t = rand_wrap(rng, base)
                    if via == "code" and t[0] == "NN":
                        t = t[1]
                    td["fields"].append({"name": "f%d" % j, "type": t, "default": None})
                    continue
            t = rand_wrap(rng, rng.choice(in_leaf))
            td["fields"].append({"name": "f%d" % j, "type": t,
                                 "default": _default_for(rng, sofar, t) if rng.random() < 0.4 else None})
    n_if = rng.randint(1, max(1, size - 1))
    n_obj = rng.randint(2, size + 2)
    for i in range(n_if):
        ifaces.append({"kind": "interface", "name": "I%d" % i, "fields": []})
    for i in range(n_obj):
        objects.append({"kind": "object", "name": "O%d" % i, "interfaces": [], "fields": [],
                        "default_resolver": None})
    if rng.random() < 0.8:
        unions.append({"kind": "union", "name": "U0",
                       "members": [o["name"] for o in rng.sample(objects, rng.randint(1, len(objects)))]})
    out_leaf = ["Int", "String", "Boolean", "ID", "Float"] + [e["name"] for e in enums] + [s_["name"] for s_ in scalars]
    out_comp = [x["name"] for x in ifaces + objects + unions]
    in_all = in_leaf + [x["name"] for x in inputs]
    leafdefs = enums + scalars + inputs

    def gen_args():
        args = []
        for j in range(rng.choice([0, 0, 1, 1, 2, 3])):
            t = rand_wrap(rng, rng.choice(in_all))
            args.append({"name": "a%d" % j, "type": t,
                         "default": _default_for(rng, leafdefs, t) if rng.random() < 0.4 else None})
        return args

    def gen_field(name):
        base = rng.choice(out_leaf if rng.random() < 0.6 else out_comp)
        return {"name": name, "type": rand_wrap(rng, base), "args": gen_args(),
                "depr": rng.choice([None, None, None, "old", "use other"]), "resolver": None}

    for td in ifaces:
        for j in range(rng.randint(1, 3)):
            td["fields"].append(gen_field("%s_f%d" % (td["name"].lower(), j)))
    # who implements what
    for o in objects:
        for it in ifaces:
            if rng.random() < 0.5:
                o["interfaces"].append(it["name"])
    impls = {it["name"]: [o["name"] for o in objects if it["name"] in o["interfaces"]] for it in ifaces}

    def specialise(t):
        """a subtype of t (covariance through wrappers; interface/union -> possible object)"""
        if t[0] == "NN":
            inner = specialise(t[1])
            return inner if inner[0] == "NN" else NN(inner)
        r = rng.random()
        if t[0] == "L":
            inner = L(specialise(t[1]))
            return NN(inner) if r < 0.3 else inner
        name = t[1]
        cands = [name]
        if name in impls:
            cands += impls[name]
        for u in unions:
            if u["name"] == name:
                cands += u["members"]
        inner = N(rng.choice(cands)) if r < 0.6 else N(name)
        return NN(inner) if rng.random() < 0.3 else inner

    for o in objects:
        for iname in o["interfaces"]:
            it = next(x for x in ifaces if x["name"] == iname)
            for f in it["fields"]:
                g = copy.deepcopy(f)
                g["type"] = specialise(f["type"])
                g["depr"] = rng.choice([None, f["depr"]])
                if rng.random() < 0.3:   # extra nullable argument
                    t = rand_wrap(rng, rng.choice(in_all))
                    if t[0] == "NN":
                        t = t[1]
                    g["args"].append({"name": "extra", "type": t, "default": None})
                o["fields"].append(g)
        for j in range(rng.randint(0 if o["fields"] else 1, 3)):
            o["fields"].append(gen_field("%s_f%d" % (o["name"].lower(), j)))
    query = {"kind": "object", "name": "Query", "interfaces": [], "default_resolver": None,
             "fields": [gen_field("q%d" % j) for j in range(rng.randint(1, 4))]}
    # make most things reachable from the query type
    for j, x in enumerate(ifaces + objects + unions):
        if rng.random() < 0.7:
            query["fields"].append({"name": "get%s" % x["name"], "type": rand_wrap(rng, x["name"]),
                                    "args": gen_args(), "depr": None, "resolver": None})
    types = [query] + objects + ifaces + unions + enums + inputs + scalars
    mutation = None
    if rng.random() < 0.3:
        types.append({"kind": "object", "name": "Mutation", "interfaces": [], "default_resolver": None,
                      "fields": [gen_field("m%d" % j) for j in range(rng.randint(1, 2))]})
        mutation = "Mutation"
    directives = []
    for j in range(rng.choice([0, 1, 1, 2])):
        args = []
        for k in range(rng.choice([0, 1, 2])):
            t = rand_wrap(rng, rng.choice(in_leaf))
            args.append({"name": "d%d" % k, "type": t,
                         "default": _default_for(rng, leafdefs, t) if rng.random() < 0.4 else None})
        directives.append({"name": "dir%d" % j, "locations": rng.sample(LOCATIONS, rng.randint(1, 3)), "args": args})
    rng.shuffle(types)
    return {"types": types, "directives": directives, "query": "Query", "mutation": mutation,
            "subscription": None, "default_resolver": None, "via": via}


def permute_types(rng, spec):
    sp = copy.deepcopy(spec)
    rng.shuffle(sp["types"])
    return sp


# ------------------------------------------------------------------ elementary edits (C20)
def _composites(spec):
    return [t for t in spec["types"] if t["kind"] in ("object", "interface")]


def _of_kind(spec, k):
    return [t for t in spec["types"] if t["kind"] == k]


def _other_type(rng, spec, t, positions):
    """a type different from t drawn from every wrapping (depth <= 3) of
    candidate names; biased towards changes of the wrappers only"""
    names = [tbase(t)] * 3 + positions + [n for n in BUILTIN_NAMES if n in positions]
    for _ in range(20):
        cand = rng.choice(all_wrappings(rng.choice(names), 3))
        if cand != t:
            return cand
    return None


BUILTIN_NAMES = ["Int", "Float", "String", "ID", "Boolean"]


def _out_names(spec):
    return BUILTIN_NAMES + [t["name"] for t in spec["types"] if t["kind"] not in ("input",)]


def _in_names(spec):
    return BUILTIN_NAMES + [t["name"] for t in spec["types"] if t["kind"] in ("enum", "input", "scalar")]


def _leaf_in_names(spec):
    return BUILTIN_NAMES + [t["name"] for t in spec["types"] if t["kind"] in ("enum", "scalar")]


def _leafdefs(spec):
    return [t for t in spec["types"] if t["kind"] in ("enum", "scalar", "input")]


EDIT_KINDS = [
    "add_type", "remove_type", "change_kind",
    "add_field", "remove_field", "retype_field", "deprecate_field",
    "add_arg", "remove_arg", "retype_arg", "default_arg",
    "add_input_field", "remove_input_field", "retype_input_field", "default_input_field",
    "add_enum_value", "remove_enum_value", "deprecate_enum_value",
    "add_union_member", "remove_union_member", "add_interface", "remove_interface",
    "add_directive", "remove_directive", "add_location", "remove_location",
    "add_dir_arg", "remove_dir_arg", "retype_dir_arg", "default_dir_arg",
]


def _new_default(rng, spec, t, old):
    for _ in range(10):
        d = _default_for(rng, _leafdefs(spec), t) if rng.random() < 0.8 else None
        if d != old and not (d is not None and old is not None and d["py"] == old["py"]):
            return d, True
    return None, False


def apply_edit(rng, spec, kind):
    """returns (new spec, descriptor) or None when the edit has no target;
    descriptor = {"edit": kind, "path": [...], "old": .., "new": ..}"""
    try:
        return _apply_edit(rng, spec, kind)
    except IndexError:      # nothing left to pick from after earlier edits
        return None


def _apply_edit(rng, spec, kind):
    sp = copy.deepcopy(spec)
    pick = lambda xs: rng.choice(xs) if xs else None  # noqa: E731
    if kind == "add_type":
        name = "New%d" % rng.randint(0, 9)
        if any(t["name"] == name for t in sp["types"]):
            return None
        k = rng.choice(["object", "enum", "input", "scalar", "union", "interface"])
        if k == "object":
            td = {"kind": "object", "name": name, "interfaces": [], "default_resolver": None,
                  "fields": [{"name": "x", "type": N("Int"), "args": [], "depr": None, "resolver": None}]}
        elif k == "interface":
            td = {"kind": "interface", "name": name,
                  "fields": [{"name": "x", "type": N("Int"), "args": [], "depr": None, "resolver": None}]}
        elif k == "enum":
            td = {"kind": "enum", "name": name, "values": [{"name": "A", "depr": None}]}
        elif k == "input":
            td = {"kind": "input", "name": name, "fields": [{"name": "x", "type": N("Int"), "default": None}]}
        elif k == "union":
            objs = [t["name"] for t in _of_kind(sp, "object") if t["name"] not in ("Query", "Mutation")]
            if not objs:
                return None
            td = {"kind": "union", "name": name, "members": [rng.choice(objs)]}
        else:
            td = {"kind": "scalar", "name": name}
        sp["types"].insert(rng.randint(0, len(sp["types"])), td)
        return sp, {"edit": kind, "path": [name]}
    if kind == "remove_type":
        # only types nothing refers to can go without further edits; others give combined breakage
        td = pick([t for t in sp["types"] if t["name"] not in ("Query", "Mutation")])
        if td is None:
            return None
        name = td["name"]
        sp["types"] = [t for t in sp["types"] if t["name"] != name]
        # drop references (combined edit, each of them reported separately by the differ)
        for t in sp["types"]:
            if t["kind"] == "object":
                t["interfaces"] = [i for i in t["interfaces"] if i != name]
            if t["kind"] == "union":
                t["members"] = [m for m in t["members"] if m != name]
            if t["kind"] in ("object", "interface"):
                t["fields"] = [f for f in t["fields"] if tbase(f["type"]) != name]
                for f in t["fields"]:
                    f["args"] = [a for a in f["args"] if tbase(a["type"]) != name]
            if t["kind"] == "input":
                t["fields"] = [f for f in t["fields"] if tbase(f["type"]) != name]
        for d in sp["directives"]:
            d["args"] = [a for a in d["args"] if tbase(a["type"]) != name]
        return sp, {"edit": kind, "path": [name]}
    if kind == "change_kind":
        td = pick([t for t in sp["types"] if t["kind"] in ("enum", "scalar")])
        if td is None:
            return None
        i = sp["types"].index(td)
        if td["kind"] == "enum":
            sp["types"][i] = {"kind": "scalar", "name": td["name"]}
            for t in sp["types"]:   # enum defaults stay strings: fine for a custom scalar
                pass
        else:
            sp["types"][i] = {"kind": "enum", "name": td["name"], "values": [{"name": "A", "depr": None}]}
        return sp, {"edit": kind, "path": [td["name"]]}
    if kind in ("add_field", "remove_field", "retype_field", "deprecate_field",
                "add_arg", "remove_arg", "retype_arg", "default_arg"):
        td = pick(_composites(sp))
        if td is None:
            return None
        if kind == "add_field":
            name = "added%d" % rng.randint(0, 3)
            if any(f["name"] == name for f in td["fields"]):
                return None
            td["fields"].insert(rng.randint(0, len(td["fields"])), {
                "name": name, "type": rand_wrap(rng, rng.choice(_out_names(sp))), "args": [],
                "depr": None, "resolver": None})
            return sp, {"edit": kind, "path": [td["name"], name]}
        f = pick(td["fields"])
        if f is None:
            return None
        if kind == "remove_field":
            td["fields"].remove(f)
            return sp, {"edit": kind, "path": [td["name"], f["name"]]}
        if kind == "retype_field":
            new = _other_type(rng, sp, f["type"], _out_names(sp))
            if new is None:
                return None
            old, f["type"] = f["type"], new
            return sp, {"edit": kind, "path": [td["name"], f["name"]], "old": old, "new": new}
        if kind == "deprecate_field":
            new = rng.choice([x for x in [None, "old", "newer", "use other"] if x != f["depr"]])
            old, f["depr"] = f["depr"], new
            return sp, {"edit": kind, "path": [td["name"], f["name"]], "old": old, "new": new}
        if kind == "add_arg":
            name = "newarg%d" % rng.randint(0, 3)
            if any(a["name"] == name for a in f["args"]):
                return None
            t = rand_wrap(rng, rng.choice(_in_names(sp)))
            f["args"].insert(rng.randint(0, len(f["args"])), {
                "name": name, "type": t,
                "default": _default_for(rng, _leafdefs(sp), t) if rng.random() < 0.4 else None})
            return sp, {"edit": kind, "path": [td["name"], f["name"], name]}
        a = pick(f["args"])
        if a is None:
            return None
        if kind == "remove_arg":
            f["args"].remove(a)
            return sp, {"edit": kind, "path": [td["name"], f["name"], a["name"]]}
        if kind == "retype_arg":
            new = _other_type(rng, sp, a["type"], _in_names(sp))
            if new is None:
                return None
            old, a["type"] = a["type"], new
            a["default"] = None if a["default"] is None or tbase(new) != tbase(old) else a["default"]
            return sp, {"edit": kind, "path": [td["name"], f["name"], a["name"]], "old": old, "new": new}
        if kind == "default_arg":
            d, ok = _new_default(rng, sp, a["type"], a["default"])
            if not ok:
                return None
            a["default"] = d
            return sp, {"edit": kind, "path": [td["name"], f["name"], a["name"]]}
    if kind in ("add_input_field", "remove_input_field", "retype_input_field", "default_input_field"):
        td = pick(_of_kind(sp, "input"))
        if td is None:
            return None
        if kind == "add_input_field":
            name = "addedin%d" % rng.randint(0, 3)
            if any(f["name"] == name for f in td["fields"]):
                return None
            t = rand_wrap(rng, rng.choice(["Int", "String", "Boolean"]))
            td["fields"].insert(rng.randint(0, len(td["fields"])), {
                "name": name, "type": t,
                "default": _default_for(rng, _leafdefs(sp), t) if rng.random() < 0.4 else None})
            return sp, {"edit": kind, "path": [td["name"], name]}
        f = pick(td["fields"])
        if f is None:
            return None
        if kind == "remove_input_field":
            td["fields"].remove(f)
            return sp, {"edit": kind, "path": [td["name"], f["name"]]}
        if kind == "retype_input_field":
            new = _other_type(rng, sp, f["type"], _leaf_in_names(sp))
            if new is None:
                return None
            old, f["type"] = f["type"], new
            f["default"] = None if f["default"] is None or tbase(new) != tbase(old) else f["default"]
            return sp, {"edit": kind, "path": [td["name"], f["name"]], "old": old, "new": new}
        d, ok = _new_default(rng, sp, f["type"], f["default"])
        if not ok:
            return None
        f["default"] = d
        return sp, {"edit": kind, "path": [td["name"], f["name"]]}
    if kind in ("add_enum_value", "remove_enum_value", "deprecate_enum_value"):
        td = pick(_of_kind(sp, "enum"))
        if td is None:
            return None
        if kind == "add_enum_value":
            name = "NEWV%d" % rng.randint(0, 3)
            if any(v["name"] == name for v in td["values"]):
                return None
            td["values"].insert(rng.randint(0, len(td["values"])), {"name": name, "depr": rng.choice([None, "x"])})
            return sp, {"edit": kind, "path": [td["name"], name]}
        v = pick(td["values"])
        if v is None:
            return None
        if kind == "remove_enum_value":
            td["values"].remove(v)
            return sp, {"edit": kind, "path": [td["name"], v["name"]]}
        new = rng.choice([x for x in [None, "old", "newer", ""] if x != v["depr"]])
        v["depr"] = new
        return sp, {"edit": kind, "path": [td["name"], v["name"]]}
    if kind in ("add_union_member", "remove_union_member"):
        td = pick(_of_kind(sp, "union"))
        if td is None:
            return None
        if kind == "add_union_member":
            cands = [t["name"] for t in _of_kind(sp, "object") if t["name"] not in td["members"]]
            if not cands:
                return None
            m = rng.choice(cands)
            td["members"].insert(rng.randint(0, len(td["members"])), m)
        else:
            if not td["members"]:
                return None
            m = rng.choice(td["members"])
            td["members"].remove(m)
        return sp, {"edit": kind, "path": [td["name"], m]}
    if kind in ("add_interface", "remove_interface"):
        td = pick(_of_kind(sp, "object"))
        if td is None:
            return None
        if kind == "add_interface":
            cands = [t for t in _of_kind(sp, "interface") if t["name"] not in td["interfaces"]]
            if not cands:
                return None
            it = rng.choice(cands)
            td["interfaces"].append(it["name"])
            have = {f["name"] for f in td["fields"]}
            for f in it["fields"]:      # implement it (FieldAdded changes come with the edit)
                if f["name"] not in have:
                    td["fields"].append(copy.deepcopy(f))
            i = it["name"]
        else:
            if not td["interfaces"]:
                return None
            i = rng.choice(td["interfaces"])
            td["interfaces"].remove(i)
        return sp, {"edit": kind, "path": [td["name"], i]}
    if kind == "add_directive":
        name = "newdir%d" % rng.randint(0, 3)
        if any(d["name"] == name for d in sp["directives"]):
            return None
        sp["directives"].insert(rng.randint(0, len(sp["directives"])), {
            "name": name, "locations": rng.sample(LOCATIONS, rng.randint(1, 2)), "args": []})
        return sp, {"edit": kind, "path": [name]}
    d = pick(sp["directives"])
    if d is None:
        return None
    if kind == "remove_directive":
        sp["directives"].remove(d)
        return sp, {"edit": kind, "path": [d["name"]]}
    if kind == "add_location":
        cands = [l for l in LOCATIONS if l not in d["locations"]]
        if not cands:
            return None
        l = rng.choice(cands)
        d["locations"].insert(rng.randint(0, len(d["locations"])), l)
        return sp, {"edit": kind, "path": [d["name"], l]}
    if kind == "remove_location":
        if len(d["locations"]) < 2:
            return None
        l = rng.choice(d["locations"])
        d["locations"].remove(l)
        return sp, {"edit": kind, "path": [d["name"], l]}
    if kind == "add_dir_arg":
        name = "newdarg%d" % rng.randint(0, 3)
        if any(a["name"] == name for a in d["args"]):
            return None
        t = rand_wrap(rng, rng.choice(["Int", "String", "Boolean"]))
        d["args"].append({"name": name, "type": t,
                          "default": _default_for(rng, _leafdefs(sp), t) if rng.random() < 0.4 else None})
        return sp, {"edit": kind, "path": [d["name"], name]}
    a = pick(d["args"])
    if a is None:
        return None
    if kind == "remove_dir_arg":
        d["args"].remove(a)
        return sp, {"edit": kind, "path": [d["name"], a["name"]]}
    if kind == "retype_dir_arg":
        new = _other_type(rng, sp, a["type"], _leaf_in_names(sp))
        if new is None:
            return None
        old, a["type"] = a["type"], new
        a["default"] = None if a["default"] is None or tbase(new) != tbase(old) else a["default"]
        return sp, {"edit": kind, "path": [d["name"], a["name"]], "old": old, "new": new}
    if kind == "default_dir_arg":
        dv, ok = _new_default(rng, sp, a["type"], a["default"])
        if not ok:
            return None
        a["default"] = dv
        return sp, {"edit": kind, "path": [d["name"], a["name"]]}
    raise ValueError(kind)


# ------------------------------------------------------------------ operations over a real Schema
def _literal(rng, t, depth=0):
    """GraphQL literal text of input type t (a py_gql type object)"""
    if isinstance(t, S.NonNullType):
        return _literal(rng, t.type, depth)
    if isinstance(t, S.ListType):
        r = rng.random()
        if r < 0.2:
            return "[]"
        if r < 0.4 and not isinstance(t.type, S.ListType) and not (
                isinstance(t.type, S.NonNullType) and isinstance(t.type.type, S.ListType)):
            return _literal(rng, t.type, depth)      # single value for a list
        return "[%s]" % _literal(rng, t.type, depth)
    name = t.name
    if name == "Int":
        return str(rng.randint(0, 9))
    if name == "Float":
        return "1.5"
    if name in ("String", "ID"):
        return '"s"'
    if name == "Boolean":
        return rng.choice(["true", "false"])
    if isinstance(t, S.EnumType):
        return rng.choice(list(t.values)).name
    if isinstance(t, S.InputObjectType):
        parts = []
        for f in t.fields:
            if f.required or (depth < 2 and rng.random() < 0.5):
                parts.append("%s: %s" % (f.name, _literal(rng, f.type, depth + 1)))
        return "{%s}" % ", ".join(parts)
    return '"x"'   # custom scalar


def _args_text(rng, args, vardefs):
    parts = []
    for a in args:
        if a.required or rng.random() < 0.5:
            if rng.random() < 0.25:
                v = "v%d" % len(vardefs)
                vardefs.append("$%s: %s" % (v, a.type))
                parts.append("%s: $%s" % (a.name, v))
            else:
                parts.append("%s: %s" % (a.name, _literal(rng, a.type)))
    return ("(" + ", ".join(parts) + ")") if parts else ""


def _selection(rng, sch, t, depth, vardefs, counter, field_dirs):
    out = ["__typename"] if rng.random() < 0.3 or isinstance(t, S.UnionType) else []
    if isinstance(t, (S.ObjectType, S.InterfaceType)):
        fields = list(t.fields)
        rng.shuffle(fields)
        for f in fields[:rng.randint(1, 3)]:
            inner = S.unwrap_type(f.type)
            sub = ""
            if isinstance(inner, (S.ObjectType, S.InterfaceType, S.UnionType)):
                if depth <= 0:
                    continue
                sub = " { %s }" % _selection(rng, sch, inner, depth - 1, vardefs, counter, field_dirs)
            counter[0] += 1
            d = ""
            if field_dirs and rng.random() < 0.2:
                dd = rng.choice(field_dirs)
                d = " @%s%s" % (dd.name, _args_text(rng, dd.arguments, vardefs))
            out.append("x%d: %s%s%s%s" % (counter[0], f.name, _args_text(rng, f.arguments, vardefs), d, sub))
    if isinstance(t, (S.InterfaceType, S.UnionType)) and depth > 0:
        for pt in list(sch.get_possible_types(t))[:2]:
            if rng.random() < 0.6:
                out.append("... on %s { %s }" % (
                    pt.name, _selection(rng, sch, pt, depth - 1, vardefs, counter, field_dirs)))
    if not out:
        out.append("__typename")
    return " ".join(out)


def gen_operations(rng, sch, n=3):
    """operation texts meant to be valid against sch (unique aliases, so no
    field merging is involved); the caller keeps those that validate"""
    ops = []
    field_dirs = [d for d in sch.directives.values()
                  if d not in S.SPECIFIED_DIRECTIVES and "FIELD" in d.locations]
    roots = [("query", sch.query_type)] + ([("mutation", sch.mutation_type)] if sch.mutation_type else [])
    for _ in range(n):
        kw, root = rng.choice(roots)
        vardefs, counter = [], [0]
        body = _selection(rng, sch, root, 3, vardefs, counter, field_dirs)
        ops.append("%s Op%s { %s }" % (kw, ("(" + ", ".join(vardefs) + ")") if vardefs else "", body))
    return ops


# ------------------------------------------------------------------ labelled invalidators (C13)
BAD_NAMES = ["", "1abc", "__x", "a-b", "a b", "été", "ok\n", "a$"]
# start like a name, continue with a non-ASCII letter / digit / connector that Python's
# Unicode-aware \w would take: none of them is a GraphQL name character
UNICODE_BAD_NAMES = ["caf\u00e9", "Stra\u00dfe", "na\u00efve", "size\u0663", "NGSTROM_\u00b5", "a\u00aa", "x\u00ba",
                     "n\u2160", "d\uff10", "e\u0301x", "a\uff3fb", "\u00e9", "_\u4e2d"]
BAD_NAMES = BAD_NAMES + UNICODE_BAD_NAMES
BAD_TYPE_NAMES = ["1Bad", "__Bad", "Ba-d", "Bad\n", "B\u00e4d", "Typ\u00e9", "T\u0663", "T\uff3fx"]


def spec_subtype(spec, t, u):
    """reference implementation of June-2018 3.6.1 covariance on specs"""
    if t == u:
        return True
    if t[0] == "NN" and u[0] == "NN":
        return spec_subtype(spec, t[1], u[1])
    if t[0] == "NN":
        return spec_subtype(spec, t[1], u)
    if t[0] == "L" and u[0] == "L":
        return spec_subtype(spec, t[1], u[1])
    if t[0] != "N" or u[0] != "N":
        return False
    byname = {x["name"]: x for x in spec["types"]}
    o, a = byname.get(t[1]), byname.get(u[1])
    if o is None or a is None or o["kind"] != "object":
        return False
    if a["kind"] == "union":
        return o["name"] in a["members"]
    if a["kind"] == "interface":
        return a["name"] in o["interfaces"]
    return False


def _rename_type(spec, old, new):
    def rt(t):
        return ["N", new if t[1] == old else t[1]] if t[0] == "N" else [t[0], rt(t[1])]
    for td in spec["types"]:
        if td["name"] == old:
            td["name"] = new
        if td["kind"] == "object":
            td["interfaces"] = [new if i == old else i for i in td["interfaces"]]
        if td["kind"] == "union":
            td["members"] = [new if i == old else i for i in td["members"]]
        if td["kind"] in ("object", "interface"):
            for f in td["fields"]:
                f["type"] = rt(f["type"])
                for a in f["args"]:
                    a["type"] = rt(a["type"])
        if td["kind"] == "input":
            for f in td["fields"]:
                f["type"] = rt(f["type"])
    for d in spec["directives"]:
        for a in d["args"]:
            a["type"] = rt(a["type"])
    for r in ("query", "mutation", "subscription"):
        if spec.get(r) == old:
            spec[r] = new


def _rewrap(rng, t, base):
    """same wrappers as t (or fresh ones up to depth 3) over another base"""
    if rng.random() < 0.5:
        return rand_wrap(rng, base)
    def go(x):
        return ["N", base] if x[0] == "N" else [x[0], go(x[1])]
    return go(t)


INVALIDATORS = [
    "bad_type_name", "bad_field_name", "bad_arg_name", "bad_input_field_name", "bad_enum_value_name",
    "bad_directive_name", "bad_dir_arg_name",
    "empty_object", "empty_interface", "empty_input", "empty_union", "empty_enum",
    "dup_field", "dup_arg", "dup_input_field", "dup_union_member", "dup_interface", "dup_dir_arg",
    "field_input_type", "arg_output_type", "input_field_output_type", "dir_arg_output_type",
    "union_member_not_object", "query_not_object", "mutation_not_object", "subscription_not_object",
    "no_query", "iface_field_missing", "iface_field_type", "iface_arg_missing", "iface_arg_type",
    "iface_extra_required_arg", "implements_non_interface",
]


def invalidate(rng, spec, kind, name=None):
    """returns (spec', [expected label, subject]) or None; the subject is the
    one the validator should name; [name] forces the bad name of a bad_* kind"""
    try:
        if name is not None:
            rng = _ForcedChoice(rng, name)
        return _invalidate(rng, spec, kind)
    except IndexError:      # nothing left to pick from after earlier invalidations
        return None


class _ForcedChoice:
    """an rng whose choice() from a pool of bad names returns the forced one"""

    def __init__(self, rng, name):
        self._rng, self._name = rng, name

    def choice(self, xs):
        xs = list(xs)
        if xs and all(isinstance(x, str) for x in xs) and (
                set(xs) <= set(BAD_NAMES) or set(xs) <= set(BAD_TYPE_NAMES)):
            return self._name
        return self._rng.choice(xs)

    def __getattr__(self, a):
        return getattr(self._rng, a)


def _invalidate(rng, spec, kind):
    sp = copy.deepcopy(spec)
    pick = lambda xs: rng.choice(xs) if xs else None  # noqa: E731
    comps = _composites(sp)
    objs = _of_kind(sp, "object")
    if kind == "bad_type_name":
        td = pick([t for t in sp["types"] if t["name"] not in ("Query", "Mutation")])
        if td is None:
            return None
        new = rng.choice(BAD_TYPE_NAMES)
        if any(t["name"] == new for t in sp["types"]):
            return None
        _rename_type(sp, td["name"], new)
        return sp, ["LInvalidTypeName", [new]]
    if kind in ("bad_field_name", "bad_arg_name", "dup_field", "dup_arg", "field_input_type", "arg_output_type"):
        td = pick(comps)
        if td is None or not td["fields"]:
            return None
        f = rng.choice(td["fields"])
        if kind == "bad_field_name":
            # keep interface implementations intact: only rename fields no interface asks for
            if td["kind"] == "interface" or any(
                    f["name"] in [g["name"] for g in it["fields"]]
                    for it in _of_kind(sp, "interface") if it["name"] in td.get("interfaces", [])):
                return None
            f["name"] = rng.choice(BAD_NAMES)
            return sp, ["LInvalidName", [f["name"]]]
        if kind == "dup_field":
            g = copy.deepcopy(f)
            g["type"] = rand_wrap(rng, "Int")
            td["fields"].insert(rng.randint(0, len(td["fields"])), g)
            return sp, ["LDuplicateField", [td["name"], f["name"]]]
        if kind == "field_input_type":
            ins = [t["name"] for t in _of_kind(sp, "input")]
            if not ins or td["kind"] == "interface":
                return None
            if any(f["name"] in [g["name"] for g in it["fields"]]
                   for it in _of_kind(sp, "interface") if it["name"] in td.get("interfaces", [])):
                return None
            f["type"] = _rewrap(rng, f["type"], rng.choice(ins))
            return sp, ["LFieldNotOutput", [td["name"], f["name"]]]
        if not f["args"]:
            return None
        a = rng.choice(f["args"])
        if kind == "bad_arg_name":
            a["name"] = rng.choice(BAD_NAMES)
            return sp, ["LInvalidName", [a["name"]]]
        if kind == "dup_arg":
            f["args"].append(copy.deepcopy(a))
            return sp, ["LDuplicateArg", [td["name"], f["name"], a["name"]]]
        if kind == "arg_output_type":
            outs = [t["name"] for t in sp["types"] if t["kind"] in ("object", "interface", "union")]
            a["type"] = _rewrap(rng, a["type"], rng.choice(outs))
            a["default"] = None
            return sp, ["LArgNotInput", [td["name"], f["name"], a["name"]]]
    if kind in ("bad_input_field_name", "dup_input_field", "input_field_output_type", "empty_input"):
        td = pick(_of_kind(sp, "input"))
        if td is None or not td["fields"]:
            return None
        if kind == "empty_input":
            td["fields"] = []
            return sp, ["LNoFields", [td["name"]]]
        f = rng.choice(td["fields"])
        if kind == "bad_input_field_name":
            f["name"] = rng.choice(BAD_NAMES)
            return sp, ["LInvalidName", [f["name"]]]
        if kind == "dup_input_field":
            td["fields"].append(copy.deepcopy(f))
            return sp, ["LDuplicateField", [td["name"], f["name"]]]
        outs = [t["name"] for t in sp["types"] if t["kind"] in ("object", "interface", "union")]
        f["type"] = _rewrap(rng, f["type"], rng.choice(outs))
        f["default"] = None
        return sp, ["LInputFieldNotInput", [td["name"], f["name"]]]
    if kind in ("bad_enum_value_name", "empty_enum"):
        td = pick(_of_kind(sp, "enum"))
        if td is None:
            return None
        if kind == "empty_enum":
            td["values"] = []
            return sp, ["LEnumEmpty", [td["name"]]]
        v = rng.choice(td["values"])
        v["name"] = rng.choice([b for b in BAD_NAMES if b not in [x["name"] for x in td["values"]]])
        return sp, ["LInvalidName", [v["name"]]]
    if kind in ("bad_directive_name", "bad_dir_arg_name", "dup_dir_arg", "dir_arg_output_type"):
        d = pick(sp["directives"])
        if d is None:
            return None
        if kind == "bad_directive_name":
            d["name"] = rng.choice(BAD_NAMES)
            return sp, ["LInvalidName", [d["name"]]]
        if not d["args"]:
            return None
        a = rng.choice(d["args"])
        if kind == "bad_dir_arg_name":
            a["name"] = rng.choice(BAD_NAMES)
            return sp, ["LInvalidName", [a["name"]]]
        if kind == "dup_dir_arg":
            d["args"].append(copy.deepcopy(a))
            return sp, ["LDirDuplicateArg", [d["name"], a["name"]]]
        outs = [t["name"] for t in sp["types"] if t["kind"] in ("object", "interface", "union")]
        a["type"] = _rewrap(rng, a["type"], rng.choice(outs))
        a["default"] = None
        return sp, ["LDirArgNotInput", [d["name"], a["name"]]]
    if kind in ("empty_object", "empty_interface"):
        td = pick(_of_kind(sp, "object" if kind == "empty_object" else "interface"))
        if td is None:
            return None
        td["fields"] = []
        return sp, ["LNoFields", [td["name"]]]
    if kind in ("empty_union", "dup_union_member", "union_member_not_object"):
        td = pick(_of_kind(sp, "union"))
        if td is None:
            return None
        if kind == "empty_union":
            td["members"] = []
            return sp, ["LUnionEmpty", [td["name"]]]
        if kind == "dup_union_member":
            m = rng.choice(td["members"])
            td["members"].append(m)
            return sp, ["LUnionMemberTwice", [td["name"], m]]
        others = [t["name"] for t in sp["types"] if t["kind"] not in ("object", "union")] + ["Int"]
        m = rng.choice(others)
        td["members"].insert(rng.randint(0, len(td["members"])), m)
        return sp, ["LUnionMemberNotObject", [td["name"], m]]
    if kind in ("query_not_object", "mutation_not_object", "subscription_not_object", "no_query"):
        if kind == "no_query":
            sp["query"] = None
            return sp, ["LMustProvideQuery", []]
        others = [t["name"] for t in sp["types"] if t["kind"] != "object"]
        if not others:
            return None
        m = rng.choice(others)
        role = kind.split("_")[0]
        sp[role] = m
        return sp, [{"query": "LQueryNotObject", "mutation": "LMutationNotObject",
                     "subscription": "LSubscriptionNotObject"}[role], [m]]
    if kind == "dup_interface":
        td = pick([o for o in objs if o["interfaces"]])
        if td is None:
            return None
        i = rng.choice(td["interfaces"])
        td["interfaces"].append(i)
        return sp, ["LInterfaceTwice", [td["name"], i]]
    if kind == "implements_non_interface":
        td = pick(objs)
        if td is None:
            return None
        others = [t["name"] for t in sp["types"] if t["kind"] != "interface" and t["name"] != td["name"]] + ["Int"]
        m = rng.choice(others)
        td["interfaces"].insert(rng.randint(0, len(td["interfaces"])), m)
        return sp, ["LNotInterface", [td["name"], m]]
    # interface implementation
    td = pick([o for o in objs if o["interfaces"]])
    if td is None:
        return None
    iname = rng.choice(td["interfaces"])
    it = next((x for x in sp["types"] if x["name"] == iname and x["kind"] == "interface"), None)
    if it is None or not it["fields"]:
        return None
    f = rng.choice(it["fields"])
    g = next((x for x in td["fields"] if x["name"] == f["name"]), None)
    if g is None:
        return None
    if kind == "iface_field_missing":
        td["fields"].remove(g)
        if not td["fields"]:
            td["fields"].append({"name": "keep", "type": N("Int"), "args": [], "depr": None, "resolver": None})
        return sp, ["LIfaceFieldMissing", [td["name"], iname, f["name"]]]
    if kind == "iface_field_type":
        # break covariance somewhere in the nesting: relax a NonNull, change the list depth, or
        # swap the named type for one that is not a possible type
        for _ in range(20):
            cand = rng.choice(all_wrappings(rng.choice(
                [tbase(f["type"])] * 2 + [t["name"] for t in sp["types"] if t["kind"] != "input"] + ["Int"]), 3))
            if not spec_subtype(sp, cand, f["type"]):
                g["type"] = cand
                return sp, ["LIfaceFieldType", [td["name"], iname, f["name"]]]
        return None
    if kind == "iface_extra_required_arg":
        g["args"].append({"name": "req_extra", "type": NN(N("Int")), "default": None})
        return sp, ["LIfaceExtraRequiredArg", [td["name"], iname, f["name"], "req_extra"]]
    if not f["args"]:
        return None
    a = rng.choice(f["args"])
    b = next((x for x in g["args"] if x["name"] == a["name"]), None)
    if b is None:
        return None
    if kind == "iface_arg_missing":
        g["args"].remove(b)
        return sp, ["LIfaceArgMissing", [td["name"], iname, f["name"], a["name"]]]
    if kind == "iface_arg_type":
        new = _other_type(rng, sp, a["type"], _in_names(sp))
        if new is None:
            return None
        b["type"] = new
        b["default"] = None
        return sp, ["LIfaceArgType", [td["name"], iname, f["name"], a["name"]]]
    raise ValueError(kind)


# ------------------------------------------------------------------ resolver signature grid (C13)
ARG_SETS = [
    [],
    [["a", "Int", None]],
    [["b", "Int!", None]],
    [["a", "Int", None], ["b", "Int!", None], ["c", "Int", {"py": 3, "gql": "3"}]],
    [["kwargs", "Int", None]],
    [["args", "Int!", None], ["a", "Int", None]],
    [["root", "Int!", None]],
]


def gen_sig(rng, argnames):
    """a syntactically valid parameter list drawn from the grid: 0-4(+) positionals,
    positional-only, keyword-only, defaults, *a, **k; names collide with argument
    names, with each other's roles and with the var-parameters' names on purpose"""
    pool = ["root", "ctx", "info", "x", "y"] + list(argnames) + ["a", "b"]
    for _ in range(50):
        sig, used = [], set()

        def name():
            for _ in range(20):
                n = rng.choice(pool)
                if n not in used:
                    used.add(n)
                    return n
            return None
        n_po = rng.choice([0, 0, 0, 0, 1, 2, 3, 4])
        n_pk = rng.choice([0, 1, 2, 3, 3, 3, 4, 4, 5, 6]) if n_po == 0 else rng.choice([0, 1, 2, 3])
        dflt = False
        for k, cnt in (("PO", n_po), ("PK", n_pk)):
            for _ in range(cnt):
                n = name()
                if n is None:
                    break
                dflt = dflt or rng.random() < 0.25
                sig.append([n, k, dflt])
        if rng.random() < 0.3:
            n = rng.choice(["args", "a"]) if rng.random() < 0.7 else name()
            if n and n not in [p[0] for p in sig]:
                used.add(n)
                sig.append([n, "VP", False])
        for _ in range(rng.choice([0, 0, 1, 2, 3])):
            n = name()
            if n:
                sig.append([n, "KO", rng.random() < 0.5])
        if rng.random() < 0.35:
            n = rng.choice(["kwargs", "kwargs", "b"])
            if n not in [p[0] for p in sig]:
                sig.append([n, "VK", False])
        if sig_valid_python(sig):
            return sig
    return [["root", "PK", False], ["ctx", "PK", False], ["info", "PK", False]]


def core_sig_grid():
    """systematic core: k positionals (0..4) x optional *a x optional **k x
    keyword-only a/b with/without default x positional-only prefix"""
    out = []
    names = ["root", "ctx", "info", "more"]
    for k in range(5):
        for po in range(0, min(k, 3) + 1):
            for vp in (False, True):
                for vk in (False, True):
                    for ko in ([], [["a", "KO", False]], [["a", "KO", True]], [["b", "KO", False]],
                               [["extra", "KO", False]], [["a", "KO", True], ["b", "KO", False]]):
                        sig = [[names[i], "PO" if i < po else "PK", False] for i in range(k)]
                        if vp:
                            sig.append(["args", "VP", False])
                        sig += ko
                        if vk:
                            sig.append(["kwargs", "VK", False])
                        out.append(sig)
    # arguments as positional-or-keyword parameters, in and out of the first three
    for sig in ([["root", "PK", False], ["ctx", "PK", False], ["a", "PK", False], ["info", "PK", False]],
                [["a", "PK", False], ["args", "VP", False]],
                [["root", "PK", False], ["ctx", "PK", False], ["info", "PK", False], ["b", "PK", False], ["a", "PK", True]],
                [["root", "PK", False], ["ctx", "PK", False], ["info", "PK", False], ["a", "PK", False]],
                [["args", "VP", False], ["extra", "KO", False]],
                [["root", "PK", False], ["args", "VP", False], ["k1", "KO", False], ["k2", "KO", False], ["k3", "KO", False]],
                [["root", "PO", False], ["ctx", "PO", False], ["info", "PO", False], ["a", "PO", True], ["kwargs", "VK", False]],
                [["root", "PK", False], ["ctx", "PK", False], ["info", "PK", False], ["x", "VP", False]]):
        out.append(sig)
    return [s_ for s_ in out if sig_valid_python(s_)]


def parse_type(s):
    """'[Int!]!' -> type json"""
    s = s.strip()
    if s.endswith("!"):
        return NN(parse_type(s[:-1]))
    if s.startswith("["):
        return L(parse_type(s[1:-1]))
    return N(s)


# ------------------------------------------------------------------ operations that reach one input position through a variable
def _route(sch, target):
    """selection steps from a root type to the composite type named target:
    list of ("field", Field) / ("frag", ObjectType); None when unreachable in 4 steps"""
    roots = [("query", sch.query_type)] + ([("mutation", sch.mutation_type)] if sch.mutation_type else [])
    for kw, root in roots:
        frontier, seen = [(root, [])], {root.name}
        for _ in range(5):
            nxt = []
            for t, steps in frontier:
                if t.name == target:
                    return kw, steps
                if isinstance(t, (S.ObjectType, S.InterfaceType)):
                    for f in t.fields:
                        inner = S.unwrap_type(f.type)
                        if isinstance(inner, (S.ObjectType, S.InterfaceType, S.UnionType)) and inner.name not in seen:
                            seen.add(inner.name)
                            nxt.append((inner, steps + [("field", f)]))
                if isinstance(t, (S.InterfaceType, S.UnionType)):
                    for pt in sch.get_possible_types(t):
                        if pt.name not in seen:
                            seen.add(pt.name)
                            nxt.append((pt, steps + [("frag", pt)]))
            frontier = nxt
    return None


def _required_args(rng, args, skip=None):
    return ["%s: %s" % (a.name, _literal(rng, a.type)) for a in args if a.required and a.name != skip]


def _wrap_route(rng, steps, inner):
    text = inner
    for kind, x in reversed(steps):
        if kind == "frag":
            text = "... on %s { %s }" % (x.name, text)
        else:
            args = _required_args(rng, x.arguments)
            text = "r_%s: %s%s { %s }" % (x.name, x.name, ("(" + ", ".join(args) + ")") if args else "", text)
    return text


def _value_with(t, leaf):
    """literal of (wrapped) type t whose innermost value is [leaf]"""
    if isinstance(t, S.NonNullType):
        return _value_with(t.type, leaf)
    if isinstance(t, S.ListType):
        return "[%s]" % _value_with(t.type, leaf)
    return leaf


def variable_operations(rng, sch, d):
    """for a retype edit descriptor: operations (valid against sch, the OLD
    schema) that pass a variable declared with the old type at the retyped
    input position"""
    kind, path = d.get("edit"), d.get("path")
    out = []
    if kind == "retype_arg":
        r = _route(sch, path[0])
        if r is None:
            return out
        kw, steps = r
        t = sch.types[path[0]]
        f = t.field_map[path[1]]
        a = f.argument_map[path[2]]
        args = _required_args(rng, f.arguments, skip=a.name) + ["%s: $v" % a.name]
        sub = " { __typename }" if isinstance(S.unwrap_type(f.type), (S.ObjectType, S.InterfaceType, S.UnionType)) else ""
        out.append("%s Op($v: %s) { %s }" % (kw, a.type, _wrap_route(rng, steps, "%s(%s)%s" % (f.name, ", ".join(args), sub))))
    elif kind == "retype_input_field":
        it = sch.types[path[0]]
        fld = it.field_map[path[1]]
        others = ["%s: %s" % (g.name, _literal(rng, g.type, 1)) for g in it.fields if g.required and g.name != fld.name]
        obj = "{%s}" % ", ".join(others + ["%s: $v" % fld.name])
        for t in sch.types.values():
            if not isinstance(t, (S.ObjectType, S.InterfaceType)) or t.name.startswith("__"):
                continue
            for f in t.fields:
                for a in f.arguments:
                    if S.unwrap_type(a.type) is it and len(out) < 2:
                        r = _route(sch, t.name)
                        if r is None:
                            continue
                        kw, steps = r
                        args = _required_args(rng, f.arguments, skip=a.name) + ["%s: %s" % (a.name, _value_with(a.type, obj))]
                        sub = " { __typename }" if isinstance(
                            S.unwrap_type(f.type), (S.ObjectType, S.InterfaceType, S.UnionType)) else ""
                        out.append("%s Op($v: %s) { %s }" % (
                            kw, fld.type, _wrap_route(rng, steps, "%s(%s)%s" % (f.name, ", ".join(args), sub))))
    elif kind == "retype_dir_arg":
        dd = sch.directives[path[0]]
        a = next(x for x in dd.arguments if x.name == path[1])
        args = _required_args(rng, dd.arguments, skip=a.name) + ["%s: $v" % a.name]
        use = "@%s(%s)" % (dd.name, ", ".join(args))
        if "FIELD" in dd.locations:
            out.append("query Op($v: %s) { __typename %s }" % (a.type, use))
        elif "QUERY" in dd.locations:
            out.append("query Op($v: %s) %s { __typename }" % (a.type, use))
    return out


# ------------------------------------------------------------------ schemas derived from another schema object (C20 histories)
def make_input_fields(sch, fields_spec):
    """InputField objects for an input type of [sch], types resolved in sch's own type map"""
    def ref(t):
        if t[0] == "N":
            return sch.types[t[1]]
        return (S.ListType if t[0] == "L" else S.NonNullType)(ref(t[1]))
    out = []
    for f in fields_spec:
        kw = {}
        if f.get("default") is not None:
            kw["default_value"] = copy.deepcopy(f["default"]["py"])
        out.append(S.InputField(f["name"], ref(f["type"]), **kw))
    return out


def make_fields(sch, fields_spec):
    """Field objects (with arguments) for a composite type of [sch], types resolved in sch's own type map"""
    def ref(t):
        if t[0] == "N":
            return sch.types[t[1]]
        return (S.ListType if t[0] == "L" else S.NonNullType)(ref(t[1]))
    out = []
    for f in fields_spec:
        args = []
        for a in f.get("args", []):
            kw = {}
            if a.get("default") is not None:
                kw["default_value"] = copy.deepcopy(a["default"]["py"])
            args.append(S.Argument(a["name"], ref(a["type"]), **kw))
        out.append(S.Field(f["name"], ref(f["type"]), args=args, deprecation_reason=f.get("depr")))
    return out


DERIVE_MODES = ("in_place", "clone_setter", "transform", "camel_case", "extend")


def _apply_spec_difference(target, old_spec, new_spec):
    """rewrite, through public setters / attributes of the type objects of [target], every type
    whose definition differs between the two specs (same type names and kinds)"""
    newdefs = {t["name"]: t for t in new_spec["types"]}
    assert [t["name"] for t in old_spec["types"]] == [t["name"] for t in new_spec["types"]] or \
        sorted(t["name"] for t in old_spec["types"]) == sorted(newdefs), "types added / removed"
    for ot in old_spec["types"]:
        nt = newdefs[ot["name"]]
        if nt == ot:
            continue
        assert nt["kind"] == ot["kind"]
        obj = target.types[nt["name"]]
        k = nt["kind"]
        if k == "input":
            obj.fields = make_input_fields(target, nt["fields"])
        elif k in ("object", "interface"):
            if nt["fields"] != ot["fields"]:
                obj.fields = make_fields(target, nt["fields"])
            if k == "object" and nt["interfaces"] != ot["interfaces"]:
                obj.interfaces = [target.types[i] for i in nt["interfaces"]]
        elif k == "union":
            obj.types = [target.types[m] for m in nt["members"]]
        elif k == "enum":
            assert [v["name"] for v in nt["values"]] == [v["name"] for v in ot["values"]], "enum values added / removed"
            for v, ev in zip(nt["values"], obj.values):
                ev.deprecation_reason = v.get("depr")
                ev.deprecated = v.get("depr") is not None
        else:
            raise AssertionError("cannot derive " + k)
    if old_spec.get("directives") != new_spec.get("directives"):
        raise AssertionError("directives differ")


def derive_schema(old_spec, new_spec, mode):
    """(old schema, new schema) where the new one is DERIVED from a schema object that has
    already been diffed once (every lazily computed map of its types has been read); the source
    is built as old_spec["via"] says (SDL-built types carry their definition `nodes`):
      in_place      the warmed-up object itself, its types rewritten through their public setters
                    (old = an independent build of the same spec);
      clone_setter  `clone()` of the warmed-up object, rewritten through the setters;
      transform     transform_schema(object, VisibilitySchemaTransform hiding the removed fields / input fields);
      camel_case    transform_schema(object, CamelCaseSchemaTransform())  (new_spec is ignored);
      extend        extend_schema(object, SDL extensions adding the new fields / input fields / enum values)"""
    from py_gql.schema.differ import diff_schema
    from py_gql.schema.transforms import CamelCaseSchemaTransform, VisibilitySchemaTransform, transform_schema
    from py_gql.sdl import extend_schema
    src = build(old_spec)
    ref = build(old_spec)
    list(diff_schema(src, ref))          # warm-up: reads field_map & co. of every type of both
    newdefs = {t["name"]: t for t in new_spec["types"]}
    if mode == "camel_case":
        return src, transform_schema(src, CamelCaseSchemaTransform())
    if mode == "transform":
        hidden_in, hidden_f = set(), set()
        for ot in old_spec["types"]:
            nt = newdefs[ot["name"]]
            if nt == ot:
                continue
            assert ot["kind"] in ("input", "object", "interface"), "transform can only hide fields"
            kept = [f["name"] for f in nt["fields"]]
            assert [f for f in ot["fields"] if f["name"] in kept] == nt["fields"], "transform can only hide fields"
            gone = {(ot["name"], f["name"]) for f in ot["fields"] if f["name"] not in kept}
            if ot["kind"] == "input":
                hidden_in |= gone
            else:
                assert nt.get("interfaces") == ot.get("interfaces")
                hidden_f |= gone

        class Hide(VisibilitySchemaTransform):
            def is_input_field_visible(self, typename, fieldname):
                return (typename, fieldname) not in hidden_in

            def is_field_visible(self, typename, fieldname):
                return (typename, fieldname) not in hidden_f

        return src, transform_schema(src, Hide())
    if mode == "extend":
        ext = []
        for ot in old_spec["types"]:
            nt = newdefs[ot["name"]]
            if nt == ot:
                continue
            k = ot["kind"]
            if k in ("object", "interface", "input"):
                assert nt["fields"][:len(ot["fields"])] == ot["fields"] and nt.get("interfaces") == ot.get("interfaces")
                added = nt["fields"][len(ot["fields"]):]
                assert added
                if k == "input":
                    body = "\n".join("  %s: %s%s" % (f["name"], tstr(f["type"]),
                                                     (" = " + f["default"]["gql"]) if f.get("default") is not None else "")
                                     for f in added)
                else:
                    body = "\n".join("  %s%s: %s%s" % (f["name"], _sdl_args(f.get("args", [])), tstr(f["type"]),
                                                       _sdl_depr(f.get("depr"))) for f in added)
                ext.append("extend %s %s {\n%s\n}" % ({"object": "type", "interface": "interface", "input": "input"}[k],
                                                     ot["name"], body))
            elif k == "enum":
                assert nt["values"][:len(ot["values"])] == ot["values"]
                ext.append("extend enum %s {\n%s\n}" % (ot["name"], "\n".join(
                    "  %s%s" % (v["name"], _sdl_depr(v.get("depr"))) for v in nt["values"][len(ot["values"]):])))
            else:
                raise AssertionError("cannot extend " + k)
        return src, extend_schema(src, "\n".join(ext))
    target = src if mode == "in_place" else src.clone()
    _apply_spec_difference(target, old_spec, new_spec)
    return (ref if mode == "in_place" else src), target


# ------------------------------------------------------------------ several violations stacked on ONE member (C13)
FIELD_STACK = ["type", "argname", "argtype", "resolver", "dup"]


def stack_on_member(rng, spec, target, parts, bad_name=None):
    """put the violations [parts] (always including an ill-formed name) on one member of kind
    [target] in field / input_field / arg / dir_arg / enum_value; returns (spec', injected labels) or None"""
    sp = copy.deepcopy(spec)
    bad = bad_name or rng.choice(["bad-name", "__f", "1x", "a b", "café"])
    outs = [t["name"] for t in sp["types"] if t["kind"] in ("object", "interface", "union")]
    ins = [t["name"] for t in sp["types"] if t["kind"] == "input"]
    inj = []
    if target == "field":
        required = {g["name"] for it in _of_kind(sp, "interface") for g in it["fields"]}
        cands = [(td, f) for td in _composites(sp) for f in td["fields"]
                 if td["kind"] == "object" and f["name"] not in required]
        if not cands or ("type" in parts and not ins):
            return None
        td, f = rng.choice(cands)
        f["name"] = bad
        inj.append(["LInvalidName", [bad]])
        tn = td["name"]
        if "type" in parts:
            f["type"] = rand_wrap(rng, rng.choice(ins))
            inj.append(["LFieldNotOutput", [tn, bad]])
        if "argname" in parts:
            an = rng.choice(["arg-x", "__a"])
            f["args"].append({"name": an, "type": N("Int"), "default": None})
            inj.append(["LInvalidName", [an]])
        if "argtype" in parts:
            f["args"].append({"name": "objarg", "type": rand_wrap(rng, rng.choice(outs)), "default": None})
            inj.append(["LArgNotInput", [tn, bad, "objarg"]])
        if "resolver" in parts:
            f["resolver"] = [["root", "PK", False]]
            inj.append(["LResPositional", [tn, bad]])
        if "dup" in parts:
            g = copy.deepcopy(f)
            g["type"], g["args"], g["resolver"] = N("Int"), [], None
            td["fields"].insert(td["fields"].index(f) + 1, g)
            inj.append(["LDuplicateField", [tn, bad]])
            inj.append(["LInvalidName", [bad]])
        return sp, inj
    if target == "input_field":
        cands = [(td, f) for td in _of_kind(sp, "input") for f in td["fields"]]
        if not cands or ("type" in parts and not outs):
            return None
        td, f = rng.choice(cands)
        f["name"], f["default"] = bad, None
        inj.append(["LInvalidName", [bad]])
        if "type" in parts:
            f["type"] = rand_wrap(rng, rng.choice(outs))
            inj.append(["LInputFieldNotInput", [td["name"], bad]])
        if "dup" in parts:
            td["fields"].append({"name": bad, "type": N("Int"), "default": None})
            inj.append(["LDuplicateField", [td["name"], bad]])
            inj.append(["LInvalidName", [bad]])
        return sp, inj
    if target in ("arg", "dir_arg"):
        if target == "arg":
            cands = [(td["name"], f["name"], f["args"]) for td in _composites(sp) for f in td["fields"] if f["args"]]
        else:
            cands = [(d["name"], None, d["args"]) for d in sp["directives"] if d["args"]]
        if not cands or ("type" in parts and not outs):
            return None
        tn, fn, args = rng.choice(cands)
        a = rng.choice(args)
        a["name"], a["default"] = bad, None
        inj.append(["LInvalidName", [bad]])
        path = [tn, fn, bad] if target == "arg" else [tn, bad]
        if "type" in parts:
            a["type"] = rand_wrap(rng, rng.choice(outs))
            inj.append(["LArgNotInput" if target == "arg" else "LDirArgNotInput", path])
        if "dup" in parts:
            args.append({"name": bad, "type": N("Int"), "default": None})
            inj.append(["LDuplicateArg" if target == "arg" else "LDirDuplicateArg", path])
            inj.append(["LInvalidName", [bad]])
        return sp, inj
    if target == "enum_value":
        td = rng.choice(_of_kind(sp, "enum"))
        names = rng.sample(["bad-name", "__v", "1v", "v v"], min(len(td["values"]), 1 + len(parts)))
        for v, nm in zip(td["values"], names):
            v["name"] = nm
            inj.append(["LInvalidName", [nm]])
        return sp, inj
    raise ValueError(target)


# ------------------------------------------------------------------ objects implementing several interfaces (C20)
def gen_multi_iface_spec(rng, via="code", n_ifaces=None):
    """Query + 2-4 interfaces with one field each + objects implementing all / most of them"""
    k = n_ifaces or rng.randint(2, 4)
    fld = lambda n, t="Int": {"name": n, "type": N(t), "args": [], "depr": None, "resolver": None}  # noqa: E731
    ifaces = [{"kind": "interface", "name": "If%d" % i, "fields": [fld("if%d_f" % i)]} for i in range(k)]
    objs = []
    for j in range(rng.randint(1, 2)):
        impl = list(range(k)) if j == 0 else sorted(rng.sample(range(k), rng.randint(1, k)))
        rng.shuffle(impl)
        objs.append({"kind": "object", "name": "Ob%d" % j, "interfaces": ["If%d" % i for i in impl],
                     "default_resolver": None,
                     # every interface's field is there, implemented or not (so that adding is one edit)
                     "fields": [fld("if%d_f" % i) for i in range(k)] + [fld("own%d" % j, "String")]})
    q = {"kind": "object", "name": "Query", "interfaces": [], "default_resolver": None,
         "fields": [fld("ob%d" % j, o["name"]) for j, o in enumerate(objs)] + [fld("any", "If0")]}
    types = [q] + objs + ifaces
    rng.shuffle(types)
    return {"types": types, "directives": [], "query": "Query", "mutation": None, "subscription": None,
            "default_resolver": None, "via": via}


def interface_list_edits(spec):
    """every reordering-free elementary variation of the `implements` lists: (kind, spec', descriptor)
    for: a permutation (reversed and rotated: no change expected), removing the interface at every
    position, adding a missing interface at every position"""
    out = []
    allif = [t["name"] for t in spec["types"] if t["kind"] == "interface"]
    for idx, td in enumerate(spec["types"]):
        if td["kind"] != "object" or not td["interfaces"]:
            continue
        cur = td["interfaces"]

        def variant(new_list):
            sp = copy.deepcopy(spec)
            sp["types"][idx]["interfaces"] = list(new_list)
            return sp
        if len(cur) >= 2:
            out.append(("permute", variant(list(reversed(cur))), None))
            out.append(("permute", variant(cur[1:] + cur[:1]), None))
        for pos in range(len(cur)):
            out.append(("remove", variant(cur[:pos] + cur[pos + 1:]),
                        {"edit": "remove_interface", "path": [td["name"], cur[pos]]}))
        for missing in [i for i in allif if i not in cur]:
            for pos in range(len(cur) + 1):
                out.append(("add", variant(cur[:pos] + [missing] + cur[pos:]),
                            {"edit": "add_interface", "path": [td["name"], missing]}))
    return out
