# -*- coding: utf-8 -*-
"""Grammar-directed GraphQL source text generator (C01/C02, reusable for C03).

Valid stream: token lists derived from the June-2018 grammar (executable and
type-system dialects, the two documented extensions), rendered with random
insignificant trivia.  Malformed stream: token-level and character-level
mutants, truncations, enumerations.  All randomness comes from the rng given.
"""
import itertools

# token classes: w = name/number, s = string, p = punctuator, e = "..."
W, S, P, E = "w", "s", "p", "e"

NAMES = ["a", "b", "c", "foo", "Bar", "_", "_x1", "x_9", "A9_z", "__typename", "e1", "E", "id",
         "on", "query", "mutation", "subscription", "fragment", "true", "false", "null",
         "type", "schema", "extend", "implements", "input", "enum", "union", "interface",
         "scalar", "directive", "Int", "String", "QUERY", "FIELD"]
RESERVED_VALUES = ("true", "false", "null")

# every word the parser compares a Name against, and their non-empty proper substrings: a name that is
# merely PART of a keyword (or contains one) is an ordinary name at every name position
KEYWORDS = ["on", "true", "false", "null", "query", "mutation", "subscription", "fragment", "schema", "scalar",
            "type", "interface", "union", "enum", "input", "extend", "directive", "implements", "repeatable"]


def keyword_substrings(maxlen=None):
    seen, out = set(), []
    for w in KEYWORDS:
        for i in range(len(w)):
            for j in range(i + 1, len(w) + 1):
                sub = w[i:j]
                if sub == w or sub in seen or (maxlen and len(sub) > maxlen):
                    continue
                seen.add(sub)
                out.append(sub)
    return out


KEYWORD_PARTS_SHORT = keyword_substrings(2)
KEYWORD_PARTS_LONG = [x for x in keyword_substrings() if len(x) > 2]
# prefixes / suffixes one character short of the keyword, and keywords with one more character
KEYWORD_NEAR = sorted({w[:-1] for w in KEYWORDS if len(w) > 2} | {w[1:] for w in KEYWORDS if len(w) > 2}
                      | {w + "x" for w in KEYWORDS} | {"x" + w for w in KEYWORDS} | {w.upper() for w in KEYWORDS}
                      | {w.capitalize() for w in KEYWORDS})
NAME_PARTS = [x for x in KEYWORD_PARTS_SHORT + KEYWORD_NEAR if x not in NAMES]

# every position of the grammar that takes a Name (or a word compared with a keyword next to one)
NAME_POSITIONS_EXEC = [
    ("fragment-name", "fragment %s on T { a }"), ("spread", "{ ...%s }"), ("spread-2", "{ a ...%s @d b }"),
    ("field", "{ %s }"), ("alias", "{ %s: a }"), ("aliased-field", "{ a: %s }"), ("argument", "{ a(%s: 1) }"),
    ("operation-name", "query %s { a }"), ("variable-def", "query ($%s: Int) { a }"), ("variable", "{ a(x: $%s) }"),
    ("directive", "{ a @%s }"), ("directive-argument", "{ a @d(%s: 1) }"), ("inline-type-condition", "{ ... on %s { a } }"),
    ("fragment-type-condition", "fragment F on %s { a }"), ("variable-type", "query ($v: [%s!]) { a }"),
    ("enum-value", "{ a(x: %s) }"), ("object-field", "{ a(x: {%s: 1}) }"), ("nested-field", "{ a { %s } }"),
    ("mutation-name", "mutation %s { a }"),
]
NAME_POSITIONS_FV = [("fragment-name-vars", "fragment %s($v: Int) on T { a }"), ("fragment-var", "fragment F($%s: Int) on T { a }")]
NAME_POSITIONS_SDL = [
    ("type-name", "type %s { a: Int }"), ("field-def", "type T { %s: Int }"), ("argument-def", "type T { a(%s: Int): Int }"),
    ("field-type", "type T { a: %s }"), ("implements", "type T implements %s { a: Int }"), ("enum-value-def", "enum E { %s }"),
    ("enum-name", "enum %s { A }"), ("union-member", "union U = %s"), ("union-name", "union %s = A"),
    ("input-field", "input I { %s: Int }"), ("input-name", "input %s { a: Int }"), ("scalar-name", "scalar %s"),
    ("directive-def", "directive @%s on FIELD"), ("schema-op-type", "schema { query: %s }"),
    ("extend-type", "extend type %s @d"), ("interface-name", "interface %s { a: Int }"),
    ("default-enum", "input I { a: E = %s }"), ("sdl-directive", "scalar S @%s"),
]


def name_position_cases(quick, rng):
    """(flags, text, label): every name position x every short part of a keyword (and, in thorough
    or sampled in quick, the longer parts and near-keywords)"""
    f0, fv, ts = (False, False, False), (False, False, True), (False, True, False)
    names = list(KEYWORD_PARTS_SHORT)
    longer = KEYWORD_PARTS_LONG + KEYWORD_NEAR
    names += rng.sample(longer, 25) if quick else longer
    # quick: fragment names and spreads take every name, the other positions every one-letter part and a sample
    everywhere = set(names) if not quick else ({n for n in names if len(n) == 1} | set(rng.sample(names, 12)))
    out = []
    for n in names:
        for label, tpl in NAME_POSITIONS_EXEC[:3]:
            out.append((f0, tpl % n, label))
        for label, tpl in NAME_POSITIONS_EXEC[:2] + NAME_POSITIONS_FV[:1]:
            out.append((fv, tpl % n, label))
        if n not in everywhere:
            continue
        for label, tpl in NAME_POSITIONS_EXEC[3:]:
            out.append((f0, tpl % n, label))
        for label, tpl in NAME_POSITIONS_FV[1:]:
            out.append((fv, tpl % n, label))
        for label, tpl in NAME_POSITIONS_SDL:
            out.append((ts, tpl % n, label))
        if not quick:
            for label, tpl in NAME_POSITIONS_EXEC[:3]:
                for fl in FLAG_TRIPLES:
                    out.append((fl, tpl % n, label))
    return out
NUMBERS_INT = ["0", "-0", "1", "7", "42", "-9", "1234567890123456789012", "10", "-100"]
NUMBERS_FLOAT = ["0.0", "-0.0", "1.5", "3.14159", "1e5", "1E5", "1e+5", "1e-5", "1e05", "1E+05",
                 "1.0e00", "-1.25e-007", "0e0", "0.000", "12.50E+3", "9e99"]
DIRECTIVE_LOCATIONS = ["QUERY", "MUTATION", "SUBSCRIPTION", "FIELD", "FRAGMENT_DEFINITION",
                       "FRAGMENT_SPREAD", "INLINE_FRAGMENT", "VARIABLE_DEFINITION", "SCHEMA",
                       "SCALAR", "OBJECT", "FIELD_DEFINITION", "ARGUMENT_DEFINITION", "INTERFACE",
                       "UNION", "ENUM", "ENUM_VALUE", "INPUT_OBJECT", "INPUT_FIELD_DEFINITION"]
ODD_CHARS = ["\u0085", " ", " ", " ", "é", "٣", "²", "中",
             "\U0001f600", "\U00010348", "﻿", " ", "　", "\x7f", "​"]
ESCAPES = ['\\"', "\\\\", "\\/", "\\b", "\\f", "\\n", "\\r", "\\t"]
HEXL, HEXU = "0123456789abcdef", "0123456789ABCDEF"


# ------------------------------------------------------------------ strings
def gen_quoted(rng):
    """source text of a valid quoted string hitting every lexer branch"""
    n = rng.choice([0, 0, 1, 2, 3, 5, 8])
    out = []
    for _ in range(n):
        k = rng.randrange(9)
        if k == 0:
            out.append(rng.choice(ESCAPES))
        elif k == 1:
            hx = rng.choice([HEXL, HEXU, HEXL + HEXU])
            out.append("\\u" + "".join(rng.choice(hx) for _ in range(4)))
        elif k == 2:
            out.append(rng.choice(["\\u0000", "\\uD83D\\uDE00", "\\ud800", "\\uFFFF", "\\u000a", "\\u0022"]))
        elif k == 3:
            out.append(rng.choice(ODD_CHARS))
        elif k == 4:
            out.append(rng.choice([" ", "  ", "\t", "#", ",", "{", "}", "'", "...", "$", "@"]))
        else:
            out.append(rng.choice(["a", "Z", "on", "implements", "0", "9", "x y", "_", "e"]))
    return '"' + "".join(out) + '"'


def gen_block(rng):
    """source text of a valid block string: every indentation / blank-line pattern"""
    nl = lambda: rng.choice(["\n", "\n", "\r", "\r\n"])
    ind = lambda: rng.choice(["", "", " ", "  ", "    ", "\t", " \t", "\t ", "   "])
    nlines = rng.choice([0, 1, 1, 2, 3, 4, 6])
    parts = []
    for i in range(nlines):
        k = rng.randrange(10)
        if k == 0:
            line = ""                                   # empty line
        elif k == 1:
            line = ind() + rng.choice([" ", "\t", ""])  # whitespace-only line
        elif k == 2:
            line = ind() + rng.choice(ODD_CHARS) + rng.choice(["", " x", "  "])
        elif k == 3:
            line = ind() + rng.choice(['\\"""', 'a \\""" b', '"', '""', '" "" "', "\\", "\\n", "\\u0041",
                                        "\\\\", '"a"', "x\\"])
        elif k == 4:
            line = rng.choice(ODD_CHARS) + ind() + "t"
        else:
            line = ind() + rng.choice(["text", "on", "a b", "#c", "x  ", "{}", "eé"])
        parts.append(line)
        if i + 1 < nlines:
            parts.append(nl())
    body = "".join(parts)
    if rng.random() < 0.3:
        body = nl() + body
    if rng.random() < 0.3:
        body = body + nl() + ind()
    # the body may not end in a quote (would merge with the closing delimiter)
    # nor end in a backslash (would escape it)
    if body.endswith('"') or body.endswith("\\"):
        body += " "
    return '"""' + body + '"""'


def gen_string(rng):
    return gen_block(rng) if rng.random() < 0.35 else gen_quoted(rng)


# ------------------------------------------------------------------ grammar
class Grammar:
    """Token lists for every production. `fv`: fragment variables enabled."""

    def __init__(self, rng, fv=False, budget=4):
        self.rng, self.fv, self.budget = rng, fv, budget
        self.hist = {}

    def _h(self, k):
        self.hist[k] = self.hist.get(k, 0) + 1

    def name(self, exclude=()):
        while True:
            n = self.rng.choice(NAME_PARTS if self.rng.random() < 0.25 else NAMES)
            if n not in exclude:
                return (W, n)

    def some(self, f, lo, hi):
        out = []
        for _ in range(self.rng.randint(lo, hi)):
            out += f()
        return out

    # -- values and types
    def value(self, const, d):
        r = self.rng
        k = r.randrange(12 if d > 0 else 9)
        if k == 0:
            self._h("Int"); return [(W, r.choice(NUMBERS_INT))]
        if k == 1:
            self._h("Float"); return [(W, r.choice(NUMBERS_FLOAT))]
        if k == 2:
            self._h("String"); return [(S, gen_quoted(r))]
        if k == 3:
            self._h("BlockString"); return [(S, gen_block(r))]
        if k == 4:
            self._h("Boolean"); return [(W, r.choice(["true", "false"]))]
        if k == 5:
            self._h("Null"); return [(W, "null")]
        if k in (6, 7):
            self._h("Enum"); return [self.name(RESERVED_VALUES)]
        if k == 8:
            if const:
                self._h("Int"); return [(W, r.choice(NUMBERS_INT))]
            self._h("Variable"); return [(P, "$"), self.name()]
        if k in (9, 10):
            self._h("List")
            return [(P, "[")] + self.some(lambda: self.value(const, d - 1), 0, 3) + [(P, "]")]
        self._h("Object")
        return [(P, "{")] + self.some(
            lambda: [self.name(), (P, ":")] + self.value(const, d - 1), 0, 3) + [(P, "}")]

    def type_(self, d=3):
        r = self.rng
        if d > 0 and r.random() < 0.35:
            t = [(P, "[")] + self.type_(d - 1) + [(P, "]")]
        else:
            t = [self.name()]
        if r.random() < 0.35:
            t = t + [(P, "!")]
        return t

    def arguments(self, const, d):
        if self.rng.random() < 0.6:
            return []
        self._h("Arguments")
        return [(P, "(")] + self.some(
            lambda: [self.name(), (P, ":")] + self.value(const, d), 1, 3) + [(P, ")")]

    def directives(self, const, d=1):
        return self.some(lambda: [(P, "@"), self.name()] + self.arguments(const, d), 0, 2) \
            if self.rng.random() < 0.4 else []

    # -- executable definitions
    def selection_set(self, d):
        return [(P, "{")] + self.some(lambda: self.selection(d), 1, 4) + [(P, "}")]

    def selection(self, d):
        r = self.rng
        k = r.randrange(10)
        if k < 6 or d <= 0:
            self._h("Field")
            t = []
            if r.random() < 0.25:
                t += [self.name(), (P, ":")]
            t += [self.name()] + self.arguments(False, 2) + self.directives(False)
            if d > 0 and r.random() < 0.4:
                t += self.selection_set(d - 1)
            return t
        if k < 8:
            self._h("FragmentSpread")
            return [(E, "..."), self.name(("on",))] + self.directives(False)
        self._h("InlineFragment")
        t = [(E, "...")]
        if r.random() < 0.6:
            t += [(W, "on"), self.name()]
        return t + self.directives(False) + self.selection_set(d - 1)

    def variable_definitions(self):
        if self.rng.random() < 0.5:
            return []
        self._h("VariableDefinitions")

        def one():
            t = [(P, "$"), self.name(), (P, ":")] + self.type_()
            if self.rng.random() < 0.4:
                t += [(P, "=")] + self.value(True, 2)
            return t + self.directives(True)
        return [(P, "(")] + self.some(one, 1, 3) + [(P, ")")]

    def operation(self):
        r = self.rng
        if r.random() < 0.25:
            self._h("ShorthandQuery")
            return self.selection_set(self.budget)
        self._h("Operation")
        t = [(W, r.choice(["query", "mutation", "subscription"]))]
        if r.random() < 0.6:
            t.append(self.name())
        return t + self.variable_definitions() + self.directives(False) + self.selection_set(self.budget)

    def fragment(self, with_vars=None):
        self._h("FragmentDefinition")
        t = [(W, "fragment"), self.name(("on",))]
        if with_vars if with_vars is not None else self.fv:
            t += self.variable_definitions()
        return t + [(W, "on"), self.name()] + self.directives(False) + self.selection_set(self.budget - 1)

    # -- type system
    def description(self):
        return [(S, gen_string(self.rng))] if self.rng.random() < 0.3 else []

    def input_value(self):
        t = self.description() + [self.name(), (P, ":")] + self.type_()
        if self.rng.random() < 0.35:
            t += [(P, "=")] + self.value(True, 2)
        return t + self.directives(True)

    def args_def(self):
        if self.rng.random() < 0.6:
            return []
        return [(P, "(")] + self.some(self.input_value, 1, 3) + [(P, ")")]

    def field_def(self):
        return self.description() + [self.name()] + self.args_def() + [(P, ":")] + self.type_() \
            + self.directives(True)

    def fields_def(self, force=False):
        if not force and self.rng.random() < 0.3:
            return []
        return [(P, "{")] + self.some(self.field_def, 1, 3) + [(P, "}")]

    def implements(self, force=False):
        if not force and self.rng.random() < 0.5:
            return []
        t = [(W, "implements")]
        if self.rng.random() < 0.3:
            t.append((P, "&"))
        t.append(self.name())
        for _ in range(self.rng.randint(0, 2)):
            t += [(P, "&"), self.name()]
        return t

    def op_types(self):
        return [(P, "{")] + self.some(
            lambda: [(W, self.rng.choice(["query", "mutation", "subscription"])), (P, ":"), self.name()],
            1, 3) + [(P, "}")]

    def union_members(self, force=False):
        if not force and self.rng.random() < 0.3:
            return []
        t = [(P, "=")]
        if self.rng.random() < 0.3:
            t.append((P, "|"))
        t.append(self.name())
        for _ in range(self.rng.randint(0, 2)):
            t += [(P, "|"), self.name()]
        return t

    def enum_values(self, force=False):
        if not force and self.rng.random() < 0.3:
            return []
        return [(P, "{")] + self.some(
            lambda: self.description() + [self.name(RESERVED_VALUES)] + self.directives(True), 1, 4) + [(P, "}")]

    def input_fields(self, force=False):
        if not force and self.rng.random() < 0.3:
            return []
        return [(P, "{")] + self.some(self.input_value, 1, 3) + [(P, "}")]

    def type_system_definition(self):
        r = self.rng
        k = r.choice(["schema", "scalar", "type", "interface", "union", "enum", "input", "directive"])
        self._h("def:" + k)
        if k == "schema":
            return [(W, "schema")] + self.directives(True) + self.op_types()
        d = self.description()
        if k == "scalar":
            return d + [(W, "scalar"), self.name()] + self.directives(True)
        if k == "type":
            return d + [(W, "type"), self.name()] + self.implements() + self.directives(True) + self.fields_def()
        if k == "interface":
            return d + [(W, "interface"), self.name()] + self.directives(True) + self.fields_def()
        if k == "union":
            return d + [(W, "union"), self.name()] + self.directives(True) + self.union_members()
        if k == "enum":
            return d + [(W, "enum"), self.name()] + self.directives(True) + self.enum_values()
        if k == "input":
            return d + [(W, "input"), self.name()] + self.directives(True) + self.input_fields()
        t = d + [(W, "directive"), (P, "@"), self.name()] + self.args_def() + [(W, "on")]
        if r.random() < 0.3:
            t.append((P, "|"))
        t.append((W, r.choice(DIRECTIVE_LOCATIONS)))
        for _ in range(r.randint(0, 2)):
            t += [(P, "|"), (W, r.choice(DIRECTIVE_LOCATIONS))]
        return t

    def nonempty_dirs(self):
        return self.some(lambda: [(P, "@"), self.name()] + self.arguments(True, 1), 1, 2)

    def type_system_extension(self):
        r = self.rng
        k = r.choice(["schema", "scalar", "type", "interface", "union", "enum", "input"])
        self._h("ext:" + k)
        t = [(W, "extend"), (W, k)]
        if k == "schema":
            v = r.randrange(3)
            return t + (self.nonempty_dirs() if v != 1 else []) + (self.op_types() if v != 0 else [])
        t.append(self.name())
        if k == "scalar":
            return t + self.nonempty_dirs()
        v = r.randrange(3)
        dirs = self.nonempty_dirs() if v != 1 else []
        if k == "type":
            w = r.randrange(4)
            if w == 0:
                return t + self.implements(True)
            return t + self.implements() + dirs + (self.fields_def(True) if v != 0 else [])
        body = {"interface": self.fields_def, "union": self.union_members,
                "enum": self.enum_values, "input": self.input_fields}[k]
        return t + dirs + (body(True) if v != 0 else [])

    def document(self, dialect):
        """dialect: 'exec', 'sdl', 'mixed'"""
        defs = []
        for _ in range(self.rng.randint(1, 4)):
            if dialect == "exec" or (dialect == "mixed" and self.rng.random() < 0.5):
                defs.append(self.operation() if self.rng.random() < 0.6 else self.fragment())
            else:
                defs.append(self.type_system_definition() if self.rng.random() < 0.65
                            else self.type_system_extension())
        return defs


# ------------------------------------------------------------------ rendering
def need_sep(a, b):
    if a[0] == W and b[0] == W:
        return True
    if a[0] == W and b[0] == E:
        return True           # "1..." would read as "1." + ".."
    if a[0] == S and b[0] == S:
        return True           # '""' + '"x"' would start a block string
    if a[0] == W and a[1] == "-":
        return True
    return False


def gen_comment(rng):
    body = "".join(rng.choice(["c", " ", "\t", '"', '"""', "{", "#", "\\", "é", " ",
                               "\U0001f600", "1", ",", "﻿"]) for _ in range(rng.randint(0, 6)))
    return "#" + body + rng.choice(["\n", "\r", "\r\n"])


def gen_trivia(rng, level):
    """level 0: minimal; 1: plain spaces; 2: everything"""
    if level == 0:
        return ""
    if level == 1:
        return " "
    k = rng.randrange(14)
    if k < 5:
        return " "
    if k == 5:
        return ""
    if k == 6:
        return rng.choice(["\n", "\r", "\r\n", "\n\n", "\n  "])
    if k == 7:
        return rng.choice(["\t", "  ", " \t "])
    if k == 8:
        return rng.choice([",", ", ", " , ", ",,"])
    if k == 9:
        return gen_comment(rng)
    if k == 10:
        return rng.choice(["﻿", " ﻿", "﻿\n"])
    if k == 11:
        return " " + gen_comment(rng) + "  "
    return ""


def render(tokens, rng, level=2, edges=True):
    out = []
    if edges and level == 2 and rng.random() < 0.3:
        out.append(rng.choice(["﻿", " ", "\n", gen_comment(rng), "﻿﻿", ","]))
    for i, t in enumerate(tokens):
        if i:
            tr = gen_trivia(rng, level)
            if need_sep(tokens[i - 1], t) and not any(c in tr for c in " \t\n\r,﻿"):
                tr += " "
            out.append(tr)
        out.append(t[1])
    if edges and level == 2 and rng.random() < 0.3:
        out.append(rng.choice([" ", "\n", "#end", "#  ", ",", "﻿", "\r\n", "#"]))
    return "".join(out)


def flatten(defs):
    return [t for d in defs for t in d]


# ------------------------------------------------------------------ mutants
SWAP_TABLE = {"on": '"on"', "implements": '"implements"', "query": '"query"', "extend": '"extend"',
              "fragment": '"fragment"', "type": '"type"', "schema": '"""schema"""', "true": '"true"'}
INSERTABLE = [(P, "{"), (P, "}"), (P, "("), (P, ")"), (P, "["), (P, "]"), (P, ":"), (P, "!"), (P, "$"),
              (P, "@"), (P, "="), (P, "|"), (P, "&"), (E, "..."), (W, "on"), (W, "a"), (W, "1"),
              (W, "1.5"), (S, '"s"'), (S, '"on"'), (W, "true"), (W, "extend"), (W, "implements")]


def mutate_tokens(tokens, rng):
    """one token-level mutation; returns (tokens, label)"""
    t = list(tokens)
    if not t:
        return [rng.choice(INSERTABLE)], "insert"
    k = rng.randrange(7)
    i = rng.randrange(len(t))
    if k == 0:
        del t[i]
        return t, "delete"
    if k == 1:
        t.insert(i, t[i])
        return t, "duplicate"
    if k == 2 and len(t) > 1:
        j = min(i + 1, len(t) - 1)
        t[i], t[j] = t[j], t[i]
        return t, "swap"
    if k == 3:
        idx = [j for j, x in enumerate(t) if x[1] in SWAP_TABLE]
        if idx:
            j = rng.choice(idx)
            t[j] = (S, SWAP_TABLE[t[j][1]])
            return t, "keyword-to-string"
    if k == 4:
        idx = [j for j, x in enumerate(t) if x[0] == S]
        if idx:
            j = rng.choice(idx)
            t[j] = (W, rng.choice(["on", "implements", "a"]))
            return t, "string-to-name"
    if k == 5 and rng.random() < 0.4:
        idx = [j for j, x in enumerate(t) if x[0] == W and x[1] in NAMES]
        if idx:
            j = rng.choice(idx)
            t[j] = (W, rng.choice(["on", "true", "null", "fragment", "implements", "extend"]))
            return t, "name-to-keyword"
    if k == 5:
        t[i] = rng.choice(INSERTABLE)
        return t, "replace"
    if k == 6 and rng.random() < 0.4:
        # empty a bracket pair: "( ... )" -> "( )"
        opens = [j for j, x in enumerate(t) if x[1] in ("(", "{", "[")]
        if opens:
            j = rng.choice(opens)
            close = {"(": ")", "{": "}", "[": "]"}[t[j][1]]
            depth = 0
            for m in range(j, len(t)):
                if t[m][1] == t[j][1]:
                    depth += 1
                elif t[m][1] == close:
                    depth -= 1
                    if depth == 0:
                        return t[:j + 1] + t[m:], "empty-pair"
    if k == 6 and rng.random() < 0.5:
        idx = [j for j, x in enumerate(t) if x[0] == W and j > 0 and t[j - 1][1] in (":", "=", "[")]
        if idx:
            t.insert(rng.choice(idx), (P, "$"))
            return t, "dollar-before-name"
    t.insert(i, rng.choice(INSERTABLE))
    return t, "insert"


DIGIT_SUBST = {"0": "٠", "1": "١", "2": "²", "3": "٣", "4": "٤", "5": "５",
               "9": "٩", "7": "௧"}
LETTER_SUBST = {"a": "á", "e": "é", "o": "ο", "n": "ñ", "A": "Α", "E": "Е",
                "u": "ü", "x": "х", "_": "＿"}
CONTROL = ["\x00", "\x01", "\x07", "\x08", "\x0b", "\x0c", "\x1b", "\x1f", "\x7f", "\x85"]


def mutate_text(text, rng):
    """one character-level mutation; returns (text, label)"""
    if not text:
        return rng.choice(CONTROL), "control"
    k = rng.randrange(7)
    i = rng.randrange(len(text))
    if k == 0:
        return text[:i], "truncate"
    if k == 1:
        idx = [j for j, c in enumerate(text) if c in DIGIT_SUBST]
        if idx:
            j = rng.choice(idx)
            return text[:j] + DIGIT_SUBST[text[j]] + text[j + 1:], "unicode-digit"
    if k == 2:
        idx = [j for j, c in enumerate(text) if c in LETTER_SUBST]
        if idx:
            j = rng.choice(idx)
            return text[:j] + LETTER_SUBST[text[j]] + text[j + 1:], "unicode-letter"
    if k == 3:
        return text[:i] + rng.choice(CONTROL) + text[i:], "control"
    if k == 4:
        return text[:i] + text[i + 1:], "delete-char"
    if k == 5:
        return text[:i] + rng.choice(['"', "\\", ".", "-", "e", "0", "#", "'", "?", "\\u", '"""', "~", "%",
                                      "\n", "\r", "!", "$", "&"]) + text[i:], "insert-char"
    return text[:i] + rng.choice(ODD_CHARS) + text[i:], "odd-char"


# ------------------------------------------------------------------ enumerations
NUMBER_ALPHABET = "-019.eE+a_ "


def number_shapes(maxlen):
    for n in range(1, maxlen + 1):
        for tup in itertools.product(NUMBER_ALPHABET, repeat=n):
            yield "".join(tup)


UESC_ALPHABET = ["0", "9", "a", "F", "g", "x", "٠", " ", '"']


def unicode_escape_shapes():
    for n in range(0, 5):
        for tup in itertools.product(UESC_ALPHABET, repeat=n):
            yield '"\\u' + "".join(tup) + '"'
            if n < 4:
                yield '"\\u' + "".join(tup)


TOKEN_ALPHABET = ["{", "}", "(", ")", ":", "a", "...", "on", "$", "@", "1", '"s"', "[", "]"]


def token_sequences(maxlen):
    for n in range(0, maxlen + 1):
        for tup in itertools.product(TOKEN_ALPHABET, repeat=n):
            yield " ".join(tup)


FLAG_TRIPLES = [(a, b, c) for a in (False, True) for b in (False, True) for c in (False, True)]


LINE_BREAKS = ["\n", "\r", "\r\n", "\u2028", "\u2029", "\x85", "\x0b", "\x0c", "\x1c", "\x1e"]


def string_with_break(rng):
    """a quoted string with a raw line break / separator character somewhere inside"""
    s = gen_quoted(rng)
    i = rng.randrange(1, len(s))
    return s[:i] + rng.choice(LINE_BREAKS) + s[i:]


# ---------------------------------------------------------------- productions, deterministically
# One maximal token sequence per production (every optional part present once).  production_forms()
# enumerates, without sampling: every prefix (truncation after each token, including keyword-only),
# every one-token deletion, and the body-less shapes (name only, name + directives, name + empty
# braces, name + directives + empty braces) of every definition and extension kind; each alone,
# followed by another definition, and between two other definitions.
PRODUCTIONS = {
    "schema": "schema @ d { query : Q mutation : M }",
    "scalar": "scalar S @ d",
    "type": "type T implements & I & J @ d { f ( x : Int = 1 @ d y : [ Int ! ] ) : Int @ d g : T }",
    "interface": "interface I @ d { f : Int }",
    "union": "union U @ d = | A | B",
    "enum": "enum E @ d { A @ d B }",
    "input": "input N @ d { x : Int = 1 @ d y : Int }",
    "directive": "directive @ d ( x : Int = 1 ) on FIELD | QUERY",
    "described": '"desc" type T { "desc" f ( "desc" x : Int ) : Int }',
    "described-enum": '"""desc""" enum E { "desc" A }',
    "extend-schema": "extend schema @ d { query : Q }",
    "extend-scalar": "extend scalar S @ d",
    "extend-type": "extend type T implements I & J @ d { f : Int }",
    "extend-interface": "extend interface I @ d { f : Int }",
    "extend-union": "extend union U @ d = | A | B",
    "extend-enum": "extend enum E @ d { A }",
    "extend-input": "extend input N @ d { x : Int }",
    "operation": "query Q ( $ v : [ Int ! ] = 1 @ d $ w : T ) @ d ( x : 1 ) { a : b ( x : $ v y : { k : [ 1 ] } ) "
                 "@ d { c } ... on T @ d { e } ... F @ d ... @ d { g } ... { h } }",
    "mutation": "mutation { a }",
    "subscription": "subscription S { a }",
    "shorthand": "{ a }",
    "fragment": "fragment F on T @ d { a }",
    "fragment-vars": "fragment F ( $ v : Int = 1 ) on T { a ( x : $ v ) }",
}
BODYLESS_KINDS = [("schema", None), ("scalar", "S"), ("type", "T"), ("interface", "I"), ("union", "U"),
                  ("enum", "E"), ("input", "N"), ("directive", "@ d")]


def production_forms():
    seen = set()
    forms = []

    def add(toks, label):
        text = " ".join(toks)
        if text not in seen:
            seen.add(text)
            forms.append((text, label))

    for kind, full in PRODUCTIONS.items():
        toks = full.split(" ")
        for i in range(len(toks) + 1):
            add(toks[:i], "prefix:" + kind)
        for i in range(len(toks)):
            add(toks[:i] + toks[i + 1:], "drop:" + kind)
    for ext in ((), ("extend",)):
        add(list(ext), "bodyless:keyword-only")
        for kw, name in BODYLESS_KINDS:
            head = list(ext) + [kw] + (name.split(" ") if name else [])
            label = "bodyless:" + ("extend-" if ext else "") + kw
            add(list(ext) + [kw], label)
            add(head, label)
            add(head + ["@", "d"], label)
            add(head + ["@", "d", "@", "e", "(", "x", ":", "1", ")"], label)
            add(head + ["{", "}"], label)
            add(head + ["@", "d", "{", "}"], label)
            add(head + ["="], label)
            for v in RESERVED_VALUES:
                add(head + ["{", v, "}"], label)
                add(head + ["{", "A", v, "}"], label)
            add(head + ["implements"], label)
            add(head + ["implements", "I"], label)
            add(head + ["implements", "I", "@", "d"], label)
            add(head + ["implements", "I", "{", "}"], label)
    out = []
    for text, label in forms:
        out.append((text, label))
        out.append(((text + " scalar Z").strip(), label + "+next"))
        out.append(("scalar A " + text + " type Z { z : Int }", label + "+between"))
        out.append(("{ a } " + text + " { z }", label + "+between-exec"))
    return out
