# -*- coding: utf-8 -*-
"""Shared machinery of the checks: Coq build / proof re-check / case
evaluation, known findings, verdicts, evidence."""
import atexit
import concurrent.futures
import fcntl
import hashlib
import json
import os
import re
import shutil
import subprocess
import sys
import time

VERIF = os.path.dirname(os.path.dirname(os.path.abspath(__file__)))
COQ = os.path.join(VERIF, "coq")
REPO = os.environ.get("PYGQL_REPO", "/repo")
SCRATCH = os.path.join(VERIF, ".scratch", str(os.getpid()))
EVID = os.path.join(VERIF, "evidence")
REPLAYS = os.path.join(EVID, "replays")

COQ_FLAGS = ["-Q", COQ, "PyGql", "-w", "-notation-overridden,-deprecated-hint-without-locality,-deprecated-instance-without-locality"]

TRUSTED_BASE_COMMON = [
    "Coq 8.16.1 kernel as run by coqc (full .vo build, no -vos), incl. the vm_compute reduction machine; no native_compute",
    "hand-written Gallina model of the anchored py-gql code (parts listed in DESIGN.md section 7 for this property)",
    "behavioural correspondence harness: generators, Python->Coq serialiser harness/ser.py, canonicalisers (a bug there can hide a disagreement, not make a theorem true)",
    "CPython 3.12 / dict ordering / json module on the implementation side",
]


def scratch_dir():
    os.makedirs(SCRATCH, exist_ok=True)
    return SCRATCH


@atexit.register
def _cleanup():
    shutil.rmtree(SCRATCH, ignore_errors=True)


# ----------------------------------------------------------------- Coq side
def ensure_built(targets=None):
    """.vo build of /verif/coq under a lock (no-op when current). With
    [targets] (paths of .vo files relative to coq/) only those and their
    dependencies are built; without, everything (setup_cmd)."""
    lock = open(os.path.join(COQ, ".build.lock"), "w")
    fcntl.flock(lock, fcntl.LOCK_EX)
    try:
        vfiles = []
        for root, _d, files in os.walk(COQ):
            for f in files:
                if f.endswith(".v"):
                    vfiles.append(os.path.relpath(os.path.join(root, f), COQ))
        proj = ("-Q . PyGql\n-arg -w -arg -notation-overridden,-deprecated-hint-without-locality,"
                "-deprecated-instance-without-locality\n" + "\n".join(sorted(vfiles)) + "\n")
        pp = os.path.join(COQ, "_CoqProject")
        if not os.path.exists(pp) or open(pp).read() != proj:
            with open(pp, "w") as f:
                f.write(proj)
        if not os.path.exists(os.path.join(COQ, "Makefile.coq")) or (
            os.path.getmtime(os.path.join(COQ, "_CoqProject"))
            > os.path.getmtime(os.path.join(COQ, "Makefile.coq"))
        ):
            subprocess.run(
                ["coq_makefile", "-f", "_CoqProject", "-o", "Makefile.coq"],
                cwd=COQ, check=True, stdout=subprocess.DEVNULL, stderr=subprocess.DEVNULL,
            )
        r = subprocess.run(
            ["timeout", "3000", "make", "-f", "Makefile.coq", "-j16"] + list(targets or []),
            cwd=COQ, stdout=subprocess.PIPE, stderr=subprocess.STDOUT, text=True,
        )
        if r.returncode != 0:
            return False, r.stdout[-4000:]
        return True, ""
    finally:
        fcntl.flock(lock, fcntl.LOCK_UN)
        lock.close()


def coqc(path, timeout=600):
    r = subprocess.run(
        ["timeout", str(timeout), "coqc"] + COQ_FLAGS + [path],
        stdout=subprocess.PIPE, stderr=subprocess.PIPE, text=True,
    )
    return r.returncode, r.stdout, r.stderr


FORBIDDEN = re.compile(
    r"\b(Admitted|admit|Axiom|Axioms|Parameter|Parameters|Conjecture|Conjectures|Admit Obligations|bypass_check)\b"
    r"|Unset\s+Guard|Unset\s+Positivity|Unset\s+Universe|type-in-type|impredicative-set"
)


def strip_coq_comments(text):
    out, depth, i = [], 0, 0
    while i < len(text):
        if text.startswith("(*", i):
            depth += 1
            i += 2
        elif text.startswith("*)", i) and depth:
            depth -= 1
            i += 2
        else:
            if not depth:
                out.append(text[i])
            i += 1
    return "".join(out)


def hygiene():
    """No Admitted/admit/Axiom/... anywhere in the development; no
    Variable/Hypothesis outside a section (checked coarsely: they must be
    inside Section ... End)."""
    problems = []
    for root, _dirs, files in os.walk(COQ):
        for f in files:
            if not f.endswith(".v"):
                continue
            p = os.path.join(root, f)
            text = strip_coq_comments(open(p, encoding="utf-8").read())
            for m in FORBIDDEN.finditer(text):
                problems.append("%s: forbidden %r" % (os.path.relpath(p, COQ), m.group(0)))
            depth = 0
            for line in text.splitlines():
                st = line.strip()
                if re.match(r"Section\s+\w+", st):
                    depth += 1
                elif re.match(r"End\s+\w+\s*\.", st) and depth:
                    depth -= 1
                elif re.match(r"(Variable|Variables|Hypothesis|Hypotheses|Context)\b", st) and depth == 0:
                    problems.append("%s: %s outside a section" % (os.path.relpath(p, COQ), st[:40]))
    return problems


def check_theorems(prop_id, theorem_names, axiom_whitelist=()):
    """Re-compile Properties/<id>.v; every listed theorem must be stated there,
    closed (file compiles), and its Print Assumptions must be closed or within
    the whitelist. Returns (discharged_names, problems, assumptions)."""
    path = os.path.join(COQ, "Properties", prop_id + ".v")
    problems, discharged, assumptions = [], [], {}
    if not os.path.exists(path):
        return [], ["Properties/%s.v missing" % prop_id], {}
    text = strip_coq_comments(open(path, encoding="utf-8").read())
    dpath = os.path.join(COQ, "Properties", prop_id + ".sha256")
    committed = open(dpath).read().split()[0] if os.path.exists(dpath) else None
    h = hashlib.sha256(open(path, "rb").read()).hexdigest()
    if committed != h:
        problems.append("Properties/%s.v does not match committed statement digest" % prop_id)
    rc, out, err = coqc(path)
    if rc != 0:
        problems.append("coqc Properties/%s.v failed: %s" % (prop_id, (err or out)[-1500:]))
        return [], problems, {}
    printed = re.findall(r"Print\s+Assumptions\s+([\w.']+)\s*\.", text)
    blocks = re.split(r"(?m)^(?=Closed under the global context|Axioms:)", out)
    blocks = [b for b in blocks if b.startswith("Closed under") or b.startswith("Axioms:")]
    if len(blocks) != len(printed):
        problems.append("Print Assumptions output count mismatch (%d vs %d)" % (len(blocks), len(printed)))
        return [], problems, {}
    for name, blk in zip(printed, blocks):
        if blk.startswith("Closed under"):
            assumptions[name] = []
        else:
            ax = re.findall(r"(?m)^([\w.']+)\s*:", blk[len("Axioms:"):])
            assumptions[name] = ax
    for t in theorem_names:
        if not re.search(r"\b(Theorem|Lemma|Corollary|Example)\s+%s\b" % re.escape(t), text):
            problems.append("theorem %s not stated in Properties/%s.v" % (t, prop_id))
            continue
        if t not in assumptions:
            problems.append("theorem %s has no Print Assumptions" % t)
            continue
        bad = [a for a in assumptions[t] if a not in axiom_whitelist]
        if bad:
            problems.append("theorem %s depends on non-whitelisted axioms %s" % (t, bad))
            continue
        discharged.append(t)
    return discharged, problems, assumptions


def _parse_nlist(out):
    """Parse the `= [a; b; ...] : list N` answers of Eval commands: returns a
    list of lists of ints, one per answer."""
    res = []
    for m in re.finditer(r"=\s*(\[[^\]]*\]|nil)(?:%\w+)?\s*:\s*list N", out.replace("\n", " ")):
        body = m.group(1)
        res.append([int(x) for x in re.findall(r"\d+", body)] if body != "nil" else [])
    return res


def run_cases(prop_id, run_module, agree_fn, case_terms, shard=250, jobs=16, extra_header="", case_type=None):
    """Evaluate [agree_fn] (a Coq function case -> bool from [run_module]) on
    the serialised cases; returns (bad_indices, problems)."""
    d = scratch_dir()
    shards = [case_terms[i:i + shard] for i in range(0, len(case_terms), shard)]
    files = []
    for k, sh in enumerate(shards):
        name = "Cases_%s_%d" % (prop_id, k)
        p = os.path.join(d, name + ".v")
        with open(p, "w", encoding="utf-8") as f:
            f.write("From PyGql Require Import Run.Driver %s.\n" % run_module)
            f.write(extra_header)
            f.write("Local Open Scope N_scope.\n")
            f.write("Definition cases%s := [\n" % ((" : list (%s)" % case_type) if case_type else ""))
            f.write(";\n".join(sh))
            f.write("\n].\n")
            f.write("Eval vm_compute in bad_indices %s cases.\n" % agree_fn)
            f.write("Eval vm_compute in [N.of_nat (List.length cases)].\n")
        files.append(p)
    bad, problems = [], []

    def one(args):
        k, p = args
        return k, coqc(p, timeout=1500)

    with concurrent.futures.ThreadPoolExecutor(max_workers=jobs) as ex:
        for k, (rc, out, err) in ex.map(one, list(enumerate(files))):
            if rc != 0:
                problems.append("model evaluation failed on shard %d: %s" % (k, (err or out)[-1500:]))
                continue
            lists = _parse_nlist(out)
            if len(lists) != 2 or lists[1] != [len(shards[k])]:
                problems.append("unparseable model output on shard %d: %s" % (k, out[-800:]))
                continue
            bad.extend(k * shard + i for i in lists[0])
    return sorted(bad), problems


def coq_show(run_module, expr, extra_header=""):
    """Evaluate an arbitrary expression for diagnostics; returns Coq's text."""
    d = scratch_dir()
    p = os.path.join(d, "Show_%d.v" % int(time.time() * 1e6))
    with open(p, "w", encoding="utf-8") as f:
        f.write("From PyGql Require Import Run.Driver %s.\n" % run_module)
        f.write(extra_header)
        f.write("Local Open Scope N_scope.\n")
        f.write("Eval vm_compute in (%s).\n" % expr)
    rc, out, err = coqc(p, timeout=600)
    return (out if rc == 0 else "coqc failed: " + err)[-6000:]


# ----------------------------------------------------------------- findings
def load_known():
    out = []
    p = os.path.join(VERIF, "known_findings.json")
    if os.path.exists(p):
        out.extend(json.load(open(p))["findings"])
    d = os.path.join(VERIF, "known_findings.d")
    if os.path.isdir(d):
        for f in sorted(os.listdir(d)):
            if f.endswith(".json"):
                out.extend(json.load(open(os.path.join(d, f)))["findings"])
    return out


class Verdict:
    def __init__(self, prop_id, tier, seed):
        self.prop_id, self.tier, self.seed = prop_id, tier, seed
        self.t0 = time.time()
        self.violations = []     # (replay_path, no_input_found)
        self.known_lines = []
        self.notes = []
        self.known = [k for k in load_known() if k["property"] == prop_id]
        self._n = 0
        if os.path.isdir(REPLAYS):
            for f in os.listdir(REPLAYS):
                if f.startswith(prop_id + "-"):
                    os.remove(os.path.join(REPLAYS, f))

    def open_keys(self):
        return {k["id"]: k for k in self.known if k["status"] == "open"}

    def report(self, clause, payload, finding_key=None, no_input=False):
        """A failing input (or a broken obligation). Known open finding ->
        KNOWN-FINDING line; else a VIOLATION with a replay file."""
        ok = self.open_keys()
        if finding_key is not None and finding_key in ok:
            line = "KNOWN-FINDING: property=%s %s" % (self.prop_id, ok[finding_key]["what"])
            if line not in self.known_lines:
                self.known_lines.append(line)
            return
        os.makedirs(REPLAYS, exist_ok=True)
        self._n += 1
        path = os.path.join(REPLAYS, "%s-%d.json" % (self.prop_id, self._n))
        body = {"property": self.prop_id, "clause": clause, "seed": self.seed,
                "tier": self.tier, "replay_cmd": "./check %s --replay %s" % (self.prop_id, path)}
        body.update(payload)
        with open(path, "w") as f:
            json.dump(body, f, indent=1, default=str)
        self.violations.append((path, no_input))

    def finish(self, level, coverage, assumptions):
        # one line per listed open finding: the ones this run met first, then the ones whose witness is not
        # part of this tier's inputs (they are listed, so they are announced; they suppress nothing)
        for k in self.known:
            if k["status"] == "open" and k.get("property", self.prop_id) == self.prop_id:
                line = "KNOWN-FINDING: property=%s %s" % (self.prop_id, k["what"])
                if line not in self.known_lines:
                    self.known_lines.append(line + " [listed; not exercised by this run's inputs]")
        for l in self.known_lines:
            print(l)
        shown = set()
        for path, no_input in self.violations[:20]:
            print("VIOLATION property=%s replay=%s%s" % (
                self.prop_id, path, " no-failing-input-found" if no_input else ""))
        ev = {
            "property_id": self.prop_id,
            "tier": self.tier,
            "seed": self.seed,
            "level": level,
            "coverage": coverage,
            "assumptions": assumptions,
            "wall_s": round(time.time() - self.t0, 2),
            "violations": len(self.violations),
            "known_findings_reported": self.known_lines,
            "notes": self.notes,
        }
        os.makedirs(EVID, exist_ok=True)
        with open(os.path.join(EVID, self.prop_id + ".json"), "w") as f:
            json.dump(ev, f, indent=1, default=str)
        return 1 if self.violations else 0


def impl_python_env():
    env = dict(os.environ)
    env["PYTHONPATH"] = os.path.join(REPO, "src")
    env["PYTHONHASHSEED"] = "0"
    return env
