# -*- coding: utf-8 -*-
"""Implementation drivers of C11 / C12, run inside a guarded worker process.

Unbounded recursion in the SDL builder (DESIGN section 6 row 26) must never
run inside the checking process: every build goes through [Worker], a child
interpreter with a low recursion limit and a per-request timeout that is
respawned when it dies."""
import json
import os
import select
import subprocess
import sys
import time

HERE = os.path.dirname(os.path.dirname(os.path.abspath(__file__)))


# ------------------------------------------------------------------ parent side
class Worker:
    def __init__(self):
        self.p = None

    def _spawn(self):
        env = dict(os.environ)
        repo = os.environ.get("PYGQL_REPO", "/repo")
        env["PYTHONPATH"] = os.path.join(repo, "src") + os.pathsep + HERE
        env["PYTHONHASHSEED"] = "0"
        env["PYTHONDONTWRITEBYTECODE"] = "1"
        self.p = subprocess.Popen(
            [sys.executable, "-m", "harness.sdl_impl"], cwd=HERE, env=env,
            stdin=subprocess.PIPE, stdout=subprocess.PIPE, stderr=subprocess.DEVNULL)

    def call(self, req, timeout=60):
        for attempt in (0, 1):
            if self.p is None or self.p.poll() is not None:
                self._spawn()
            try:
                self.p.stdin.write((json.dumps(req) + "\n").encode("utf-8"))
                self.p.stdin.flush()
            except (BrokenPipeError, OSError):
                self.kill()
                continue
            buf = b""
            deadline = time.time() + timeout
            fd = self.p.stdout.fileno()
            while not buf.endswith(b"\n"):
                left = deadline - time.time()
                if left <= 0:
                    self.kill()
                    return {"exc": "timeout"}
                r, _, _ = select.select([fd], [], [], left)
                if not r:
                    continue
                chunk = os.read(fd, 1 << 20)
                if not chunk:
                    rc = self.p.poll()
                    self.kill()
                    return {"exc": "died", "rc": rc}
                buf += chunk
            return json.loads(buf.decode("utf-8"))
        return {"exc": "died", "rc": None}

    def kill(self):
        if self.p is not None:
            try:
                self.p.kill()
                self.p.wait(timeout=5)
            except Exception:
                pass
        self.p = None


_WORKER = Worker()


def call(req, timeout=60):
    return _WORKER.call(req, timeout)


# ------------------------------------------------------------------ child side
def _resolver(root, ctx, info, **kwargs):
    return None


def build_additional(recipe):
    """code-built types handed to build_schema(additional_types=...)"""
    from py_gql import schema as S
    from py_gql.schema.scalars import default_scalar

    built = {}
    spec = {t.name: t for t in S.SPECIFIED_SCALAR_TYPES}

    def ref(t):
        if isinstance(t, str):
            return spec[t] if t in spec else built[t]
        if "nn" in t:
            return S.NonNullType(ref(t["nn"]))
        return S.ListType(ref(t["list"]))

    for r in recipe:
        k, n = r["kind"], r["name"]
        if k == "scalar":
            built[n] = default_scalar(n, description=r.get("desc"))
        elif k == "enum":
            built[n] = S.EnumType(n, [S.EnumValue(v[0], unjpv(v[1]), deprecation_reason=v[2] if len(v) > 2 else None)
                                      for v in r["values"]], description=r.get("desc"))
    for r in recipe:
        k, n = r["kind"], r["name"]
        if k == "input":
            def fields(r=r):
                out = []
                for f in r["fields"]:
                    kw = {}
                    if f.get("default") is not None:
                        kw["default_value"] = unjpv(f["default"])
                    out.append(S.InputField(f["name"], ref(f["type"]), python_name=f.get("py"),
                                            description=f.get("desc"), **kw))
                return out
            built[n] = S.InputObjectType(n, fields, description=r.get("desc"))
    for r in recipe:
        k, n = r["kind"], r["name"]
        if k == "interface":
            built[n] = S.InterfaceType(n, [S.Field(f["name"], ref(f["type"])) for f in r["fields"]],
                                       resolve_type=_resolver, description=r.get("desc"))
    for r in recipe:
        k, n = r["kind"], r["name"]
        if k == "object":
            def ofields(r=r):
                out = []
                for f in r["fields"]:
                    args = []
                    for a in f.get("args", []):
                        kw = {}
                        if a.get("default") is not None:
                            kw["default_value"] = unjpv(a["default"])
                        args.append(S.Argument(a["name"], ref(a["type"]), python_name=a.get("py"), **kw))
                    out.append(S.Field(f["name"], ref(f["type"]), args=args, python_name=f.get("py"),
                                       description=f.get("desc"), deprecation_reason=f.get("dep"),
                                       resolver=_resolver if f.get("resolver") else None,
                                       subscription_resolver=_resolver if f.get("subscription") else None))
                return out
            built[n] = S.ObjectType(n, ofields, interfaces=[built[i] for i in r.get("ifaces", [])] or None,
                                    default_resolver=_resolver if r.get("default_resolver") else None,
                                    description=r.get("desc"))
    for r in recipe:
        k, n = r["kind"], r["name"]
        if k == "union":
            built[n] = S.UnionType(n, [built[m] for m in r["members"]], resolve_type=_resolver,
                                   description=r.get("desc"))
    return [built[r["name"]] for r in recipe]


def unjpv(j):
    t = j["t"]
    if t == "none":
        return None
    if t == "bool":
        return j["v"]
    if t == "int":
        return int(j["v"])
    if t == "float":
        return float(j["v"])
    if t == "str":
        return j["v"]
    if t == "list":
        return [unjpv(x) for x in j["v"]]
    if t == "dict":
        return {k: unjpv(v) for k, v in j["v"]}
    raise TypeError(t)


def exc_obs(e):
    from py_gql import exc as X
    if isinstance(e, RecursionError):
        return {"exc": "recursion"}
    if isinstance(e, X.ExtensionError):
        k = 2
    elif isinstance(e, X.SDLError):
        k = 1
    elif isinstance(e, X.SchemaError):
        k = 3
    elif isinstance(e, X.InvalidValue):
        k = 4
    elif isinstance(e, X.CoercionError):
        k = 5
    elif isinstance(e, X.GraphQLError):
        return {"exc": "graphql-other", "type": type(e).__name__, "msg": str(e)[:200]}
    else:
        return {"exc": "other", "type": type(e).__name__, "msg": str(e)[:200]}
    return {"exc": "rejected", "kind": k, "type": type(e).__name__, "msg": str(e)[:200]}


def _resolver_facts(types):
    """presence of resolvers / type resolvers per type and field"""
    from py_gql import schema as S
    out = {}
    for t in types:
        if isinstance(t, S.ObjectType):
            out[t.name + ".<default>"] = t.default_resolver is not None
            for f in t.fields:
                out["%s.%s" % (t.name, f.name)] = [f.resolver is not None, f.subscription_resolver is not None]
        elif isinstance(t, (S.InterfaceType, S.UnionType)):
            out[t.name + ".<resolve_type>"] = t.resolve_type is not None
    return out


def do_c11(case):
    from py_gql import build_schema
    from py_gql.lang import parse
    from . import ser_sdl

    try:
        doc = parse(case["sdl"], allow_type_system=True)
    except Exception as e:  # noqa
        return {"harness_error": "generated document does not parse: %r" % (e,)}
    additional = build_additional(case.get("additional") or [])
    add_dump = [ser_sdl.jtype(t) for t in additional]
    before = _resolver_facts(additional)
    try:
        schema = build_schema(doc, ignore_extensions=bool(case.get("ignore_extensions")),
                              additional_types=additional or None)
        dump = ser_sdl.dump_schema(schema)
    except BaseException as e:  # noqa
        if isinstance(e, (KeyboardInterrupt, SystemExit)):
            raise
        o = exc_obs(e)
        o["additional"] = add_dump
        return o
    after = _resolver_facts(schema.types.values())
    lost = sorted(k for k, v in before.items() if k in after and after[k] != v)
    return {"schema": dump, "additional": add_dump, "lost_resolvers": lost}


def do_c11_history(case):
    """several build_schema / extend_schema calls that share the caller's
    additional_types objects"""
    from py_gql import build_schema
    from py_gql.lang import parse
    from py_gql.sdl import extend_schema
    from . import ser_sdl

    additional = build_additional(case.get("additional") or [])
    pristine = [ser_sdl.jtype(t) for t in additional]
    facts = _resolver_facts(additional)
    steps, mutated = [], []
    for n, st in enumerate(case["steps"]):
        try:
            doc = parse(st["sdl"], allow_type_system=True)
            base_doc = parse(st["base"], allow_type_system=True) if st["op"] == "extend" else None
        except Exception as e:  # noqa
            return {"harness_error": "generated document does not parse: %r" % (e,)}
        try:
            if st["op"] == "extend":
                base = build_schema(base_doc, ignore_extensions=True, additional_types=additional or None)
                schema = extend_schema(base, doc, additional_types=additional or None)
            else:
                schema = build_schema(doc, ignore_extensions=bool(st.get("ignore_extensions")),
                                      additional_types=additional or None)
            o = {"schema": ser_sdl.dump_schema(schema)}
            after = _resolver_facts(schema.types.values())
            o["lost_resolvers"] = sorted(k for k, v in facts.items() if k in after and after[k] != v)
        except BaseException as e:  # noqa
            if isinstance(e, (KeyboardInterrupt, SystemExit)):
                raise
            o = exc_obs(e)
        steps.append(o)
        try:
            now = [ser_sdl.jtype(t) for t in additional]
        except BaseException as e:  # noqa
            now = "<%s>" % type(e).__name__
        if now != pristine or _resolver_facts(additional) != facts:
            mutated.append(n)
    return {"additional": pristine, "steps": steps, "mutated": mutated}


def main():
    sys.setrecursionlimit(1500)
    out = sys.stdout.buffer
    for line in sys.stdin.buffer:
        req = json.loads(line.decode("utf-8"))
        try:
            if req["op"] == "c11":
                res = do_c11_history(req["case"]) if "steps" in req["case"] else do_c11(req["case"])
            elif req["op"] == "c12":
                from . import sdl_impl12
                res = sdl_impl12.do_c12(req["case"])
            else:
                res = {"harness_error": "unknown op"}
        except RecursionError:
            res = {"exc": "recursion"}
        except Exception as e:  # noqa
            import traceback
            res = {"harness_error": traceback.format_exc()[-1500:]}
        out.write((json.dumps(res) + "\n").encode("utf-8"))
        out.flush()


if __name__ == "__main__":
    main()
