# -*- coding: utf-8 -*-
"""Canonical dump of a py_gql Schema (JSON-able) and its serialisation to the
Coq type `schema` of Schema/SdlSchema.v (C11 / C12 observables)."""
from py_gql.lang import ast as A
from py_gql.schema import (
    SPECIFIED_DIRECTIVES,
    SPECIFIED_SCALAR_TYPES,
    EnumType,
    InputObjectType,
    InterfaceType,
    ListType,
    NonNullType,
    ObjectType,
    ScalarType,
    UnionType,
)
from py_gql.schema.introspection import INTROPSPECTION_TYPES

from . import ser

_DEFAULT_NAMES = {t.name for t in SPECIFIED_SCALAR_TYPES} | {t.name for t in INTROPSPECTION_TYPES}


# ------------------------------------------------------------------ dump
def jvalue(v):
    """AST value -> JSON-able tree (locations dropped)."""
    if isinstance(v, A.Variable):
        return {"k": "var", "v": v.name.value}
    if isinstance(v, A.IntValue):
        return {"k": "int", "v": v.value}
    if isinstance(v, A.FloatValue):
        return {"k": "float", "v": v.value}
    if isinstance(v, A.StringValue):
        return {"k": "str", "v": v.value, "b": bool(v.block)}
    if isinstance(v, A.BooleanValue):
        return {"k": "bool", "v": bool(v.value)}
    if isinstance(v, A.NullValue):
        return {"k": "null"}
    if isinstance(v, A.EnumValue):
        return {"k": "enum", "v": v.value}
    if isinstance(v, A.ListValue):
        return {"k": "list", "v": [jvalue(x) for x in v.values]}
    if isinstance(v, A.ObjectValue):
        return {"k": "obj", "v": [[f.name.value, jvalue(f.value)] for f in v.fields]}
    raise TypeError(repr(v))


def jdirs(nodes):
    return [{"n": d.name.value, "a": [[a.name.value, jvalue(a.value)] for a in d.arguments]}
            for d in nodes]


def jtref(t):
    if isinstance(t, NonNullType):
        return {"nn": jtref(t.type)}
    if isinstance(t, ListType):
        return {"list": jtref(t.type)}
    return t.name


def _node_dirs(x):
    n = getattr(x, "node", None)
    return jdirs(n.directives) if n is not None else []


def _nodes_dirs(x):
    out = []
    for n in getattr(x, "nodes", None) or []:
        if n is not None:
            out.extend(jdirs(n.directives))
    return out


def jpv(v):
    """Python value -> JSON-able tagged tree (JSON would lose tuple/keys order
    only; tags keep bool/int/float apart after a JSON round trip)."""
    if v is None:
        return {"t": "none"}
    if v is True or v is False:
        return {"t": "bool", "v": v}
    if isinstance(v, int):
        return {"t": "int", "v": str(v)}
    if isinstance(v, float):
        return {"t": "float", "v": repr(v)}
    if isinstance(v, str):
        return {"t": "str", "v": v}
    if isinstance(v, (list, tuple)):
        return {"t": "list", "v": [jpv(x) for x in v]}
    if isinstance(v, dict):
        return {"t": "dict", "v": [[str(k), jpv(x)] for k, x in v.items()]}
    return {"t": "str", "v": "<<%s>>" % type(v).__name__}


def jivalue(a):
    return {
        "name": a.name, "py": a.python_name, "type": jtref(a.type),
        "default": jpv(a.default_value) if a.has_default_value else None,
        "desc": a.description, "dirs": _node_dirs(a),
    }


def jfield(f):
    return {
        "name": f.name, "py": f.python_name, "args": [jivalue(a) for a in f.arguments],
        "type": jtref(f.type), "desc": f.description, "dep": f.deprecation_reason,
        "dirs": _node_dirs(f),
        # not part of the Coq schema; used by model-free checks
        "has_resolver": f.resolver is not None,
        "has_subscription": f.subscription_resolver is not None,
        "deprecated_flag": bool(f.deprecated),
    }


def jtype(t):
    base = {"name": t.name, "desc": t.description, "dirs": _nodes_dirs(t)}
    if isinstance(t, ObjectType):
        base.update(kind="object", ifaces=[i.name for i in t.interfaces],
                    fields=[jfield(f) for f in t.fields],
                    has_default_resolver=t.default_resolver is not None)
    elif isinstance(t, InterfaceType):
        base.update(kind="interface", fields=[jfield(f) for f in t.fields],
                    has_resolve_type=t.resolve_type is not None)
    elif isinstance(t, UnionType):
        base.update(kind="union", members=[m.name for m in t.types],
                    has_resolve_type=t.resolve_type is not None)
    elif isinstance(t, EnumType):
        base.update(kind="enum", values=[
            {"name": v.name, "value": jpv(v.value), "desc": v.description,
             "dep": v.deprecation_reason, "dirs": _node_dirs(v)} for v in t.values])
    elif isinstance(t, InputObjectType):
        base.update(kind="input", fields=[jivalue(f) for f in t.fields])
    elif isinstance(t, ScalarType):
        base.update(kind="scalar")
    else:
        raise TypeError(repr(t))
    return base


def dump_schema(schema):
    return {
        "types": [jtype(t) for n, t in schema.types.items() if n not in _DEFAULT_NAMES],
        "directives": [
            {"name": d.name, "desc": d.description, "locs": list(d.locations),
             "args": [jivalue(a) for a in d.arguments]}
            for d in schema.directives.values() if d not in SPECIFIED_DIRECTIVES],
        "query": schema.query_type.name if schema.query_type else None,
        "mutation": schema.mutation_type.name if schema.mutation_type else None,
        "subscription": schema.subscription_type.name if schema.subscription_type else None,
        "dirs": _nodes_dirs(schema),
    }


# ------------------------------------------------------------------ Coq terms
_NAME = lambda s: "(Name %s NL)" % ser.cstr(s)  # noqa: E731


def cjvalue(j):
    k = j["k"]
    if k == "var":
        return "(VVar %s NL)" % _NAME(j["v"])
    if k == "int":
        return "(VInt %s NL)" % ser.cstr(j["v"])
    if k == "float":
        return "(VFloat %s NL)" % ser.cstr(j["v"])
    if k == "str":
        return "(VString %s %s NL)" % (ser.cstr(j["v"]), ser.cbool(j["b"]))
    if k == "bool":
        return "(VBool %s NL)" % ser.cbool(j["v"])
    if k == "null":
        return "(VNull NL)"
    if k == "enum":
        return "(VEnum %s NL)" % ser.cstr(j["v"])
    if k == "list":
        return "(VList %s NL)" % ser.clist(j["v"], cjvalue)
    if k == "obj":
        return "(VObject %s NL)" % ser.clist(
            j["v"], lambda f: "(%s, %s, NL)" % (_NAME(f[0]), cjvalue(f[1])))
    raise TypeError(k)


def cjdirs(ds):
    return ser.clist(ds, lambda d: "(Dir %s %s NL)" % (
        _NAME(d["n"]),
        ser.clist(d["a"], lambda a: "(Arg %s %s NL)" % (_NAME(a[0]), cjvalue(a[1])))))


def cjtref(t):
    if isinstance(t, str):
        return "(RNamed %s)" % ser.cstr(t)
    if "nn" in t:
        return "(RNonNull %s)" % cjtref(t["nn"])
    return "(RList %s)" % cjtref(t["list"])


def cjpv(j):
    t = j["t"]
    if t == "none":
        return "PNone"
    if t == "bool":
        return "(PBool %s)" % ser.cbool(j["v"])
    if t == "int":
        return "(PInt %s)" % ser.cz(int(j["v"]))
    if t == "float":
        return "(PFloat %s)" % ser.cstr(j["v"])
    if t == "str":
        return "(PStr %s)" % ser.cstr(j["v"])
    if t == "list":
        return "(PList %s)" % ser.clist(j["v"], cjpv)
    if t == "dict":
        return "(PDict %s)" % ser.clist(j["v"], lambda kv: "(%s, %s)" % (ser.cstr(kv[0]), cjpv(kv[1])))
    raise TypeError(t)


def costr(x):
    return ser.copt(x, ser.cstr)


def cjivalue(a):
    return "(SIV %s %s %s %s %s %s)" % (
        ser.cstr(a["name"]), ser.cstr(a["py"]), cjtref(a["type"]),
        ser.copt(a["default"], cjpv), costr(a["desc"]), cjdirs(a["dirs"]))


def cjfield(f):
    return "(SF %s %s %s %s %s %s %s)" % (
        ser.cstr(f["name"]), ser.cstr(f["py"]), ser.clist(f["args"], cjivalue),
        cjtref(f["type"]), costr(f["desc"]), costr(f["dep"]), cjdirs(f["dirs"]))


def cjtype(t):
    k = t["kind"]
    head = "%s %s" % (ser.cstr(t["name"]), costr(t["desc"]))
    ds = cjdirs(t["dirs"])
    if k == "scalar":
        return "(TScalar %s %s)" % (head, ds)
    if k == "object":
        return "(TObject %s %s %s %s)" % (
            head, ser.clist(t["ifaces"], ser.cstr), ser.clist(t["fields"], cjfield), ds)
    if k == "interface":
        return "(TInterface %s %s %s)" % (head, ser.clist(t["fields"], cjfield), ds)
    if k == "union":
        return "(TUnion %s %s %s)" % (head, ser.clist(t["members"], ser.cstr), ds)
    if k == "enum":
        return "(TEnum %s %s %s)" % (head, ser.clist(t["values"], lambda v: "(SEV %s %s %s %s %s)" % (
            ser.cstr(v["name"]), cjpv(v["value"]), costr(v["desc"]), costr(v["dep"]),
            cjdirs(v["dirs"]))), ds)
    if k == "input":
        return "(TInput %s %s %s)" % (head, ser.clist(t["fields"], cjivalue), ds)
    raise TypeError(k)


def cjddef(d):
    return "(DD %s %s %s %s)" % (
        ser.cstr(d["name"]), costr(d["desc"]), ser.clist(d["locs"], ser.cstr),
        ser.clist(d["args"], cjivalue))


def cschema(d):
    return "(Sch %s %s %s %s %s %s)" % (
        ser.clist(d["types"], cjtype), ser.clist(d["directives"], cjddef),
        costr(d["query"]), costr(d["mutation"]), costr(d["subscription"]), cjdirs(d["dirs"]))
