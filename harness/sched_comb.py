# -*- coding: utf-8 -*-
"""Combinator-level cases for C08 (layer 1, Exec/RuntimeFutures.v): scripts of
chain / gather_futures / unwrap_future applications from
py_gql.execution.runtime.threadpool over externally completed
concurrent.futures.Future objects, driven through a completion order; the
observable is the state of every script result after each completion and the
number of exceptions swallowed by the futures' callback runner.

    script = {"ext": k, "ops": [op...], "results": [res...], "sigma": [i...], "pre": [i...]}
             pre: externals completed *before* the combinators are applied (already-done
             futures entering chain / gather_futures / unwrap_future); sigma: the others
    op     = ["gather", [arg...]] | ["chain", arg, then, else_|None] | ["unwrap", arg]
    arg    = ["p", n] | ["e", i] | ["r", j]        plain / external future i / result of op j
    res    = ["v", arg] | ["x", n, handled]
then symbols: 0 identity, 1 const 7, 2 raise Handled(1), 3 raise Other(2), 4 [v];
else_ symbol f: (Handled, lambda e: 100 + f + e.tag)."""
import itertools
import logging
from concurrent.futures import Future

from py_gql.execution.runtime.threadpool import chain, gather_futures, unwrap_future

from . import sched


class Handled(Exception):
    def __init__(self, tag):
        super().__init__(tag)
        self.tag = tag


class Other(Exception):
    def __init__(self, tag):
        super().__init__(tag)
        self.tag = tag


def _then(sym):
    def f(v):
        if sym == 0:
            return v
        if sym == 1:
            return 7
        if sym == 2:
            raise Handled(1)
        if sym == 3:
            raise Other(2)
        return [v]
    return f


def _render(v):
    if isinstance(v, Future):
        return ["f"]
    if isinstance(v, list):
        return ["s", [_render(x) for x in v]]
    return ["b", v]


def _exc(e):
    if isinstance(e, (Handled, Other)):
        return ["u", e.tag, isinstance(e, Handled)]
    return ["other", type(e).__name__]


class _Count(logging.Handler):
    def __init__(self):
        super().__init__()
        self.n = 0

    def emit(self, record):
        self.n += 1


def run_script(sc):
    obs = _run_script(sc)
    if obs.get("hang") and sched.TIMEOUT[0] > 3.0:
        obs = _run_script(sc, 2 * sched.TIMEOUT[0])  # confirm: the machine may just be overloaded
        if obs.get("hang"):
            sched.hang_seen()
    return obs


def _run_script(sc, timeout=None):
    lg = logging.getLogger("concurrent.futures")
    h = _Count()
    old = lg.propagate
    lg.propagate = False
    lg.addHandler(h)
    try:
        with sched.watchdog(timeout):
            return _run(sc, h)
    except sched.Hang:
        return {"hang": True}
    finally:
        lg.removeHandler(h)
        lg.propagate = old


def _run(sc, counter):
    ext = [Future() for _ in range(sc["ext"])]
    res, raised = [], []

    def complete(i):
        r = sc["results"][i]
        if r[0] == "v":
            ext[i].set_result(arg(r[1]))
        else:
            ext[i].set_exception(Handled(r[1]) if r[2] else Other(r[1]))

    def arg(a):
        return a[1] if a[0] == "p" else ext[a[1]] if a[0] == "e" else res[a[1]]

    for i in sc.get("pre", []):
        complete(i)
    for op in sc["ops"]:
        try:
            if op[0] == "gather":
                v = gather_futures([arg(a) for a in op[1]])
            elif op[0] == "chain":
                els = None if op[3] is None else (Handled, (lambda f: lambda e: 100 + f + e.tag)(op[3]))
                v = chain(arg(op[1]), _then(op[2]), els)
            else:
                v = unwrap_future(arg(op[1]))
            res.append(v)
            raised.append(None)
        except (Handled, Other) as e:
            res.append(0)
            raised.append(e)

    def snap():
        out = []
        for v, e in zip(res, raised):
            if e is not None:
                out.append(["raised", _exc(e)])
            elif isinstance(v, Future):
                if not v.done():
                    out.append(["pending"])
                elif v.exception() is not None:
                    out.append(["exn", _exc(v.exception())])
                else:
                    out.append(["val", _render(v.result())])
            else:
                out.append(["plain", _render(v)])
        return out

    snaps = [snap()]
    for i in sc["sigma"]:
        complete(i)
        snaps.append(snap())
    return {"snaps": snaps, "swallowed": counter.n}


# ---------------------------------------------------------------- generation
def _perms(k, rng, cap):
    ps = list(itertools.permutations(range(k)))
    if len(ps) > cap:
        ps = rng.sample(ps, cap)
    return ps


def _rand_result(rng, i, k, p_fail=0.3):
    r = rng.random()
    if r < p_fail / 2:
        return ["x", rng.randint(1, 9), True]
    if r < p_fail:
        return ["x", rng.randint(1, 9), False]
    if r < p_fail + 0.15 and i + 1 < k:
        return ["v", ["e", rng.randint(i + 1, k - 1)]]
    return ["v", ["p", rng.randint(0, 50)]]


def _subsets(k):
    for mask in range(1 << k):
        yield [i for i in range(k) if mask >> i & 1]


OUTCOMES = [["v", ["p", 9]], ["x", 3, True], ["x", 4, False]]


def families(rng, quick):
    """the shapes the layer-1 theorems speak about: every subset of the sources already
    finished when the combinator is applied x every completion order of the others, with a
    success / handled failure / other failure at every position (exhaustive, not sampled)"""
    out = []
    cap = 24 if quick else 120
    # gather: k futures (+ plain values interleaved), every outcome assignment
    for k in ([1, 2, 3] if quick else [1, 2, 3, 4]):
        shapes = [[["e", i] for i in range(k)], [["p", 1]] + [["e", i] for i in range(k)],
                  [["e", i] for i in range(k)][::-1] + [["p", 2]]]
        for results in itertools.product(OUTCOMES, repeat=k):
            if k == 4 and sum(1 for r in results if r[0] == "x") > 2:
                continue
            args = shapes[len(out) % 3]
            for pre in _subsets(k):
                rest = [i for i in range(k) if i not in pre]
                for sg in _perms_of(rest, rng, cap):
                    out.append({"ext": k, "ops": [["gather", args]], "results": list(results),
                                "sigma": list(sg), "pre": pre})
    # gather with futures resolving to futures / random mixes (results are not unwrapped by gather)
    for k in ([2, 3] if quick else [2, 3, 4, 5]):
        for _ in range(4 if quick else 10):
            args = [["e", i] for i in range(k)] + [["p", rng.randint(0, 9)] for _ in range(rng.randint(0, 2))]
            rng.shuffle(args)
            results = [_rand_result(rng, i, k, rng.choice([0.0, 0.4, 0.8])) for i in range(k)]
            pre = [i for i in range(k) if rng.random() < 0.3]
            rest = [i for i in range(k) if i not in pre]
            for sg in _perms_of(rest, rng, cap):
                out.append({"ext": k, "ops": [["gather", args]], "results": results, "sigma": list(sg), "pre": pre})
    # chain: every then / else_ / source outcome, source pending or already finished
    for then in range(5):
        for els in (None, 0, 3):
            for res in (["v", ["p", 5]], ["x", 3, True], ["x", 4, False]):
                out.append({"ext": 1, "ops": [["chain", ["e", 0], then, els]], "results": [res], "sigma": [0], "pre": []})
                out.append({"ext": 1, "ops": [["chain", ["e", 0], then, els]], "results": [res], "sigma": [], "pre": [0]})
            out.append({"ext": 0, "ops": [["chain", ["p", 5], then, els]], "results": [], "sigma": [], "pre": []})
    # unwrap: nest e0 -> e1 -> ... -> value / failure; every subset already finished, every order of the rest
    for k in ([1, 2, 3] if quick else [1, 2, 3, 4]):
        for last in (["v", ["p", 9]], ["x", 2, False], ["x", 2, True]):
            results = [["v", ["e", i + 1]] for i in range(k - 1)] + [last]
            for pre in _subsets(k):
                rest = [i for i in range(k) if i not in pre]
                for sg in _perms_of(rest, rng, cap):
                    out.append({"ext": k, "ops": [["unwrap", ["e", 0]]], "results": results, "sigma": list(sg), "pre": pre})
    # the executor's composition unwrap(chain(unwrap(f), then, else_)) over done / pending futures
    for then in (0, 2, 3):
        for res in OUTCOMES:
            for pre in ([], [0]):
                out.append({"ext": 1, "ops": [["unwrap", ["e", 0]], ["chain", ["r", 0], then, 0], ["unwrap", ["r", 1]]],
                            "results": [res], "sigma": [i for i in [0] if i not in pre], "pre": pre})
    out.append({"ext": 0, "ops": [["unwrap", ["p", 3]], ["gather", []], ["gather", [["p", 1], ["p", 2]]]],
                "results": [], "sigma": [], "pre": []})
    return out


def _perms_of(items, rng, cap):
    ps = list(itertools.permutations(items))
    if len(ps) > cap:
        ps = rng.sample(ps, cap)
    return ps


def random_script(rng):
    k = rng.randint(1, 4)
    ops = []
    for j in range(rng.randint(1, 4)):
        def arg():
            r = rng.random()
            if r < 0.2:
                return ["p", rng.randint(0, 9)]
            if r < 0.65 or j == 0:
                return ["e", rng.randrange(k)]
            return ["r", rng.randrange(j)]
        r = rng.random()
        if r < 0.35:
            ops.append(["gather", [arg() for _ in range(rng.randint(0, 4))]])
        elif r < 0.75:
            ops.append(["chain", arg(), rng.randint(0, 4), rng.choice([None, None, 0, 5])])
        else:
            ops.append(["unwrap", arg()])
    results = [_rand_result(rng, i, k) for i in range(k)]
    pre = [i for i in range(k) if rng.random() < 0.25]
    sigma = [i for i in range(k) if i not in pre]
    rng.shuffle(sigma)
    return {"ext": k, "ops": ops, "results": results, "sigma": sigma, "pre": pre}


# ---------------------------------------------------------------- Coq terms
def _c_arg(a):
    return {"p": "(APlain %d)", "e": "(AExt (N.to_nat %d))", "r": "(ARes (N.to_nat %d))"}[a[0]] % a[1]


def _c_op(op):
    if op[0] == "gather":
        return "(OpGather [%s])" % "; ".join(_c_arg(a) for a in op[1])
    if op[0] == "chain":
        return "(OpChain %s %d %s)" % (_c_arg(op[1]), op[2], "None" if op[3] is None else "(Some %d)" % op[3])
    return "(OpUnwrap %s)" % _c_arg(op[1])


def _c_res(r):
    if r[0] == "v":
        return "(CrVal %s)" % _c_arg(r[1])
    return "(CrExn %d %s)" % (r[1], "true" if r[2] else "false")


def _c_value(v):
    if v[0] == "f":
        return "(VFut O)"
    if v[0] == "s":
        return "(VSeq [%s])" % "; ".join(_c_value(x) for x in v[1])
    return "(VBase %d)" % v[1]


def _c_exn(e):
    if e[0] == "u":
        return "(EUser %d %s)" % (e[1], "true" if e[2] else "false")
    return "EInvalidState"


def _c_ostate(o):
    if o[0] == "pending":
        return "OsPending"
    if o[0] == "raised":
        return "(OsRaised %s)" % _c_exn(o[1])
    if o[0] == "exn":
        return "(OsDone (RExn %s))" % _c_exn(o[1])
    if o[0] == "val":
        return "(OsDone (RVal %s))" % _c_value(o[1])
    return "(OsPlain %s)" % _c_value(o[1])


def c_script(sc):
    return "(MkScript (N.to_nat %d) [%s] [%s] [%s] [%s])" % (
        sc["ext"], "; ".join(_c_op(o) for o in sc["ops"]), "; ".join(_c_res(r) for r in sc["results"]),
        "; ".join("N.to_nat %d" % i for i in sc["sigma"]),
        "; ".join("N.to_nat %d" % i for i in sc.get("pre", [])))


def c_case(sc, obs):
    if obs.get("hang"):
        return "(CaseComb %s [] 999999)" % c_script(sc)
    return "(CaseComb %s [%s] %d)" % (
        c_script(sc), "; ".join("[%s]" % "; ".join(_c_ostate(o) for o in sn) for sn in obs["snaps"]),
        obs["swallowed"])
