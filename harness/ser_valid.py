# -*- coding: utf-8 -*-
"""Serialise a py_gql Schema object into the by-name Coq schema of
coq/Valid/ValidSchema.v (C05/C06), and JSON response data into `pv`."""
import hashlib

from py_gql.schema import (
    EnumType,
    InputObjectType,
    InterfaceType,
    ListType,
    NonNullType,
    ObjectType,
    ScalarType,
    UnionType,
)
from py_gql.schema.scalars import SPECIFIED_SCALAR_TYPES

from . import ser

_SK = {"Int": "SkInt", "Float": "SkFloat", "String": "SkString", "Boolean": "SkBoolean", "ID": "SkID"}


def ctref(t):
    if isinstance(t, ListType):
        return "(RList %s)" % ctref(t.type)
    if isinstance(t, NonNullType):
        return "(RNonNull %s)" % ctref(t.type)
    return "(RNamed %s)" % ser.cstr(t.name)


def csarg(a):
    return "(SArg %s %s %s)" % (ser.cstr(a.name), ctref(a.type), ser.cbool(a.has_default_value))


def csfield(f):
    return "(SField_ %s %s %s)" % (ser.cstr(f.name), ser.clist(f.arguments, csarg), ctref(f.type))


def ctdef(t):
    if isinstance(t, ScalarType):
        k = _SK[t.name] if any(t is x for x in SPECIFIED_SCALAR_TYPES) else "SkCustom"
        return "(TScalar %s)" % k
    if isinstance(t, ObjectType):
        return "(TObject %s %s)" % (
            ser.clist([i.name for i in (t.interfaces or [])], ser.cstr), ser.clist(t.fields, csfield))
    if isinstance(t, InterfaceType):
        return "(TInterface %s)" % ser.clist(t.fields, csfield)
    if isinstance(t, UnionType):
        return "(TUnion %s)" % ser.clist([x.name for x in t.types], ser.cstr)
    if isinstance(t, EnumType):
        return "(TEnum %s)" % ser.clist([v.name for v in t.values], ser.cstr)
    if isinstance(t, InputObjectType):
        return "(TInput %s)" % ser.clist(t.fields, csarg)
    raise TypeError("ctdef: %r" % (t,))


def cschema(schema):
    types = ser.clist(list(schema.types.items()),
                      lambda kv: "(%s, %s)" % (ser.cstr(kv[0]), ctdef(kv[1])))
    dirs = ser.clist(list(schema.directives.items()),
                     lambda kv: "(%s, (SDir %s %s))" % (
                         ser.cstr(kv[0]), ser.clist(list(kv[1].locations), ser.cstr),
                         ser.clist(kv[1].arguments, csarg)))

    def root(t):
        return "None" if t is None else "(Some %s)" % ser.cstr(t.name)

    return "(Schema %s %s %s %s %s)" % (
        types, root(schema.query_type), root(schema.mutation_type), root(schema.subscription_type), dirs)


class SchemaPool:
    """Schemas are emitted once per generated Coq file as named definitions
    (through the module's EXTRA_HEADER) and referenced by name in the cases."""

    def __init__(self):
        self.names = {}
        self.header = ""

    def ref(self, sdl, schema):
        h = "sch_" + hashlib.sha1(sdl.encode("utf-8")).hexdigest()[:12]
        if h not in self.names:
            self.names[h] = 1
            self.header += "Definition %s : schema := %s.\n" % (h, cschema(schema))
        return h


def cdata(v):
    """JSON-like response data -> pv (floats through repr as in ser.cpv)."""
    return ser.cpv(v)
