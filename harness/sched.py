# -*- coding: utf-8 -*-
"""Schedule controller: drives the *unmodified* py-gql runtimes through chosen
completion orders of in-flight resolver calls (C08, C09; reusable for C16/C17).

Nothing in /repo is changed. The thread-pool runtime's replaceable executor
(`ThreadPoolRuntime._inner`) is substituted by a parking executor; asyncio
resolvers await controller-owned futures on a private event loop.

API (everything else in this file is private)
---------------------------------------------
    ctl = PoolController()            # or LoopController(), or PromiseController(): a hand-written
                                      #   promise-style implementation of the public Runtime ABC
                                      #   (self-flattening deferreds, unwrap_value = identity)
    ctl.runtime                       # the py_gql runtime to pass as runtime=...
    ctl.events                        # list of [kind, label] in the order they
                                      #   happened: ["invoke", l] when a call is
                                      #   parked, ["finish", l] when it has been
                                      #   completed (body ran); resolvers / hooks
                                      #   may append their own entries with
                                      #   ctl.log(kind, label)
    ctl.start(thunk)                  # thunk() calls py_gql (e.g. process_graphql_query
                                      #   with runtime=ctl.runtime); its return value
                                      #   (Future / awaitable / plain) or the exception it
                                      #   raised synchronously is kept
    ctl.parked()                      # labels that can be completed now (park order)
    ctl.complete(label)               # run the parked body, deliver its result, run
                                      #   every callback / loop step this enables
    ctl.outcome()                     # ("pending",None) | ("ok",value) | ("raised",exc)
    ctl.first_outcome()               # the same, as it was when the result completed (None if never)
    ctl.leftover()                    # futures / tasks created during the run that
                                      #   are still not done
    ctl.swallowed                     # exceptions raised inside future callbacks /
                                      #   reported to the loop's exception handler
    ctl.close()

  Pool specifics:   every `runtime.submit(fn, *a, **kw)` (this includes every
      resolver the executor wraps with `wrap_callable`) is parked under
      `ctl.label_of(fn, a, kw)` (default: `(tuple(info.path), 0)` taken from the
      ResolveInfo argument); `ctl.defer(label, fn)` parks a further call from
      inside a resolver body and returns its Future (nested futures).
      `ctl.complete_concurrently(labels)` completes several parked calls from
      distinct OS threads at once (real races; thorough tier).
      PoolController(eager=f): a call whose label satisfies f completes before
      `submit` returns (a worker faster than the submitting thread).
      PoolController(handoff=f): after every runtime.map_value the just-submitted call may
      complete (f(label)), i.e. between the chaining of a value and the caller's next statement.
  Loop specifics:   coroutine resolvers do `await ctl.gate(label)`; everything
      before the await runs when the coroutine is first scheduled, everything
      after it when the gate is completed. LoopController(True) keeps
      AsyncIORuntime's default execute_blocking_functions_in_thread=True and makes
      the loop's default executor a parking executor: plain-function resolvers are
      parked under ctl.label_of(...) like pool calls and run when completed.

    drive(ctl, choose)                # complete parked calls until none is left;
                                      #   choose(sorted_labels) -> label; returns the schedule
    explore(run_once, limit, rng, samples, stop)
                                      # depth-first replay over all choices:
                                      #   run_once(choose) -> result. Returns
                                      #   (list of results, exhaustive: bool). When more than
                                      #   `limit` runs exist the enumeration stops and `samples`
                                      #   random schedules are added instead. stop(result) -> True
                                      #   ends the exploration early (e.g. after a hang).
    watchdog(seconds=TIMEOUT[0])      # context manager raising Hang in the main thread
                                      #   (a `.result()` on a pending future would block forever);
                                      #   TIMEOUT is generous (loaded machine); confirm a hang by
                                      #   re-running before reporting it, then call hang_seen()
                                      #   (see props/c08.py _explore)
  A worked driver (schema, resolvers that log through the controller, the four
  configurations) is harness/sched_prog.py.

Labels must be JSON-able after `list(...)` conversion and sortable; the ones
used by C08/C09 are `(path_tuple, level)`.
"""
import asyncio
import contextlib
import logging
import signal
import threading
from concurrent.futures import Executor as _CFExecutor, Future, ThreadPoolExecutor

from py_gql.execution.runtime import AsyncIORuntime, ThreadPoolRuntime
from py_gql.execution.runtime import threadpool as _tp
from py_gql.execution.runtime.base import Runtime as _RuntimeABC


class Hang(BaseException):
    """the implementation blocked (waited on something nobody will complete)"""


# wall-clock limit of one run (a healthy run takes ~1 ms; generous because the machine may be
# loaded); after the first hang further ones are detected quickly (hang_seen)
TIMEOUT = [30.0]


def hang_seen():
    TIMEOUT[0] = 3.0


@contextlib.contextmanager
def watchdog(seconds=None):
    seconds = seconds or TIMEOUT[0]
    def _raise(_sig, _frm):
        raise Hang()

    if threading.current_thread() is not threading.main_thread():
        yield
        return
    old = signal.signal(signal.SIGALRM, _raise)
    # repeat: an exception raised while a __del__ / weakref callback runs is swallowed
    signal.setitimer(signal.ITIMER_REAL, seconds, 0.5)
    try:
        yield
    finally:
        signal.setitimer(signal.ITIMER_REAL, 0)
        signal.signal(signal.SIGALRM, old)


def _sort_key(label):
    return repr(label)


class _Base:
    def __init__(self):
        self.events = []
        self.swallowed = []
        self._result = ("pending", None)
        self._lock = threading.RLock()

    def log(self, kind, label):
        with self._lock:
            self.events.append([kind, label])


# ------------------------------------------------------------------ pool
class _TrackedFuture(Future):
    _registry = None

    def __init__(self):
        super().__init__()
        reg = _TrackedFuture._registry
        if reg is not None:
            reg.append(self)


class _CallbackLogHandler(logging.Handler):
    def __init__(self, sink):
        super().__init__()
        self.sink = sink

    def emit(self, record):
        exc = record.exc_info[1] if record.exc_info else None
        self.sink.append(type(exc).__name__ if exc is not None else "log")


class _ParkingExecutor(_CFExecutor):
    """`submit` returns a real concurrent.futures.Future and parks the call."""

    def __init__(self, ctl):
        self._ctl = ctl

    def submit(self, fn, /, *args, **kwargs):   # positional-only like ThreadPoolExecutor.submit:
        # resolver keyword arguments may be called `fn` or `self`
        return self._ctl._park(self._ctl.label_of(fn, args, kwargs), fn, args, kwargs)

    def shutdown(self, *a, **k):
        pass


class _HandoffRuntime(ThreadPoolRuntime):
    """ThreadPoolRuntime whose map_value gives the controller a chance to complete the call that
    was just submitted *right after the value has been chained* (the worker finishing between
    `map_value(...)` returning and the caller's next statement)"""

    _ctl = None

    def map_value(self, value, then, else_=None):
        res = super().map_value(value, then, else_)
        if self._ctl is not None:
            self._ctl._handoff_point()
        return res


class PoolController(_Base):
    def __init__(self, eager=None, handoff=None):
        super().__init__()
        self.eager = eager  # label -> bool: run the call before submit returns (a fast worker)
        self.handoff = handoff  # label -> bool: complete the call right after a map_value returned
        self._last_park = None
        self._parked = []  # (label, future, fn, args, kwargs)
        self.runtime = (_HandoffRuntime if handoff is not None else ThreadPoolRuntime)(max_workers=1)
        if handoff is not None:
            self.runtime._ctl = self
        self.runtime._inner.shutdown(wait=False)
        self.runtime._inner = _ParkingExecutor(self)
        self._futures = []
        self._orig_future = _tp.Future
        _TrackedFuture._registry = self._futures
        _tp.Future = _TrackedFuture  # `Future()` calls in chain/gather/unwrap/ensure_wrapped
        self._handler = _CallbackLogHandler(self.swallowed)
        lg = logging.getLogger("concurrent.futures")
        self._old_propagate = lg.propagate
        lg.propagate = False
        lg.addHandler(self._handler)

    # -- hooks
    def label_of(self, fn, args, kwargs):
        a = tuple(getattr(fn, "args", ())) + tuple(args)    # fn may be a functools.partial
        info = a[2] if len(a) > 2 else None
        path = getattr(info, "path", None)
        return (tuple(path), 0) if path is not None else (getattr(fn, "__name__", "?"), 0)

    def _park(self, label, fn, args, kwargs):
        fut = _TrackedFuture()
        with self._lock:
            self._parked.append((label, fut, fn, args, kwargs))
            self.events.append(["invoke", label])
            self._last_park = (label, len(self.events))
        if self.eager is not None and self.eager(label):
            self.complete(label)  # the worker was faster than the submitting thread
        return fut

    def defer(self, label, fn, /, *args, **kwargs):
        return self._park(label, fn, args, kwargs)

    def _handoff_point(self):
        """offered after every runtime.map_value: the most recently submitted call may complete
        now, provided nothing else has happened since it was submitted (so that, for the model,
        it is a call that finished before its submitter went on)"""
        lp = self._last_park
        if lp is None or lp[1] != len(self.events) or lp[0] not in self.parked():
            return
        if self.handoff(lp[0]):
            self.complete(lp[0])

    # -- driving
    def start(self, thunk):
        try:
            r = thunk()
        except Exception as e:  # raised synchronously by the entry point
            self._result = ("raised", e)
            self._top = None
            return
        self._top = r
        if isinstance(r, Future):
            self._first = []
            r.add_done_callback(lambda f: self._first.append(self._state_of(f)))
        else:
            self._result = ("ok", r)

    @staticmethod
    def _state_of(f):
        if not f.done():
            return ("pending", None)
        e = f.exception()
        return ("raised", e) if e is not None else ("ok", f.result())

    def parked(self):
        with self._lock:
            return [p[0] for p in self._parked]

    def _take(self, label):
        with self._lock:
            for i, p in enumerate(self._parked):
                if p[0] == label:
                    return self._parked.pop(i)
        raise KeyError(label)

    def complete(self, label):
        _label, fut, fn, args, kwargs = self._take(label)
        if not fut.set_running_or_notify_cancel():
            return
        try:
            r = fn(*args, **kwargs)
        except BaseException as e:  # noqa: what ThreadPoolExecutor's worker does
            if isinstance(e, Hang):
                raise
            self.log("finish", label)
            fut.set_exception(e)
        else:
            self.log("finish", label)
            fut.set_result(r)

    def complete_concurrently(self, labels, timeout=5.0):
        """complete the given parked calls from len(labels) OS threads released
        together; returns False when a thread did not come back (blocked)."""
        barrier = threading.Barrier(len(labels))

        def work(lb):
            barrier.wait()
            self.complete(lb)

        ts = [threading.Thread(target=work, args=(lb,), daemon=True) for lb in labels]
        for t in ts:
            t.start()
        ok = True
        for t in ts:
            t.join(timeout)
            ok = ok and not t.is_alive()
        return ok

    def outcome(self):
        if self._top is not None and isinstance(self._top, Future):
            return self._state_of(self._top)
        return self._result

    def first_outcome(self):
        """outcome at the moment the top future completed (None if it has not)"""
        f = getattr(self, "_first", None)
        return f[0] if f else None

    def leftover(self):
        return sum(1 for f in self._futures if not f.done())

    def close(self):
        _tp.Future = self._orig_future
        _TrackedFuture._registry = None
        lg = logging.getLogger("concurrent.futures")
        lg.removeHandler(self._handler)
        lg.propagate = self._old_propagate


# ------------------------------------------------------------------ asyncio
class _LoopParkingExecutor(ThreadPoolExecutor):
    """default executor of the private loop: `loop.run_in_executor(None, f)` parks f
    (asyncio insists on a ThreadPoolExecutor instance; no thread is ever started)"""

    def __init__(self, ctl):  # noqa: deliberately no super().__init__
        self._ctl = ctl

    def submit(self, fn, /, *args, **kwargs):
        return self._ctl._park_call(fn, args, kwargs)

    def shutdown(self, *a, **k):
        pass


class LoopController(_Base):
    def __init__(self, execute_blocking_functions_in_thread=False):
        super().__init__()
        self.loop = asyncio.new_event_loop()
        self.loop.set_exception_handler(self._on_loop_exception)
        self._calls = []  # (label, concurrent Future, fn, args, kwargs): offloaded blocking functions
        if execute_blocking_functions_in_thread:
            self.loop.set_default_executor(_LoopParkingExecutor(self))
        self.runtime = AsyncIORuntime(
            loop=self.loop,
            execute_blocking_functions_in_thread=execute_blocking_functions_in_thread,
        )
        self._gates = []  # (label, asyncio.Future)
        self._top = None
        self._first = []

    def _on_loop_exception(self, _loop, context):
        exc = context.get("exception")
        self.swallowed.append(type(exc).__name__ if exc is not None else context.get("message", "?"))

    def label_of(self, fn, args, kwargs):
        a = getattr(fn, "args", ()) + tuple(args)  # run_in_executor passes functools.partial(func, *args)
        info = a[2] if len(a) > 2 else None
        path = getattr(info, "path", None)
        return (tuple(path), 0) if path is not None else (getattr(fn, "__name__", "?"), 0)

    def _park_call(self, fn, args, kwargs):
        fut = Future()
        label = self.label_of(fn, args, kwargs)
        self._calls.append((label, fut, fn, args, kwargs))
        self.events.append(["invoke", label])
        return fut

    def gate(self, label):
        fut = self.loop.create_future()
        self._gates.append((label, fut))
        self.events.append(["invoke", label])
        return fut

    def _settle(self):
        """run the loop until nothing is ready (no timers / IO are in use)"""
        for _ in range(100000):
            self.loop.call_soon(self.loop.stop)
            self.loop.run_forever()
            if not self.loop._ready and not self.loop._scheduled:
                return
        raise Hang()

    def start(self, thunk):
        try:
            r = thunk()
        except Exception as e:
            self._result = ("raised", e)
            return
        if asyncio.iscoroutine(r) or asyncio.isfuture(r):
            self._top = asyncio.ensure_future(r, loop=self.loop)
            self._top.add_done_callback(lambda f: self._first.append(self._state_of(f)))
            self._settle()
        else:
            self._result = ("ok", r)

    @staticmethod
    def _state_of(f):
        if not f.done():
            return ("pending", None)
        if f.cancelled():
            return ("raised", asyncio.CancelledError())
        e = f.exception()
        return ("raised", e) if e is not None else ("ok", f.result())

    def parked(self):
        return [g[0] for g in self._gates] + [c[0] for c in self._calls]

    def complete(self, label):
        for i, c in enumerate(self._calls):
            if c[0] == label:
                _l, cfut, fn, args, kwargs = self._calls.pop(i)
                cfut.set_running_or_notify_cancel()
                try:
                    r = fn(*args, **kwargs)
                except BaseException as e:  # noqa: what the worker thread does
                    if isinstance(e, Hang):
                        raise
                    self.events.append(["finish", label])
                    cfut.set_exception(e)
                else:
                    self.events.append(["finish", label])
                    cfut.set_result(r)
                self._settle()
                return
        for i, g in enumerate(self._gates):
            if g[0] == label:
                _l, fut = self._gates.pop(i)
                break
        else:
            raise KeyError(label)
        self.events.append(["finish", label])
        fut.set_result(None)
        self._settle()

    def outcome(self):
        if self._top is not None:
            return self._state_of(self._top)
        return self._result

    def first_outcome(self):
        return self._first[0] if self._first else None

    def leftover(self):
        return sum(1 for t in asyncio.all_tasks(self.loop) if not t.done())

    def close(self):
        try:
            for t in asyncio.all_tasks(self.loop):
                t.cancel()
            self._settle()
        except BaseException:  # noqa
            pass
        self.loop.close()


# ------------------------------------------------------------------ exploration
def drive(ctl, choose, max_steps=10000):
    schedule = []
    for _ in range(max_steps):
        labels = sorted(ctl.parked(), key=_sort_key)
        if not labels:
            return schedule
        lb = choose(labels)
        schedule.append(lb)
        ctl.complete(lb)
    raise Hang()


def explore(run_once, limit, rng=None, samples=0, stop=None):
    """run_once(choose) must be deterministic given the sequence of choices.
    Depth-first replay: the first run takes alternative 0 everywhere; each
    later run replays a prefix and takes the next alternative at the deepest
    choice point that still has one."""
    results = []
    prefix = []
    exhaustive = True
    while True:
        trace = []

        def choose(labels, _trace=trace, _prefix=prefix):
            i = len(_trace)
            c = _prefix[i] if i < len(_prefix) else 0
            if c >= len(labels):  # replay diverged: the run is not deterministic
                raise RuntimeError("schedule replay diverged")
            _trace.append((c, len(labels)))
            return labels[c]

        results.append(run_once(choose))
        if stop is not None and stop(results[-1]):
            return results, False
        while trace and trace[-1][0] + 1 >= trace[-1][1]:
            trace.pop()
        if not trace:
            break
        if len(results) >= limit:
            exhaustive = False
            break
        prefix = [c for c, _n in trace[:-1]] + [trace[-1][0] + 1]
    if not exhaustive and rng is not None:
        for _ in range(samples):
            results.append(run_once(lambda labels: labels[rng.randrange(len(labels))]))
    return results, exhaustive


# ------------------------------------------------------------------ a third-party runtime
class Deferred:
    """a hand-driven promise: resolve / reject once, then-callbacks run synchronously in
    registration order, and resolving with another Deferred *adopts* its outcome -- a deferred
    never holds a deferred, so the runtime's unwrap_value can be the identity"""

    _registry = None

    def __init__(self):
        self.state = "pending"
        self.value = None
        self._cbs = []
        if Deferred._registry is not None:
            Deferred._registry.append(self)

    def done(self):
        return self.state != "pending"

    def then(self, on_ok, on_err):
        if self.state == "pending":
            self._cbs.append((on_ok, on_err))
        elif self.state == "ok":
            on_ok(self.value)
        else:
            on_err(self.value)

    def resolve(self, value):
        if self.state != "pending":
            return
        if isinstance(value, Deferred):
            value.then(self.resolve, self.reject)
            return
        self.state, self.value = "ok", value
        cbs, self._cbs = self._cbs, []
        for on_ok, _e in cbs:
            on_ok(value)

    def reject(self, err):
        if self.state != "pending":
            return
        self.state, self.value = "err", err
        cbs, self._cbs = self._cbs, []
        for _o, on_err in cbs:
            on_err(err)


class PromiseRuntime(_RuntimeABC):
    """an implementation of the public py_gql Runtime ABC over Deferred (not one of the
    library's runtimes): submitted calls are parked in the controller"""

    def __init__(self, ctl):
        self._ctl = ctl

    def submit(self, fn, /, *args, **kwargs):
        return self._ctl._park(self._ctl.label_of(fn, args, kwargs), fn, args, kwargs)

    def ensure_wrapped(self, value):
        if isinstance(value, Deferred):
            return value
        d = Deferred()
        d.resolve(value)
        return d

    def gather_values(self, values):
        values = list(values)
        pending = [v for v in values if isinstance(v, Deferred)]
        if not pending:
            return values
        outer = Deferred()
        left = [len(pending)]

        def on_ok(_v):
            left[0] -= 1
            if left[0] == 0 and not outer.done():
                outer.resolve([v.value if isinstance(v, Deferred) else v for v in values])

        for d in pending:
            d.then(on_ok, outer.reject)
        return outer

    def map_value(self, value, then, else_=None):
        def call(fn, arg):
            try:
                return ("ok", fn(arg))
            except Exception as err:  # noqa
                if else_ is not None and isinstance(err, else_[0]):
                    return ("ok", else_[1](err))
                return ("err", err)

        if not isinstance(value, Deferred):
            kind, res = call(then, value)
            if kind == "err":
                raise res
            return res
        target = Deferred()

        def settle(kind_res):
            (target.resolve if kind_res[0] == "ok" else target.reject)(kind_res[1])

        def on_err(err):
            if else_ is not None and isinstance(err, else_[0]):
                settle(call(else_[1], err))
            else:
                target.reject(err)

        value.then(lambda v: settle(call(then, v)), on_err)
        return target

    def unwrap_value(self, value):
        return value     # deferreds flatten themselves

    def wrap_callable(self, func):
        import functools
        return functools.partial(self.submit, func)


class PromiseController(_Base):
    """same driving API as PoolController, over PromiseRuntime"""

    def __init__(self):
        super().__init__()
        self._parked = []
        self._deferreds = []
        Deferred._registry = self._deferreds
        self.runtime = PromiseRuntime(self)
        self._top = None
        self._first = []

    label_of = PoolController.label_of

    def _park(self, label, fn, args, kwargs):
        d = Deferred()
        self._parked.append((label, d, fn, args, kwargs))
        self.events.append(["invoke", label])
        return d

    def defer(self, label, fn, /, *args, **kwargs):
        return self._park(label, fn, args, kwargs)

    def start(self, thunk):
        try:
            r = thunk()
        except Exception as e:
            self._result = ("raised", e)
            return
        if isinstance(r, Deferred):
            self._top = r
            r.then(lambda v: self._first.append(("ok", v)), lambda e: self._first.append(("raised", e)))
        else:
            self._result = ("ok", r)

    def parked(self):
        return [p[0] for p in self._parked]

    def complete(self, label):
        for i, p in enumerate(self._parked):
            if p[0] == label:
                _l, d, fn, args, kwargs = self._parked.pop(i)
                break
        else:
            raise KeyError(label)
        try:
            r = fn(*args, **kwargs)
        except Exception as e:  # noqa
            self.events.append(["finish", label])
            d.reject(e)
        else:
            self.events.append(["finish", label])
            d.resolve(r)

    def outcome(self):
        if self._top is not None:
            if not self._top.done():
                return ("pending", None)
            return ("ok", self._top.value) if self._top.state == "ok" else ("raised", self._top.value)
        return self._result

    def first_outcome(self):
        return self._first[0] if self._first else None

    def leftover(self):
        return sum(1 for d in self._deferreds if not d.done())

    def close(self):
        Deferred._registry = None
