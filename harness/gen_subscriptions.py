# -*- coding: utf-8 -*-
"""Subscription cases for C17: a schema whose per-event behaviour is carried by
the event payload itself (so that the subscription run and the plain-query
oracle see the same failures), event variants, selections, sources."""
import asyncio

from py_gql import build_schema
from py_gql.exc import ResolverError

CHANGE_FIELDS = "change: Change, anychange: AnyChange, changes: [Change!]"

SDL = """
interface Change { id: ID!, kind: String!, where: String }
type Created implements Change { id: ID!, kind: String!, where: String, title: String! }
type Deleted implements Change { id: ID!, kind: String!, where: String, reason: String }
union AnyChange = Created | Deleted
type Query { _: Int, sub(k: Int): Ev, other: Int, nores: Int, echo: String, tick: Int!, change: Change, anychange: AnyChange, changes: [Change!] }
type Mutation { m: Int }
type Ev { idx: Int!, n: Int!, v: Int, s: String!, o: Inner, on: Inner!, l: [Int!], lo: [Inner!], f: Float }
type Inner { a: Int, b: Int!, deep: Inner }
type Subscription { sub(k: Int): Ev, other: Int, nores: Int, echo: String, tick: Int!, change: Change, anychange: AnyChange, changes: [Change!] }
"""


# one ObjectType serving as query, mutation AND subscription root (seed C17-e): the operation kind, not
# the identity of the root type, decides whether `subscribe` accepts a request
SDL_SHARED = """
schema { query: Root mutation: Root subscription: Root }
type Root { _: Int, sub(k: Int): Ev, other: Int, nores: Int, echo: String, tick: Int!, m: Int }
type Ev { idx: Int!, n: Int!, v: Int, s: String!, o: Inner, on: Inner!, l: [Int!], lo: [Inner!], f: Float }
type Inner { a: Int, b: Int!, deep: Inner }
"""


def _lookup(root, info):
    name = info.field_definition.name
    if isinstance(root, dict):
        r = (root.get("_raise") or {}).get(name)
        if r:
            if r[1] is not None:
                raise ResolverError(r[0], extensions=r[1])
            raise ResolverError(r[0])
        return root.get(name)
    if isinstance(root, EvObj):
        return getattr(root, name, None)
    return None        # None, 0, "", False, [] ... as root value: every field resolves to null


class EvObj(object):
    """an event that is a plain object (attributes instead of keys)"""

    def __init__(self, **kw):
        self.__dict__.update(kw)


def describe(root):
    """what the `echo` root field reports about the event it was given"""
    if root is None:
        return "none"
    if isinstance(root, bool):
        return "bool:%s" % root
    if isinstance(root, int):
        return "int:%d" % root
    if isinstance(root, str):
        return "str:" + root
    if isinstance(root, list):
        return "list:%d" % len(root)
    if isinstance(root, dict):
        return "dict:" + ",".join(sorted(root))
    return "obj:" + type(root).__name__


def echo_resolver(root, ctx, info, **args):
    return describe(root)


async def echo_resolver_async(root, ctx, info, **args):
    await asyncio.sleep(0)
    return describe(root)


def kind_resolver(root, ctx, info, **args):
    """reads the ResolveInfo it is given into its result: parent type, field, response path, node count"""
    return "%s.%s@%s#%d" % (info.parent_type.name, info.field_definition.name,
                             "/".join(str(p) for p in info.path), len(info.nodes))


async def kind_resolver_async(root, ctx, info, **args):
    await asyncio.sleep(0)
    return kind_resolver(root, ctx, info, **args)


def tick_resolver(root, ctx, info, **args):
    return 1          # ignores the event altogether


async def tick_resolver_async(root, ctx, info, **args):
    await asyncio.sleep(0)
    return 1


def sync_resolver(root, ctx, info, **args):
    return _lookup(root, info)


async def async_resolver(root, ctx, info, **args):
    await asyncio.sleep(0)
    v = _lookup(root, info)
    await asyncio.sleep(0)
    return v


_CACHE = {}


def get_schema(flavour, shared=False):
    """flavour: 'sync' | 'async' (field resolvers registered on some fields are coroutines);
    shared: the schema whose three roots are one ObjectType"""
    if shared:
        if ("shared", flavour) not in _CACHE:
            schema = build_schema(SDL_SHARED)
            schema.default_resolver = sync_resolver
            r = async_resolver if flavour == "async" else sync_resolver
            for tn, fn in [("Ev", "v"), ("Ev", "o"), ("Inner", "b"), ("Ev", "n"), ("Ev", "lo")]:
                schema.register_resolver(tn, fn, r)
            schema.register_resolver("Root", "echo", echo_resolver_async if flavour == "async" else echo_resolver)
            schema.register_resolver("Root", "tick", tick_resolver_async if flavour == "async" else tick_resolver)
            schema.validate()
            _CACHE[("shared", flavour)] = schema
        return _CACHE[("shared", flavour)]
    if flavour not in _CACHE:
        schema = build_schema(SDL)
        schema.default_resolver = sync_resolver
        r = async_resolver if flavour == "async" else sync_resolver
        for tn, fn in [("Ev", "v"), ("Ev", "o"), ("Inner", "b"), ("Ev", "n"), ("Ev", "lo")]:
            schema.register_resolver(tn, fn, r)
        for tn in ("Query", "Subscription"):
            schema.register_resolver(tn, "echo", echo_resolver_async if flavour == "async" else echo_resolver)
            schema.register_resolver(tn, "tick", tick_resolver_async if flavour == "async" else tick_resolver)
        for tn in ("Created", "Deleted"):
            schema.register_resolver(tn, "kind", kind_resolver_async if flavour == "async" else kind_resolver)
        schema.validate()
        _CACHE[flavour] = schema
    return _CACHE[flavour]


def set_subscription_resolvers(schema, sub_resolver):
    """(re)bind the subscription resolvers of the Subscription root fields for one case"""
    st = schema.subscription_type
    st.field_map["sub"].subscription_resolver = sub_resolver
    st.field_map["other"].subscription_resolver = sub_resolver
    st.field_map["nores"].subscription_resolver = None
    st.field_map["echo"].subscription_resolver = sub_resolver
    st.field_map["tick"].subscription_resolver = sub_resolver
    for fn in ("change", "anychange", "changes"):
        if fn in st.field_map:
            st.field_map[fn].subscription_resolver = sub_resolver
    # a query field that also has a subscription resolver: a query operation must still be refused
    schema.query_type.field_map["sub"].subscription_resolver = sub_resolver


# ---- event payload variants (the value under "sub" of the root value)
def ev_ok(k):
    return {"idx": k, "n": k, "v": k * 2, "s": "e%d" % k, "o": {"a": 1, "b": 2, "deep": {"a": None, "b": 3}},
            "on": {"a": 4, "b": 5}, "l": [1, 2], "lo": [{"a": 1, "b": 1}, {"a": 2, "b": 2}], "f": 0.5}


def _with(k, **kw):
    e = ev_ok(k)
    e.update(kw)
    return e


VARIANTS = {
    "ok": ev_ok,
    "n_null": lambda k: _with(k, n=None),                                   # non-null violation
    "v_raise": lambda k: _with(k, _raise={"v": ["v failed at %d" % k, {"event": k}]}),
    "s_raise": lambda k: _with(k, _raise={"s": ["", None]}),                # resolver error at a non-null field
    "on_null": lambda k: _with(k, on=None),
    "ob_null": lambda k: _with(k, o={"a": 1, "b": None, "deep": {"a": 1, "b": None}}),
    "l_item": lambda k: _with(k, l=[1, None, 3]),
    "lo_item": lambda k: _with(k, lo=[{"a": 1, "b": None}, None]),
    "sub_null": lambda k: None,
    "many": lambda k: _with(k, n=None, on=None, l=[None], _raise={"v": ["x", None], "o": ["y", {"a": [1]}]}),
}
VARIANT_NAMES = sorted(VARIANTS)

# events whose execution is aborted by a non-field exception (RuntimeError: a value its scalar
# cannot serialise), alone or after field errors were already registered for the same event
ABORTING = {
    "crash_f": lambda k: _with(k, f="not a float"),
    "crash_n": lambda k: _with(k, n="not an int"),
    "v_raise_crash_f": lambda k: _with(k, f="not a float", _raise={"v": ["v failed at %d" % k, {"event": k}]}),
    "v_raise_crash_n": lambda k: _with(k, n="not an int", _raise={"v": ["v failed at %d" % k, None]}),
    "many_crash_f": lambda k: _with(k, f="x", on=None, l=[None], _raise={"v": ["x", None], "o": ["y", {"a": [1]}]}),
    "lo_null_then_crash": lambda k: _with(k, lo=[{"a": 1, "b": None}, {"a": 2, "b": "boom"}, {"a": 3, "b": None}]),
    "l_crash": lambda k: _with(k, l=[1, "x"], _raise={"v": ["v first", None]}),
}
ABORTING_NAMES = sorted(ABORTING)
VARIANTS.update(ABORTING)

# events that are not {"sub": ...} dicts at all: payload-less and falsy events, bare containers, objects
RAW_EVENTS = {
    "raw_none": lambda k: None,
    "raw_zero": lambda k: 0,
    "raw_int": lambda k: k + 1,
    "raw_empty_str": lambda k: "",
    "raw_str": lambda k: "msg%d" % k,
    "raw_false": lambda k: False,
    "raw_true": lambda k: True,
    "raw_empty_list": lambda k: [],
    "raw_empty_dict": lambda k: {},
    "raw_dict_other": lambda k: {"unrelated": k},
    "raw_obj": lambda k: EvObj(sub=ev_ok(k)),
    "raw_obj_null": lambda k: EvObj(sub=None),
    "raw_obj_bare": lambda k: EvObj(),
}
def _created(k):
    return {"__typename__": "Created", "id": "c%d" % k, "where": "here", "title": "t%d" % k}


def _deleted(k):
    return {"__typename__": "Deleted", "id": "d%d" % k, "where": None, "reason": "r%d" % k}


# events whose payload is of an abstract type (interface / union / list of interface): consecutive events of
# different concrete types at the same response path
CHANGE_EVENTS = {
    "created": lambda k: {"change": _created(k), "anychange": _created(k), "changes": [_created(k), _deleted(k)]},
    "deleted": lambda k: {"change": _deleted(k), "anychange": _deleted(k), "changes": [_deleted(k), _created(k), _deleted(k)]},
    "created_bad": lambda k: {"change": dict(_created(k), title=None), "anychange": dict(_created(k), title=None),
                              "changes": [dict(_created(k), title=None)]},
    "change_null": lambda k: {"change": None, "anychange": None, "changes": None},
}
CHANGE_NAMES = sorted(CHANGE_EVENTS)
RAW_EVENTS.update(CHANGE_EVENTS)
RAW_NAMES = sorted(k for k in RAW_EVENTS if k not in CHANGE_EVENTS)
FALSY_RAW = ["raw_none", "raw_zero", "raw_empty_str", "raw_false", "raw_empty_list", "raw_empty_dict"]


def make_event(variant, k):
    if variant in RAW_EVENTS:
        return RAW_EVENTS[variant](k)
    return {"sub": VARIANTS[variant](k)}


SELECTIONS = [
    "subscription { sub { n } }",
    "subscription { sub { idx n v s } }",
    "subscription S { x: sub { idx n v o { a b deep { a b } } on { b } l lo { a b } f } }",
    "subscription { sub { ...F o { ...G } } }\nfragment F on Ev { n v s on { ...G } }\nfragment G on Inner { b deep { b } }",
    "subscription S($k: Int = 2) { sub(k: $k) { idx ... on Ev { v lo { b } } } }",
    "subscription {\n  sub(k: 1) {\n    idx\n    nn: n\n    vv: v\n    l\n  }\n}",
    "subscription { sub { idx @include(if: true) n @skip(if: true) v } }",
    "subscription { echo }",                  # the resolver reports the event it was given
    "subscription { tick }",                  # the resolver ignores the event
    "subscription E { e: echo @include(if: true) }",
]
SEL_ECHO, SEL_TICK, SEL_ECHO_ALIAS = 7, 8, 9
# field errors registered BEFORE the value that cannot be serialised is reached (document order) ...
SELECTIONS.append("subscription { sub { idx v o { b } on { b } l s f n } }")
# ... and after it (the abort comes first)
SELECTIONS.append("subscription { sub { f n v s } }")
# ... inside list items
SELECTIONS.append("subscription { sub { idx v lo { a b } l } }")
SEL_ERR_THEN_ABORT, SEL_ABORT_FIRST, SEL_ABORT_IN_LIST = 10, 11, 12
SELECTIONS.append("subscription { change { __typename id kind where ... on Created { title } ... on Deleted { reason } } }")
SELECTIONS.append("subscription { anychange { __typename ... on Created { id kind title } ... on Deleted { kind reason where } } }")
SELECTIONS.append("subscription C { changes { __typename kind ...T ... on Deleted { reason } } }\nfragment T on Created { title where }")
SEL_CHANGE, SEL_ANYCHANGE, SEL_CHANGES = 13, 14, 15
assert SELECTIONS[SEL_ECHO] == "subscription { echo }"

# refusals: (label, text, runtime, operation_name, variables, facts)
#   facts = (operation_found, variables_ok, is_subscription, runtime_streams, root_fields, field_defined, has_resolver)
REFUSALS = [
    ("several-fields", "subscription { sub { n } other }", "asyncio", None, {}, (1, 1, 1, 1, 2, 1, 1)),
    ("several-aliases", "subscription { a: sub { n } b: sub { n } }", "asyncio", None, {}, (1, 1, 1, 1, 2, 1, 1)),
    ("three-fields", "subscription { sub { n } other nores }", "asyncio", None, {}, (1, 1, 1, 1, 3, 1, 1)),
    ("several-through-fragment", "subscription { sub { n } ...F }\nfragment F on Subscription { other }", "asyncio", None, {},
     (1, 1, 1, 1, 2, 1, 1)),
    ("several-in-one-spread", "subscription { ...Both }\nfragment Both on Subscription { sub { n } other }", "asyncio", None, {},
     (1, 1, 1, 1, 2, 1, 1)),
    ("several-in-one-inline", "subscription { ... on Subscription { sub { n } other } }", "asyncio", None, {},
     (1, 1, 1, 1, 2, 1, 1)),
    ("several-in-nested-fragments", "subscription { ... { ...A } }\nfragment A on Subscription { sub { n } ...B }\nfragment B on Subscription { other }", "asyncio", None, {},
     (1, 1, 1, 1, 2, 1, 1)),
    ("no-fields", "subscription { sub @skip(if: true) { n } }", "asyncio", None, {}, (1, 1, 1, 1, 0, 1, 1)),
    ("no-resolver", "subscription { nores }", "asyncio", None, {}, (1, 1, 1, 1, 1, 1, 0)),
    ("undefined-field", "subscription { zzz }", "asyncio", None, {}, (1, 1, 1, 1, 1, 0, 0)),
    ("query-operation", "query { sub { n } }", "asyncio", None, {}, (1, 1, 0, 1, 1, 1, 1)),
    ("mutation-operation", "mutation { m }", "asyncio", None, {}, (1, 1, 0, 1, 1, 0, 0)),
    ("named-query-selected", "subscription S { sub { n } } query Q { _ }", "asyncio", "Q", {}, (1, 1, 0, 1, 1, 1, 1)),
    ("blocking-runtime", "subscription { sub { n } }", "blocking", None, {}, (1, 1, 1, 0, 1, 1, 1)),
    ("threadpool-runtime", "subscription { sub { n } }", "threadpool", None, {}, (1, 1, 1, 0, 1, 1, 1)),
    ("query-on-blocking-runtime", "query { _ }", "blocking", None, {}, (1, 1, 0, 0, 1, 1, 1)),
    ("several-fields-on-blocking-runtime", "subscription { sub { n } other }", "blocking", None, {}, (1, 1, 1, 0, 2, 1, 1)),
    ("no-resolver-several-fields", "subscription { nores other }", "asyncio", None, {}, (1, 1, 1, 1, 2, 1, 0)),
    ("unknown-operation-name", "subscription S { sub { n } }", "asyncio", "T", {}, (0, 1, 1, 1, 1, 1, 1)),
    ("ambiguous-operation", "subscription S { sub { n } } subscription T { sub { n } }", "asyncio", None, {},
     (0, 1, 1, 1, 1, 1, 1)),
    ("bad-variables", "subscription S($k: Int!) { sub(k: $k) { n } }", "asyncio", None, {"k": "x"}, (1, 0, 1, 1, 1, 1, 1)),
    ("bad-variables-on-query", "query S($k: Int!) { sub(k: $k) { n } }", "asyncio", None, {}, (1, 0, 0, 1, 1, 1, 1)),
]

# the same on the schema whose roots are one type: (label, text, runtime, operation_name, variables, facts)
SHARED_ROOT_REFUSALS = [
    ("shared-root-query", "query { sub { n } }", "asyncio", None, {}, (1, 1, 0, 1, 1, 1, 1)),
    ("shared-root-mutation", "mutation { sub { n } }", "asyncio", None, {}, (1, 1, 0, 1, 1, 1, 1)),
    ("shared-root-named-query", "subscription S { sub { n } } query Q { sub { n } }", "asyncio", "Q", {}, (1, 1, 0, 1, 1, 1, 1)),
    ("shared-root-bad-variables-on-query", "query S($k: Int!) { sub(k: $k) { n } }", "asyncio", None, {}, (1, 0, 0, 1, 1, 1, 1)),
    ("shared-root-several-fields", "subscription { sub { n } other }", "asyncio", None, {}, (1, 1, 1, 1, 2, 1, 1)),
]

# collect_fields on the root selection set raises (null variable in @skip/@include): facts as above
DIRECTIVE_ARGUMENT_REFUSALS = [
    ("directive-arguments-null-variable", "subscription S($s: Boolean = true) { sub @skip(if: $s) { n } }", "asyncio",
     None, {"s": None}, (1, 1, 1, 1, 0, 1, 1)),
    ("directive-arguments-in-fragment", "subscription S($s: Boolean = true) { ...F }\nfragment F on Subscription { sub @include(if: $s) { n } }",
     "asyncio", None, {"s": None}, (1, 1, 1, 1, 0, 1, 1)),
    ("directive-arguments-on-query", "query S($s: Boolean = true) { sub @skip(if: $s) { n } }", "asyncio",
     None, {"s": None}, (1, 1, 0, 1, 0, 1, 1)),
    ("directive-arguments-blocking-runtime", "subscription S($s: Boolean = true) { sub @skip(if: $s) { n } }", "blocking",
     None, {"s": None}, (1, 1, 1, 0, 0, 1, 1)),
]
