# -*- coding: utf-8 -*-
"""Grammar-directed generator of GraphQL documents (text) covering every node
class of py_gql.lang.ast: executable definitions (operations with variable
definitions, defaults and directives, fields with aliases / arguments /
directives / nested selections, fragment spreads, inline fragments, fragment
definitions with optional variable definitions) and type-system definitions
(schema, scalar, object, interface, union, enum, input, directive definitions,
every extension kind, descriptions on definitions and members).
Used by C18 (visitor) and C03 (printer). All randomness from the rng given.

Parse the result with PARSE_KW."""

PARSE_KW = {"allow_type_system": True, "experimental_fragment_variables": True}

NAMES = ["a", "b", "c", "foo", "barBaz", "snake_case", "x1", "_p", "Q", "Type", "on", "query",
         "fooBar_baz", "A_B", "type", "input", "extend", "schema", "fragment", "e2e_t"]
TYPE_NAMES = ["Int", "String", "T", "U", "Foo", "Bar_1", "Q", "ID"]
DIR_NAMES = ["skip", "include", "d", "onX", "deprecated"]
ENUMS = ["RED", "green", "B_1", "on", "type"]
EXEC_LOCS = ["QUERY", "MUTATION", "SUBSCRIPTION", "FIELD", "FRAGMENT_DEFINITION",
             "FRAGMENT_SPREAD", "INLINE_FRAGMENT"]
SDL_LOCS = ["SCHEMA", "SCALAR", "OBJECT", "FIELD_DEFINITION", "ARGUMENT_DEFINITION", "INTERFACE",
            "UNION", "ENUM", "ENUM_VALUE", "INPUT_OBJECT", "INPUT_FIELD_DEFINITION"]

# ---- string pool (values; rendered as quoted or block strings) ----
PLAIN_STRINGS = [
    "", "a", "hello world", " leading", "  two", "\tTab", "trailing ", "q\"uote", "\"", "\"\"",
    "back\\slash", "\\", "\\\\", "end\\", " end\\", "\\\"", "a\\\"\"\"", "\"\"\"", "x\"\"\"y",
    "\"\"\"\"", "\U0001F600", "a\U0001F600b\U00010000", "é中", " ", " x",
    "\x7f", "line1\nline2", "a\n  b", "  a\n  b", "\nlead", "trail\n", "a\rb", "a\r\nb", "\t",
    "\x00", "\x07\x08\x0c\x1f", "tab\there", "/slash", "#nocomment", "{}[]()$!:=@|&...",
    "x\"\"\"y\"\"\"z", "\"\"\"\"\"\"", "\u2028\u00a0\u0085",
]

# raw bodies of block strings (between the triple quotes); the parsed value is
# block_string_value(body)
BLOCK_BODIES = [
    "", "a", " a", "  a", "\ta", "a ", "a\"\n", " a\"\n", "a\\\n", " a\\\n", " a\\ ", "a\\ ", "\n", "\n\n", "  \n  ",
    "a\nb", "\na\n", "\n  a\n  b\n", "\n  a\n    b\n  c\n", "\n    a\n  b\n", "  a\n  b", "  a\n    b\n  c",
    "a\n\nb", "a\n  \nb", "\n\n  a\n\n\n  b\n\n", "a\n    ", "\n\ta\n\t\tb\n", "\n \ta\n \tb",
    "x\\\"\"\"y", "\\\"\"\"", " \\\"\"\"", "\\\"\"\"\"\n", "a\"\"\n", "\"a", "a\\\\ ", "\\n not escape",
    "\n  a\\\n", "\U0001F600", " \U0001F600", "a\r\nb", "a\rb", "\r\n  a\r\n  b\r\n", "a # b", "unicode \\u0041",
    "a\n b\n  c\n   d", "   a\n  b\n c\nd", "\n\n\n", "a\n\n", "\n\na",
    "a\\\"\"\"b\\\"\"\"c", "\\\"\"\"\\\"\"\"\n", " \\\"\"\" x \\\"\"\" ",
]


def _quote(s):
    out = ['"']
    for ch in s:
        o = ord(ch)
        if ch == '"':
            out.append('\\"')
        elif ch == "\\":
            out.append("\\\\")
        elif ch == "\n":
            out.append("\\n")
        elif ch == "\r":
            out.append("\\r")
        elif ch == "\t":
            out.append("\\t")
        elif o < 0x20:
            out.append("\\u%04X" % o)
        else:
            out.append(ch)
    out.append('"')
    return "".join(out)


# number literals as the lexer accepts them: the printer must emit the lexed text (-0 is a valid IntValue and
# is not the text of any Python int; so are exponents in either case and trailing zeros)
INT_LITERALS = ["0", "1", "-7", "42", "-0", "-1", "10", "-100", "123456789012345678901234567890",
                "-98765432109876543210"]
FLOAT_LITERALS = ["1.5", "-0.0", "1e3", "2.5E-3", "6.02e+23", "0.0", "-0e0", "1.50", "0E5", "-1.0e-0", "1e+05"]


class Gen:
    def __init__(self, rng, strings="some", max_depth=3):
        self.rng = rng
        self.max_depth = max_depth
        self.strings = strings  # "none" | "some" | "heavy"

    # -- leaves
    def name(self):
        return self.rng.choice(NAMES)

    def string(self):
        r = self.rng
        if self.strings == "none":
            return '"%s"' % r.choice(["", "s", "two words"])
        if r.random() < 0.45:
            return '"""%s"""' % r.choice(BLOCK_BODIES)
        return _quote(r.choice(PLAIN_STRINGS))

    def desc(self, p=0.4):
        if self.rng.random() < p:
            return self.string() + " "
        return ""

    def type_(self, depth=0):
        r = self.rng.random()
        if depth < 3 and r < 0.25:
            t = "[%s]" % self.type_(depth + 1)
        else:
            t = self.rng.choice(TYPE_NAMES)
        if self.rng.random() < 0.3:
            t += "!"
        return t

    def value(self, const, depth=0):
        r = self.rng
        k = r.random()
        if k < 0.12 and not const:
            return "$" + self.name()
        if k < 0.27:
            return r.choice(INT_LITERALS)
        if k < 0.37:
            return r.choice(FLOAT_LITERALS)
        if k < 0.55:
            return self.string()
        if k < 0.63:
            return r.choice(["true", "false"])
        if k < 0.69:
            return "null"
        if k < 0.78:
            return r.choice(ENUMS)
        if depth < self.max_depth and k < 0.89:
            return "[%s]" % r.choice([", ", " "]).join(
                self.value(const, depth + 1) for _ in range(r.randint(0, 3)))
        if depth < self.max_depth:
            return "{%s}" % ", ".join(
                "%s: %s" % (self.name(), self.value(const, depth + 1)) for _ in range(r.randint(0, 3)))
        return "7"

    def arguments(self, const, p=0.35):
        if self.rng.random() < p:
            return "(%s)" % ", ".join(
                "%s: %s" % (self.name(), self.value(const)) for _ in range(self.rng.randint(1, 3)))
        return ""

    def directives(self, const, p=0.3):
        out = []
        if self.rng.random() < p:
            for _ in range(self.rng.randint(1, 2)):
                out.append("@%s%s" % (self.rng.choice(DIR_NAMES), self.arguments(const, 0.5)))
        return (" " + " ".join(out)) if out else ""

    # -- executable
    def selection_set(self, depth):
        r = self.rng
        parts = []
        for _ in range(r.randint(1, 3)):
            k = r.random()
            if k < 0.15:
                parts.append("...%s%s" % (r.choice(["F0", "F1", "Frag"]), self.directives(False)))
            elif k < 0.3 and depth > 0:
                tc = r.choice(["", " on T", " on Foo"])
                parts.append("...%s%s %s" % (tc, self.directives(False), self.selection_set(depth - 1)))
            else:
                alias = (self.name() + ": ") if r.random() < 0.25 else ""
                sub = ""
                if depth > 0 and r.random() < 0.5:
                    sub = " " + self.selection_set(depth - 1)
                nm = self.name()
                if nm == "on" and not alias:
                    nm = "on_"
                parts.append("%s%s%s%s%s" % (alias, nm, self.arguments(False), self.directives(False), sub))
        return "{ %s }" % r.choice([" ", ", ", "\n  "]).join(parts)

    def variable_definitions(self, p=0.5):
        r = self.rng
        if r.random() >= p:
            return ""
        vds = []
        for _ in range(r.randint(1, 3)):
            d = (" = " + self.value(True)) if r.random() < 0.5 else ""
            vds.append("$%s: %s%s%s" % (self.name(), self.type_(), d, self.directives(True, 0.25)))
        return "(%s)" % ", ".join(vds)

    def operation(self):
        r = self.rng
        k = r.random()
        if k < 0.25:
            return self.selection_set(r.randint(0, self.max_depth))
        op = r.choice(["query", "query", "mutation", "subscription"])
        nm = (" " + r.choice(["Q", "MyOp", "op_2"])) if r.random() < 0.7 else ""
        return "%s%s%s%s %s" % (op, nm, self.variable_definitions(), self.directives(False),
                                self.selection_set(r.randint(0, self.max_depth)))

    def fragment(self):
        r = self.rng
        return "fragment %s%s on %s%s %s" % (
            r.choice(["F0", "F1", "Frag"]), self.variable_definitions(0.25), r.choice(TYPE_NAMES),
            self.directives(False), self.selection_set(r.randint(0, 2)))

    # -- type system
    def input_value_def(self):
        r = self.rng
        d = (" = " + self.value(True)) if r.random() < 0.4 else ""
        return "%s%s: %s%s%s" % (self.desc(0.3), self.name(), self.type_(), d, self.directives(True, 0.25))

    def argument_defs(self, p=0.4):
        if self.rng.random() < p:
            return "(%s)" % ", ".join(self.input_value_def() for _ in range(self.rng.randint(1, 3)))
        return ""

    def field_def(self):
        return "%s%s%s: %s%s" % (self.desc(0.3), self.name(), self.argument_defs(), self.type_(),
                                 self.directives(True, 0.25))

    def fields_block(self, maker, p_empty=0.2):
        if self.rng.random() < p_empty:
            return ""
        return " { %s }" % self.rng.choice([" ", "\n  ", ", "]).join(
            maker() for _ in range(self.rng.randint(1, 3)))

    def enum_value_def(self):
        return "%s%s%s" % (self.desc(0.3), self.rng.choice(ENUMS), self.directives(True, 0.25))

    def type_definition(self):
        r = self.rng
        kind = r.choice(["schema", "scalar", "type", "interface", "union", "enum", "input", "directive"])
        ext = r.random() < 0.35 and kind != "directive"
        desc = "" if (ext or kind == "schema") else self.desc(0.5)
        pre = "extend " if ext else ""
        tn = r.choice(TYPE_NAMES)
        dirs = self.directives(True)
        if kind == "schema":
            ots = []
            for op in r.sample(["query", "mutation", "subscription"], r.randint(1, 3)):
                ots.append("%s: %s" % (op, r.choice(TYPE_NAMES)))
            body = " { %s }" % " ".join(ots)
            if ext and r.random() < 0.4:
                body = ""
                dirs = dirs or " @d"
            return "%sschema%s%s" % (pre, dirs, body)
        if kind == "scalar":
            if ext:
                dirs = dirs or " @d"
            return "%s%sscalar %s%s" % (desc, pre, tn, dirs)
        if kind == "type":
            impl = ""
            if r.random() < 0.4:
                impl = " implements " + r.choice(["", "& "]) + " & ".join(
                    r.sample(TYPE_NAMES, r.randint(1, 3)))
            body = self.fields_block(self.field_def)
            if ext and not (impl or dirs or body):
                dirs = " @d"
            return "%s%stype %s%s%s%s" % (desc, pre, tn, impl, dirs, body)
        if kind == "interface":
            body = self.fields_block(self.field_def)
            if ext and not (dirs or body):
                dirs = " @d"
            return "%s%sinterface %s%s%s" % (desc, pre, tn, dirs, body)
        if kind == "union":
            body = ""
            if r.random() < 0.8:
                body = " = " + r.choice(["", "| "]) + " | ".join(r.sample(TYPE_NAMES, r.randint(1, 3)))
            if ext and not (dirs or body):
                dirs = " @d"
            return "%s%sunion %s%s%s" % (desc, pre, tn, dirs, body)
        if kind == "enum":
            body = self.fields_block(self.enum_value_def)
            if ext and not (dirs or body):
                dirs = " @d"
            return "%s%senum %s%s%s" % (desc, pre, tn, dirs, body)
        if kind == "input":
            body = self.fields_block(self.input_value_def)
            if ext and not (dirs or body):
                dirs = " @d"
            return "%s%sinput %s%s%s" % (desc, pre, tn, dirs, body)
        locs = r.sample(EXEC_LOCS + SDL_LOCS, r.randint(1, 3))
        return "%sdirective @%s%s on %s%s" % (
            desc, r.choice(DIR_NAMES), self.argument_defs(0.5), r.choice(["", "| "]), " | ".join(locs))

    def document(self, dialect=None, max_defs=4):
        r = self.rng
        dialect = dialect or r.choice(["exec", "sdl", "mixed"])
        defs = []
        for _ in range(r.randint(1, max_defs)):
            k = r.random()
            if dialect == "exec" or (dialect == "mixed" and k < 0.5):
                defs.append(self.fragment() if r.random() < 0.3 else self.operation())
            else:
                defs.append(self.type_definition())
        return r.choice(["\n", "\n\n", " "]).join(defs)


def gen_document(rng, strings="some", dialect=None, max_depth=3, max_defs=4):
    return Gen(rng, strings=strings, max_depth=max_depth).document(dialect, max_defs=max_defs)


# One document per node class family, used as fixed corpus by C18 and C03.
KITCHEN = [
    'query Q($a: [Int!]! = [1, 2] @d(x: 1), $b: T = {k: [E, null, true, 1.5, "s"]} ) @onQ { '
    'al: f(x: $a, y: {o: $b, l: [1, [2]]}) @skip(if: $b) { ...F0 @d ... on T @d { g } ... { h } } }',
    'fragment F0($v: Int = 3) on T @d { a b: c(k: """blk""") }',
    'mutation { m } subscription S { s }',
    'schema @d { query: Q mutation: M } extend schema @d { subscription: S } extend schema @e',
    '"sd" scalar Sc @d extend scalar Sc @e',
    '"""od""" type O implements I & J @d { "fd" f("ad" x: [Int!] = [1] @d, y: T): [[T!]]! @d g: Int } '
    'extend type O implements K extend type O @d extend type O { h: Int }',
    '"id" interface I @d { f(a: Int = 1): T } extend interface I @e extend interface I { g: T }',
    '"ud" union U @d = | A | B extend union U = C extend union U @d union V',
    '"ed" enum E @d { "vd" A @d B } extend enum E { C } extend enum E @d enum E2',
    '"""ind""" input In @d { "fd" a: Int = 1 @d b: [In!] = [{a: 2}] } extend input In { c: T } extend input In @d input I2',
    '"dd" directive @dir("ad" a: Int = 1 @d, b: String = """x\ny""") on FIELD | OBJECT',
    'directive @nd on | QUERY',
]


# ---- documents with repeated, structurally equal members in one child list ----
# (adjacent and non-adjacent). With locations erased such members are equal
# under Node.__eq__, so an edit that finds its target by equality instead of by
# position lands on the wrong sibling.
def _seq(rng, pool, lo=3, hi=5):
    n = rng.randint(lo, hi)
    items = [rng.choice(pool) for _ in range(n)]
    if len(set(items)) == len(items):      # force a duplicate, non-adjacent when possible
        items[-1] = items[0]
    return items


DUP_KINDS = {
    "selections": lambda r: "{ %s }" % " ".join(_seq(r, ["a", "b", "c { d }", "...F", "... on T { e }"])),
    "nested-selections": lambda r: "{ x { %s } }" % " ".join(_seq(r, ["a", "b(k: 1)", "a"])),
    "arguments": lambda r: "{ f(%s) }" % ", ".join(_seq(r, ["x: 1", "y: 2", "x: [1]"])),
    "list-values": lambda r: "{ f(x: [%s]) }" % ", ".join(_seq(r, ["1", "2", "$v", "[1]", "\"s\""])),
    "object-fields": lambda r: "{ f(x: {%s}) }" % ", ".join(_seq(r, ["a: 1", "b: 2", "a: {c: 1}"])),
    "field-directives": lambda r: "{ f %s }" % " ".join(_seq(r, ["@d", "@e", "@d(x: 1)"])),
    "directive-arguments": lambda r: "{ f @d(%s) }" % ", ".join(_seq(r, ["x: 1", "y: 2"])),
    "operation-directives": lambda r: "query Q %s { f }" % " ".join(_seq(r, ["@d", "@e"])),
    "variable-definitions": lambda r: "query (%s) { f }" % ", ".join(_seq(r, ["$a: Int", "$b: Int = 1", "$a: [Int]"])),
    "definitions": lambda r: " ".join(_seq(r, ["{ a }", "{ b }", "scalar S", "fragment F on T { a }"])),
    "spread-directives": lambda r: "{ ...F %s }" % " ".join(_seq(r, ["@d", "@e"])),
    "inline-directives": lambda r: "{ ... %s { a } }" % " ".join(_seq(r, ["@d", "@e"])),
    "enum-values": lambda r: "enum E { %s }" % " ".join(_seq(r, ["A", "B", "A @d"])),
    "union-members": lambda r: "union U = %s" % " | ".join(_seq(r, ["A", "B", "C"])),
    "interfaces": lambda r: "type T implements %s { a: Int }" % " & ".join(_seq(r, ["I", "J"])),
    "field-definitions": lambda r: "type T { %s }" % " ".join(_seq(r, ["a: Int", "b: Int", "a(x: Int): Int"])),
    "interface-fields": lambda r: "interface I { %s }" % " ".join(_seq(r, ["a: Int", "b: [Int!]"])),
    "argument-definitions": lambda r: "type T { f(%s): Int }" % ", ".join(_seq(r, ["x: Int", "y: Int = 1", "x: Int"])),
    "input-fields": lambda r: "input I { %s }" % " ".join(_seq(r, ["a: Int", "b: Int = 2"])),
    "directive-definition-arguments": lambda r: "directive @d(%s) on FIELD" % ", ".join(_seq(r, ["x: Int", "y: Int"])),
    "operation-types": lambda r: "schema { %s }" % " ".join(_seq(r, ["query: Q", "mutation: M"])),
    "type-directives": lambda r: "scalar S %s" % " ".join(_seq(r, ["@d", "@e(x: 1)"])),
    "extension-directives": lambda r: "extend type T %s" % " ".join(_seq(r, ["@d", "@e"])),
    "enum-value-directives": lambda r: "enum E { A %s }" % " ".join(_seq(r, ["@d", "@e"])),
}

# the two witnesses named for the in-place list edit
DUP_WITNESSES = ["{ a b a }", "{ f(x: [1, 2, 1]) }", "{ a a b a }", "{ f(x: 1, y: 2, x: 1) @d @e @d }",
                 "enum E { A B A } union U = A | B | A type T { a: Int b: Int a: Int }"]


def gen_dup_document(rng, kind=None):
    kind = kind or rng.choice(sorted(DUP_KINDS))
    return DUP_KINDS[kind](rng)


# ---- compositional string pool: atoms by character class ----
# Every pair of classes co-occurs in one string (pairwise_strings), for quoted
# strings (all classes) and for block strings (classes legal in a block string).
ATOMS = {
    "ascii": ["a", "xyz", "0"],
    "quote": ["\"", "\"\""],
    "backslash": ["\\", "\\\\", "\\n"],
    "control": ["\x00", "\x07", "\x08\x0c", "\x1f", "\n", "\r", "\t"],
    "bmp": ["é", "中文", "￿"],
    "nonbmp": ["\U0001F600", "\U00010000", "\U0010FFFF"],
    "high-surrogate": ["\ud800", "\udbff"],
    "low-surrogate": ["\udc00", "\udfff"],
    "reversed-pair": ["\udc00\ud800", "\ude00\ud83d"],
    "separators": [" ", "\u0085", " ", " "],
    "blank": [" ", "  ", "\t "],
    "punct": ["{}", "#", ",", "$@!"],
}
BLOCK_CLASSES = ["ascii", "quote", "backslash", "bmp", "nonbmp", "high-surrogate", "low-surrogate",
                 "reversed-pair", "separators", "blank", "punct"]


def pairwise_strings(classes=None):
    """deterministic: for every unordered pair of classes both orders of one atom each, plus each
    class on its own"""
    classes = sorted(classes or ATOMS)
    out = []
    for i, a in enumerate(classes):
        out.append((a, a, ATOMS[a][0]))
        for j in range(i + 1, len(classes)):
            b = classes[j]
            x = ATOMS[a][(i + j) % len(ATOMS[a])]
            y = ATOMS[b][(i * j) % len(ATOMS[b])]
            out.append((a, b, x + y))
            out.append((b, a, y + x))
    return out


def random_string(rng, classes=None, lo=1, hi=4):
    classes = sorted(classes or ATOMS)
    return "".join(rng.choice(ATOMS[rng.choice(classes)]) for _ in range(rng.randint(lo, hi)))


def block_body_of(s):
    """a legal raw block-string body carrying s: no triple quote, no trailing quote / backslash"""
    s = s.replace('"""', '" ""')
    if s.endswith('"') or s.endswith("\\"):
        s += "\n"
    return s
