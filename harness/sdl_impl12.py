# -*- coding: utf-8 -*-
"""Worker-side driver of C12: print schemas under call histories, rebuild."""
import importlib
import re

from . import ser_sdl
from .sdl_impl import _resolver, exc_obs, unjpv  # noqa: F401

_CAMEL = re.compile(r"(?<!^)(?=[A-Z])")


def snake(name):
    return _CAMEL.sub("_", name).lower()


# ------------------------------------------------------------------ code-built schemas
def py_of_lit(j, t, ctx):
    """python value of a literal tree for (spec) type t, as a user would write
    it in code: enum *internal* values, dict keys = python names"""
    k = j["k"]
    if k == "null":
        return None
    if k == "py":            # a Python value given as such (code-built only)
        return unjpv(j["v"])
    if not isinstance(t, str):
        if "nn" in t:
            return py_of_lit(j, t["nn"], ctx)
        if k == "list":
            return [py_of_lit(x, t["list"], ctx) for x in j["v"]]
        return [py_of_lit(j, t["list"], ctx)]
    if t in ctx["enums"]:
        return ctx["enums"][t][j["v"]]
    if t in ctx["inputs"]:
        # a conforming value: what coercion of the literal gives (declared
        # defaults of omitted fields filled in, field order of the type)
        given = dict((n, v) for n, v in j["v"])
        out = {}
        for f in ctx["inputs"][t]:
            if f["name"] in given:
                out[ctx["py"](f["name"])] = py_of_lit(given[f["name"]], f["type"], ctx)
            elif f["default"] is not None:
                out[ctx["py"](f["name"])] = py_of_lit(f["default"], f["type"], ctx)
        return out
    if k == "int":
        return float(j["v"]) if t == "Float" else (j["v"] if t == "ID" else int(j["v"]))
    if k == "float":
        return float(j["v"])
    if k in ("str", "bool", "enum"):
        return j["v"]
    raise TypeError((k, t))


def code_schema(spec, pynames=True, internal=True, shared=None):
    """the spec of gen_sdl built with the Python API"""
    from py_gql import schema as S
    from py_gql.schema.scalars import default_scalar

    py = (lambda n: snake(n)) if pynames else (lambda n: n)
    specd = {t.name: t for t in S.SPECIFIED_SCALAR_TYPES}
    built = {}
    ctx = {"enums": {}, "inputs": {}, "py": py}
    for t in spec["types"]:
        if t["kind"] == "enum":
            from .gen_sdl import enum_internal_values
            ctx["enums"][t["name"]] = enum_internal_values([v["name"] for v in t["values"]], internal)
        elif t["kind"] == "input":
            ctx["inputs"][t["name"]] = t["fields"]

    def ref(t):
        if isinstance(t, str):
            return specd[t] if t in specd else built[t]
        if "nn" in t:
            return S.NonNullType(ref(t["nn"]))
        return S.ListType(ref(t["list"]))

    def desc(d):
        return d["text"] if d else None

    def dep(d):
        if d is None:
            return None
        return "No longer supported" if d["reason"] is None else d["reason"]

    def ivalue(cls, a):
        kw = {}
        if a["default"] is not None:
            kw["default_value"] = py_of_lit(a["default"], a["type"], ctx)
        return cls(a["name"], ref(a["type"]), description=desc(a["desc"]), python_name=py(a["name"]), **kw)

    def fields_of(t):
        def thunk():
            return [S.Field(f["name"], ref(f["type"]), args=[ivalue(S.Argument, a) for a in f["args"]],
                            description=desc(f["desc"]), deprecation_reason=dep(f["dep"]),
                            python_name=py(f["name"])) for f in t["fields"]]
        return thunk

    for t in spec["types"]:
        k, n = t["kind"], t["name"]
        if k == "scalar":
            if shared is not None:
                # the same ScalarType *object* in every schema of the case
                if n not in shared:
                    shared[n] = default_scalar(n, description=desc(t["desc"]))
                built[n] = shared[n]
            else:
                built[n] = default_scalar(n, description=desc(t["desc"]))
        elif k == "enum":
            built[n] = S.EnumType(n, [S.EnumValue(v["name"], ctx["enums"][n][v["name"]], description=desc(v["desc"]),
                                                  deprecation_reason=dep(v["dep"])) for v in t["values"]],
                                  description=desc(t["desc"]))
    for t in spec["types"]:
        k, n = t["kind"], t["name"]
        if k == "input":
            built[n] = S.InputObjectType(n, (lambda t=t: [ivalue(S.InputField, f) for f in t["fields"]]),
                                         description=desc(t["desc"]))
        elif k == "interface":
            built[n] = S.InterfaceType(n, fields_of(t), description=desc(t["desc"]), resolve_type=_resolver)
    for t in spec["types"]:
        k, n = t["kind"], t["name"]
        if k == "object":
            built[n] = S.ObjectType(n, fields_of(t), interfaces=(lambda t=t: [built[i] for i in t["ifaces"]]),
                                    description=desc(t["desc"]))
    for t in spec["types"]:
        k, n = t["kind"], t["name"]
        if k == "union":
            built[n] = S.UnionType(n, (lambda t=t: [built[m] for m in t["members"]]), description=desc(t["desc"]),
                                   resolve_type=_resolver)
    directives = [S.Directive(d["name"], d["locs"], args=[ivalue(S.Argument, a) for a in d["args"]],
                              description=desc(d["desc"])) for d in spec["directives"]]
    roots = spec["roots"]
    return S.Schema(query_type=built.get(roots.get("query")), mutation_type=built.get(roots.get("mutation")),
                    subscription_type=built.get(roots.get("subscription")),
                    types=list(built.values()), directives=directives)


def make_schema(src, shared=None):
    from py_gql import build_schema
    if "sdl" in src:
        return build_schema(src["sdl"], ignore_extensions=bool(src.get("ignore_extensions")))
    s = code_schema(src["code"], src.get("pynames", True), src.get("internal", True),
                    shared if src.get("share") else None)
    s.validate()
    return s


# ------------------------------------------------------------------ round trip
def desc_printable(d, indent_len):
    """descriptions the printer neither drops nor re-wraps and that survive the
    block string layout: see docs/C12.md"""
    if d is None:
        return True
    if d == "" or "\r" in d:
        return False
    lines = d.split("\n")
    if any(len(l) > 120 - indent_len for l in lines):
        return False
    blank = lambda l: l.strip(" \t") == ""  # noqa: E731
    if blank(lines[0]) or blank(lines[-1]):
        return False
    if any(l != l.lstrip() and l.lstrip(" \t") == l for l in lines):
        return False      # leading whitespace other than space / tab
    rest = [l for l in lines[1:] if not blank(l)]
    if rest and min(len(l) - len(l.lstrip(" \t")) for l in rest) > 0:
        return False
    return True


def _norm_dirs(ds, custom):
    if custom is False or custom == []:
        return []
    out = [d for d in ds if d["n"] not in ("deprecated", "skip", "include")]
    if isinstance(custom, list):
        out = [d for d in out if d["n"] in custom]
    return out


def _default_lits(schema):
    """name-path -> printed literal of every default value"""
    from py_gql.lang import print_ast
    from py_gql.schema import InputObjectType, InterfaceType, ObjectType
    from py_gql.utilities.ast_node_from_value import ast_node_from_value

    out = {}

    def one(path, a):
        if a.has_default_value:
            out[path] = print_ast(ast_node_from_value(a.default_value, a.type))
    for t in schema.types.values():
        if t.name.startswith("__"):
            continue
        if isinstance(t, (ObjectType, InterfaceType)):
            for f in t.fields:
                for a in f.arguments:
                    one("%s.%s(%s)" % (t.name, f.name, a.name), a)
        elif isinstance(t, InputObjectType):
            for f in t.fields:
                one("%s.%s" % (t.name, f.name), f)
    for d in schema.directives.values():
        for a in d.arguments:
            one("@%s(%s)" % (d.name, a.name), a)
    return out


def _enum_view(v, t):
    """a default value with every enum leaf replaced by the *name of the member
    holding that internal value* (looked up in the member list, independently
    of the printer), input-object keys by field name; None elsewhere"""
    from py_gql.schema import EnumType, InputObjectType, ListType, NonNullType
    if isinstance(t, NonNullType):
        return _enum_view(v, t.type)
    if v is None:
        return None
    if isinstance(t, ListType):
        if isinstance(v, (list, tuple)):
            return [_enum_view(x, t.type) for x in v]
        return [_enum_view(v, t.type)]
    if isinstance(t, EnumType):
        found = [m.name for m in t.values if m.value == v]
        return {"member": found[0] if found else "<no member holds %r>" % (v,)}
    if isinstance(t, InputObjectType):
        if not isinstance(v, dict):
            return "<not a dict>"
        return {f.name: _enum_view(v[f.python_name], f.type) for f in t.fields if f.python_name in v}
    return None


def _default_members(schema):
    """name-path -> enum-member view of every default value"""
    from py_gql.schema import InputObjectType, InterfaceType, ObjectType

    out = {}

    def one(path, a):
        if a.has_default_value:
            out[path] = _enum_view(a.default_value, a.type)
    for t in schema.types.values():
        if t.name.startswith("__"):
            continue
        if isinstance(t, (ObjectType, InterfaceType)):
            for f in t.fields:
                for a in f.arguments:
                    one("%s.%s(%s)" % (t.name, f.name, a.name), a)
        elif isinstance(t, InputObjectType):
            for f in t.fields:
                one("%s.%s" % (t.name, f.name), f)
    for d in schema.directives.values():
        for a in d.arguments:
            one("@%s(%s)" % (d.name, a.name), a)
    return out


def normalise(dump, opts, sdl_built, indent_len):
    """what print -> build is required to preserve, given the options"""
    custom = opts["custom"]
    with_desc = opts["descriptions"]

    def dsc(d, depth):
        if not with_desc:
            return None
        return d if desc_printable(d, indent_len * depth) else "<unprintable>"

    def iv(a, depth):
        return {"name": a["name"], "type": a["type"], "desc": dsc(a["desc"], depth),
                "default": a["default"] if sdl_built else (a["default"] is not None),
                "dirs": _norm_dirs(a["dirs"], custom)}

    def fld(f):
        return {"name": f["name"], "type": f["type"], "desc": dsc(f["desc"], 1), "dep": f["dep"],
                "args": [iv(a, 2) for a in f["args"]], "dirs": _norm_dirs(f["dirs"], custom)}

    types = {}
    for t in dump["types"]:
        n = {"kind": t["kind"], "desc": dsc(t["desc"], 0), "dirs": _norm_dirs(t["dirs"], custom)}
        k = t["kind"]
        if k == "object":
            n.update(ifaces=t["ifaces"], fields=[fld(f) for f in t["fields"]])
        elif k == "interface":
            n.update(fields=[fld(f) for f in t["fields"]])
        elif k == "union":
            n.update(members=t["members"])
        elif k == "enum":
            n.update(values=[{"name": v["name"], "desc": dsc(v["desc"], 1), "dep": v["dep"],
                              "dirs": _norm_dirs(v["dirs"], custom)} for v in t["values"]])
        elif k == "input":
            n.update(fields=[iv(f, 1) for f in t["fields"]])
        types[t["name"]] = n
    dirs = {d["name"]: {"desc": dsc(d["desc"], 0), "locs": d["locs"], "args": [iv(a, 1) for a in d["args"]]}
            for d in dump["directives"]}
    return {"types": types, "directives": dirs, "roots": [dump["query"], dump["mutation"], dump["subscription"]],
            "dirs": _norm_dirs(dump["dirs"], custom)}


def _first_diff(a, b, path=""):
    if a == "<unprintable>":
        return None       # outside the statement: the printer re-wraps / cannot lay out this description
    if type(a) != type(b):
        return "%s: %r vs %r" % (path, a, b)
    if isinstance(a, dict):
        for k in sorted(set(a) | set(b)):
            if k not in a or k not in b:
                return "%s.%s only on one side" % (path, k)
            d = _first_diff(a[k], b[k], path + "." + str(k))
            if d:
                return d
        return None
    if isinstance(a, list):
        if len(a) != len(b):
            return "%s: length %d vs %d" % (path, len(a), len(b))
        for i, (x, y) in enumerate(zip(a, b)):
            d = _first_diff(x, y, "%s[%d]" % (path, i))
            if d:
                return d
        return None
    return None if a == b else "%s: %r vs %r" % (path, a, b)


def _kwargs(opts):
    return dict(indent=opts["indent"], include_descriptions=opts["descriptions"],
                include_introspection=opts["introspection"],
                include_custom_schema_directives=opts["custom"])


def reset_printer_state():
    """fresh module state, as in a new process"""
    import py_gql.sdl
    import py_gql.sdl.ast_schema_printer as m
    m = importlib.reload(m)
    py_gql.sdl.ASTSchemaPrinter = m.ASTSchemaPrinter


def do_c12(case):
    from py_gql import build_schema
    from py_gql.lang import parse

    if case.get("reset", True):
        reset_printer_state()
    schemas, dumps, sdl_built = [], [], []
    shared = {}
    for src in case["schemas"]:
        try:
            s = make_schema(src, shared)
        except BaseException as e:  # noqa
            return {"harness_error": "schema source does not build: %r" % (e,)}
        schemas.append(s)
        dumps.append(ser_sdl.dump_schema(s))
        sdl_built.append("sdl" in src)
    steps, checks = [], []
    for idx, opts in case["steps"]:
        s = schemas[idx]
        try:
            text = s.to_string(**_kwargs(opts))
        except BaseException as e:  # noqa
            if isinstance(e, (KeyboardInterrupt, SystemExit)):
                raise
            steps.append(exc_obs(e))
            continue
        steps.append({"text": text})
    # identical arguments -> identical text, at any point of the history
    seen = {}
    for n, ((idx, opts), st) in enumerate(zip(case["steps"], steps)):
        key = (idx, repr(sorted(opts.items())))
        if key in seen and seen[key][1] != st.get("text"):
            checks.append("history: step %d differs from step %d for the same arguments" % (n, seen[key][0]))
        seen.setdefault(key, (n, st.get("text")))
    # round trip of every distinct (schema, options)
    done = set()
    for (idx, opts), st in zip(case["steps"], steps):
        key = (idx, repr(sorted(opts.items())))
        if key in done or "text" not in st:
            continue
        done.add(key)
        text = st["text"]
        if text == "":
            continue
        try:
            parse(text, allow_type_system=True)
        except BaseException as e:  # noqa
            checks.append("parses: %s %s" % (type(e).__name__, str(e)[:120]))
            continue
        if opts["introspection"]:
            continue      # introspection types cannot be redefined from SDL
        try:
            rebuilt = build_schema(text)
        except BaseException as e:  # noqa
            checks.append("rebuilds: %s %s" % (type(e).__name__, str(e)[:160]))
            continue
        ind = opts["indent"] if isinstance(opts["indent"], int) else len(opts["indent"])
        a = normalise(dumps[idx], opts, sdl_built[idx], ind)
        b = normalise(ser_sdl.dump_schema(rebuilt), opts, sdl_built[idx], ind)
        d = _first_diff(a, b)
        if d:
            checks.append("rebuilt-schema-identical: " + d[:300])
        if not sdl_built[idx]:
            try:
                d = _first_diff(_default_lits(schemas[idx]), _default_lits(rebuilt))
            except BaseException as e:  # noqa
                d = "default literal: %r" % (e,)
            if d:
                checks.append("rebuilt-defaults-identical: " + d[:300])
            # enum defaults: the rebuilt schema holds the member that held the
            # internal value (oracle independent of the printer)
            try:
                d = _first_diff(_default_members(schemas[idx]), _default_members(rebuilt))
            except BaseException as e:  # noqa
                d = "enum default: %r" % (e,)
            if d:
                checks.append("rebuilt-enum-defaults-identical: " + d[:300])
        try:
            again = rebuilt.to_string(**_kwargs(opts))
        except BaseException as e:  # noqa
            again = "<%s>" % type(e).__name__
        if again != text and "<unprintable>" not in repr(a):
            checks.append("second-print-identical")
    return {"dumps": dumps, "steps": steps, "checks": checks}
