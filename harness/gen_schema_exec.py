# -*- coding: utf-8 -*-
"""Generators for the execution properties (C04; reusable by C05/C08/C10):

* gen_schema(rng)       -> JSON-able schema description (<= 8 generated types:
                           objects, interfaces, unions, enums with internal
                           values != names, custom scalars, wrappers to depth 3)
* build_schema(desc, resolver) -> py_gql Schema, built in code from
                           py_gql.schema types or from SDL + additional_types +
                           register_resolver (desc["via"])
* gen_operation(rng, desc) -> (document text, raw variables, operation name),
                           valid by construction (checked by the caller with
                           validate_ast): fragments, inline fragments with and
                           without type conditions, aliases, same-key merges
                           with sub-selections, @skip/@include with literals
                           and variables, field arguments from literals and
                           variables
* World                 -> resolver behaviour as a table keyed by response
                           path, drawn lazily (recording mode) the first time
                           a path is resolved and replayed afterwards
* schema_to_coq / table_to_coq -> Coq terms for Schema/SchemaModel.v and
                           Run/C04run.v

All randomness comes from the rng that is passed in.
"""
import copy

from py_gql import build_schema as _sdl_build_schema
from py_gql.exc import ResolverError
from py_gql.schema import (
    ID, Argument, Boolean, EnumType, Field, Float, Int, InterfaceType, ListType,
    NonNullType, ObjectType, ScalarType, Schema, String, UnionType,
)

from . import ser

BUILTIN = {"Int": Int, "Float": Float, "String": String, "ID": ID, "Boolean": Boolean}
LEAF_BUILTIN = ["Int", "Float", "String", "ID", "Boolean"]


class UserError(ResolverError):
    """subclass raised by generated resolvers (isinstance semantics of the except clause)"""


# a family of ResolverError subclasses with their own constructor signatures: the library must report
# each as a field error (null + one error with path and location), whatever its constructor looks like
class Unauthorized(ResolverError):
    """zero-argument constructor"""
    def __init__(self):
        super().__init__("unauthorized", extensions={"code": 401})
        self.realm = "admin"


class NotFound(ResolverError):
    """two positional arguments, an extra attribute"""
    def __init__(self, kind, ident):
        super().__init__("%s %s not found" % (kind, ident))
        self.kind, self.ident = kind, ident


class QuotaExceeded(ResolverError):
    """keyword-only argument, extensions computed from it"""
    def __init__(self, *, limit):
        super().__init__("quota %d exceeded" % limit, extensions={"limit": limit, "retry": None})
        self.limit = limit


SHARED_ERROR = UserError("shared failure", extensions={"shared": True})   # one instance, raised repeatedly
SHARED_ERROR._c04_user = True


def make_error(entry):
    """the exception a world entry ["err", msg, ext, variant?] raises (msg / ext are what the model expects)"""
    variant = entry[3] if len(entry) > 3 else None
    if variant is None:
        cls = UserError if int(entry[1][-1]) % 2 else ResolverError
        err = cls(entry[1], extensions=entry[2])
    elif variant[0] == "unauthorized":
        err = Unauthorized()
    elif variant[0] == "notfound":
        err = NotFound(variant[1], variant[2])
    elif variant[0] == "quota":
        err = QuotaExceeded(limit=variant[1])
    elif variant[0] == "shared":
        return SHARED_ERROR
    else:
        raise AssertionError(variant)
    err._c04_user = True
    assert err.message == entry[1] and (err.extensions or None) == (entry[2] or None), entry
    return err


def gen_error_entry(rng):
    r = rng.random()
    if r < 0.45:
        ext = rng.choice([None, {"code": rng.randint(1, 9)}, {"a": [1, "x"], "b": None}])
        return ["err", "boom%d" % rng.randint(0, 9), ext]
    if r < 0.58:
        return ["err", "unauthorized", {"code": 401}, ["unauthorized"]]
    if r < 0.72:
        kind, ident = rng.choice(["user", "order"]), rng.randint(1, 99)
        return ["err", "%s %s not found" % (kind, ident), None, ["notfound", kind, ident]]
    if r < 0.86:
        limit = rng.randint(1, 50)
        return ["err", "quota %d exceeded" % limit, {"limit": limit, "retry": None}, ["quota", limit]]
    return ["err", "shared failure", {"shared": True}, ["shared"]]


class Boom(Exception):
    """the resolver's own unexpected exception"""


# ------------------------------------------------------------------ type refs
def named_of(t):
    while not isinstance(t, str):
        t = t[1]
    return t


def show_tref(t):
    if isinstance(t, str):
        return t
    if t[0] == "list":
        return "[%s]" % show_tref(t[1])
    return "%s!" % show_tref(t[1])


def wrap(rng, name, depth3=True):
    """random wrappers around a named type, nesting depth <= 3, never NonNull(NonNull)"""
    t = name
    n = rng.choice([0, 0, 0, 1, 1, 2, 3])
    for _ in range(n):
        if isinstance(t, list) and t[0] == "nn":
            t = ["list", t]
        else:
            t = [rng.choice(["list", "nn", "nn"]), t]
    return t


# ------------------------------------------------------------------ schemas
def _same_value(a, b):
    """type-aware structural equality (True is not 1; dicts compared in order), as pv_eqb in Run/C04run.v"""
    if type(a) is not type(b):
        return False
    if isinstance(a, list):
        return len(a) == len(b) and all(_same_value(x, y) for x, y in zip(a, b))
    if isinstance(a, dict):
        return len(a) == len(b) and all(
            ka == kb and _same_value(va, vb) for (ka, va), (kb, vb) in zip(a.items(), b.items()))
    return a == b


def _custom_ser(t):
    """serialize callable of a generated custom scalar (t: its description)"""
    kind = t["ser"]
    if kind == "identity":
        return lambda v: v
    if kind == "table":
        table = t["table"]

        def by_table(v):
            # designated values are mapped (possibly to None) or rejected; every other value passes
            for key, action in table:
                if _same_value(key, v):
                    if action[0] == "raise":
                        raise ValueError("rejected by the serialiser")
                    return action[1]
            return v
        return by_table

    def int_to_str(v):
        if isinstance(v, bool) or not isinstance(v, int):
            raise ValueError("not an int")
        return str(v)
    return int_to_str


def _gen_ser_table(rng):
    keys = rng.sample([0, 7, -1, "nil", "", "x", True, False, [1], {"k": 1}, 2.5], rng.randint(2, 5))
    table = []
    for i, k in enumerate(keys):
        r = rng.random()
        if i == 0 or r < 0.55:
            action = ["ret", None]                      # a non-null value that serialises to null
        elif r < 0.85:
            action = ["ret", rng.choice(["mapped", 42, False, [None, 1]])]
        else:
            action = ["raise"]
        table.append([k, action])
    return table


def gen_schema(rng):
    n_obj = rng.choice([1, 2, 2, 3, 3])
    n_iface = rng.choice([0, 1, 1, 2])
    n_union = rng.choice([0, 1, 1])
    n_enum = rng.choice([0, 1, 1, 2])
    n_scalar = rng.choice([0, 1, 1])
    has_mut = rng.random() < 0.3
    while 1 + has_mut + n_obj + n_iface + n_union + n_enum + n_scalar > 8:
        n_obj = max(1, n_obj - 1)
        n_iface = max(0, n_iface - 1)
    via = rng.choice(["code", "code", "sdl"])
    objs = ["T%d" % i for i in range(n_obj)]
    ifaces = ["I%d" % i for i in range(n_iface)]
    unions = ["U%d" % i for i in range(n_union)]
    enums = ["E%d" % i for i in range(n_enum)]
    scalars = ["S%d" % i for i in range(n_scalar)]
    scalar_defs = {}
    for s_ in scalars:
        kind = rng.choice(["identity", "int_to_str", "table", "table", "table"])
        scalar_defs[s_] = {"kind": "scalar", "name": s_, "ser": kind}
        if kind == "table":
            scalar_defs[s_]["table"] = _gen_ser_table(rng)
    leafs = LEAF_BUILTIN + enums + scalars
    composites = objs + ifaces + unions

    enum_defs = {}
    for e in enums:
        vals = []
        used = []
        for j in range(rng.randint(1, 4)):
            name = "%s_V%d" % (e, j)
            r = rng.random()
            if r < 0.45:
                iv = rng.randint(-3, 40) * 7 + 2          # never 0/1: bool/int aliasing is exercised separately
            elif r < 0.8:
                iv = "iv_%s_%d" % (e.lower(), rng.randint(0, 3))
            elif r < 0.9:
                iv = name
            else:
                iv = rng.choice([True, False, 0, 1])
            if iv in used and rng.random() < 0.7:
                iv = "uniq_%s_%d" % (e, j)
            used.append(iv)
            vals.append([name, iv])
        if len(vals) >= 2 and rng.random() < 0.45:
            # internal values spelled like member NAMES: a permutation of the name set, a partial
            # collision, a value equal to its own name, mixed with ints -- serialisation must go by the
            # internal value, never by a name that happens to be spelled the same
            names = [n for n, _ in vals]
            mode = rng.choice(["rotate", "swap-two", "one-collision", "mixed"])
            if mode == "rotate":
                k = rng.randint(1, len(names) - 1)
                for i in range(len(vals)):
                    vals[i][1] = names[(i + k) % len(names)]
            elif mode == "swap-two":
                i, j = rng.sample(range(len(vals)), 2)
                vals[i][1], vals[j][1] = names[j], names[i]
            elif mode == "one-collision":
                i, j = rng.sample(range(len(vals)), 2)
                vals[i][1] = names[j]
            else:
                i, j = rng.sample(range(len(vals)), 2)
                vals[i][1] = names[j]
                vals[j][1] = rng.choice([names[j], rng.randint(2, 9) * 11])
                for k in range(len(vals)):
                    if k not in (i, j) and rng.random() < 0.5:
                        vals[k][1] = names[i]
        enum_defs[e] = vals

    # global field pool: a field name determines its type and arguments
    pool = {}
    nfields = rng.randint(4, 9)
    for i in range(nfields):
        name = "f%d" % i
        if rng.random() < 0.45 and composites:
            t = wrap(rng, rng.choice(composites))
        else:
            base = rng.choice(leafs)
            if base in scalar_defs and scalar_defs[base]["ser"] == "table" or (
                    i == 0 and any(d["ser"] == "table" for d in scalar_defs.values())):
                if base not in scalar_defs or scalar_defs[base]["ser"] != "table":
                    base = [n for n, d in scalar_defs.items() if d["ser"] == "table"][0]
                # every nullability position of a leaf whose serialiser can produce null
                t = rng.choice([base, ["nn", base], ["list", base], ["list", ["nn", base]],
                                ["nn", ["list", ["nn", base]]], ["nn", ["list", base]]])
            else:
                t = wrap(rng, base)
        args = []
        if rng.random() < 0.3:
            for j in range(rng.randint(1, 2)):
                an = "a%d" % j
                base = rng.choice(["Int", "String", "Boolean", "ID"] + enums)
                at = ["nn", base] if rng.random() < 0.4 else base
                default = None
                if rng.random() < 0.4:
                    default = {"value": _arg_default(rng, base, enum_defs)}
                pyname = an if (via == "sdl" or rng.random() < 0.7) else "py_" + an
                args.append({"name": an, "pyname": pyname, "type": at, "default": default})
        pool[name] = {"name": name,
                      "pyname": name if (via == "sdl" or rng.random() < 0.8) else "py_" + name,
                      "type": t, "args": args, "resolver": rng.random() < 0.75}

    def pick_fields(k):
        names = sorted(rng.sample(sorted(pool), min(k, len(pool))), key=lambda x: rng.random())
        return [pool[n] for n in names]

    types = []
    iface_fields = {}
    for i in ifaces:
        iface_fields[i] = pick_fields(rng.randint(1, 2))
    impls = {i: [] for i in ifaces}
    for o in objs:
        mine = [i for i in ifaces if rng.random() < 0.5]
        for i in mine:
            impls[i].append(o)
    for i in ifaces:                     # every interface has an implementation
        if not impls[i]:
            impls[i].append(rng.choice(objs))
        if len(impls[i]) == len(objs) and len(objs) > 1 and rng.random() < 0.7:
            impls[i].remove(rng.choice(impls[i]))          # ... and usually a non-implementing object
    obj_ifaces = {o: [i for i in ifaces if o in impls[i]] for o in objs}
    for i in ifaces:
        types.append({"kind": "interface", "name": i, "fields": iface_fields[i],
                      "resolve_key": rng.choice([None, None, "kind"])})
    for o in objs:
        fs = []
        for i in obj_ifaces[o]:
            for f in iface_fields[i]:
                if f not in fs:
                    fs.append(f)
        for f in pick_fields(rng.randint(1, 4)):
            if f not in fs:
                fs.append(f)
        rng.shuffle(fs)
        types.append({"kind": "object", "name": o, "fields": fs, "interfaces": obj_ifaces[o]})
    for u in unions:
        members = rng.sample(objs, rng.randint(1, len(objs)))
        if ifaces and rng.random() < 0.7:
            # a union that crosses an interface: one member implements it, another does not
            i = rng.choice(ifaces)
            non = [o for o in objs if o not in impls[i]]
            if non:
                for extra in (rng.choice(impls[i]), rng.choice(non)):
                    if extra not in members:
                        members.append(extra)
        members = sorted(members, key=lambda x: rng.random())
        types.append({"kind": "union", "name": u, "types": members,
                      "resolve_key": rng.choice([None, None, "kind"])})
    for e in enums:
        types.append({"kind": "enum", "name": e, "values": enum_defs[e]})
    for s_ in scalars:
        types.append(scalar_defs[s_])
    qf = pick_fields(rng.randint(2, 5))
    if not any(named_of(f["type"]) in composites for f in qf):
        comp = [f for f in pool.values() if named_of(f["type"]) in composites]
        if comp:
            qf.append(rng.choice(comp))
    types.append({"kind": "object", "name": "Query", "fields": qf, "interfaces": []})
    if has_mut:
        types.append({"kind": "object", "name": "Mutation", "fields": pick_fields(rng.randint(1, 3)),
                      "interfaces": []})
    rng.shuffle(types)
    return {"types": types, "query": "Query", "mutation": "Mutation" if has_mut else None, "via": via}


def _arg_default(rng, base, enum_defs):
    if base == "Int":
        return rng.randint(-5, 50)
    if base == "String":
        return rng.choice(["", "dflt", "déf"])
    if base == "Boolean":
        return rng.choice([True, False])
    if base == "ID":
        return rng.choice(["id0", "77"])
    return rng.choice(enum_defs[base])[1]


def type_index(desc):
    return {t["name"]: t for t in desc["types"]}


def possible_objects(desc, name):
    idx = type_index(desc)
    t = idx[name]
    if t["kind"] == "object":
        return [name]
    if t["kind"] == "union":
        return list(t["types"])
    if t["kind"] == "interface":
        return [o["name"] for o in desc["types"] if o["kind"] == "object" and name in o["interfaces"]]
    return []


def _type_resolver(key):
    def resolve_type(value, ctx, info):
        boom = value.get("__boom__") if isinstance(value, dict) else None
        if boom is not None:
            # a user resolve_type raising the library's error (only in the "rtraise" cases of props/c04.py)
            err = ResolverError("cannot resolve type %s" % boom, extensions={"why": boom})
            err._c04_user = True
            raise err
        return value.get(key)
    return resolve_type


def build_schema(desc, resolver):
    """a fresh py_gql Schema for the description; [resolver] is attached to the
    fields flagged "resolver" (others use the library's default resolver)"""
    if desc["via"] == "sdl":
        return _build_sdl(desc, resolver)
    reg = {}

    def ref(t):
        if isinstance(t, str):
            return BUILTIN.get(t) or reg[t]
        inner = ref(t[1])
        return ListType(inner) if t[0] == "list" else NonNullType(inner)

    def mk_fields(fs):
        def thunk():
            out = []
            for f in fs:
                args = [Argument(a["name"], ref(a["type"]), python_name=a["pyname"],
                                 **({"default_value": a["default"]["value"]} if a["default"] else {}))
                        for a in f["args"]]
                out.append(Field(f["name"], ref(f["type"]), args=args, python_name=f["pyname"],
                                 resolver=resolver if f["resolver"] else None))
            return out
        return thunk

    for t in desc["types"]:
        if t["kind"] == "enum":
            reg[t["name"]] = EnumType(t["name"], [(n, v) for n, v in t["values"]])
        elif t["kind"] == "scalar":
            fn = _custom_ser(t)
            reg[t["name"]] = ScalarType(t["name"], serialize=fn, parse=lambda v: v)
    for t in desc["types"]:
        if t["kind"] == "interface":
            reg[t["name"]] = InterfaceType(
                t["name"], fields=mk_fields(t["fields"]),
                resolve_type=_type_resolver(t["resolve_key"]) if t["resolve_key"] else None)
    for t in desc["types"]:
        if t["kind"] == "object":
            reg[t["name"]] = ObjectType(
                t["name"], fields=mk_fields(t["fields"]),
                interfaces=[reg[i] for i in t["interfaces"]])
    for t in desc["types"]:
        if t["kind"] == "union":
            reg[t["name"]] = UnionType(
                t["name"], types=[reg[m] for m in t["types"]],
                resolve_type=_type_resolver(t["resolve_key"]) if t["resolve_key"] else None)
    return Schema(query_type=reg[desc["query"]],
                  mutation_type=reg[desc["mutation"]] if desc["mutation"] else None,
                  types=[reg[t["name"]] for t in desc["types"]])


def _sdl_literal(v, is_enum_name=None):
    if is_enum_name is not None:
        return is_enum_name
    if v is True:
        return "true"
    if v is False:
        return "false"
    if isinstance(v, int):
        return str(v)
    return '"%s"' % v


def schema_sdl(desc):
    idx = type_index(desc)
    out = []

    def fields_sdl(fs):
        lines = []
        for f in fs:
            args = ""
            if f["args"]:
                parts = []
                for a in f["args"]:
                    d = ""
                    if a["default"]:
                        base = named_of(a["type"])
                        en = None
                        if base in idx and idx[base]["kind"] == "enum":
                            en = [n for n, v in idx[base]["values"] if v == a["default"]["value"]
                                  and type(v) is type(a["default"]["value"])][-1]
                        d = " = %s" % _sdl_literal(a["default"]["value"], en)
                    parts.append("%s: %s%s" % (a["name"], show_tref(a["type"]), d))
                args = "(%s)" % ", ".join(parts)
            lines.append("  %s%s: %s" % (f["name"], args, show_tref(f["type"])))
        return "\n".join(lines)

    for t in desc["types"]:
        if t["kind"] == "object":
            impl = (" implements " + " & ".join(t["interfaces"])) if t["interfaces"] else ""
            out.append("type %s%s {\n%s\n}" % (t["name"], impl, fields_sdl(t["fields"])))
        elif t["kind"] == "interface":
            out.append("interface %s {\n%s\n}" % (t["name"], fields_sdl(t["fields"])))
        elif t["kind"] == "union":
            out.append("union %s = %s" % (t["name"], " | ".join(t["types"])))
        elif t["kind"] == "enum":
            out.append("enum %s { %s }" % (t["name"], " ".join(n for n, _ in t["values"])))
        elif t["kind"] == "scalar":
            out.append("scalar %s" % t["name"])
    if desc["mutation"]:
        out.append("schema { query: %s mutation: %s }" % (desc["query"], desc["mutation"]))
    return "\n".join(out)


def _build_sdl(desc, resolver):
    extra = []
    for t in desc["types"]:
        if t["kind"] == "enum":
            extra.append(EnumType(t["name"], [(n, v) for n, v in t["values"]]))
        elif t["kind"] == "scalar":
            extra.append(ScalarType(t["name"], serialize=_custom_ser(t), parse=lambda v: v))
    schema = _sdl_build_schema(schema_sdl(desc), additional_types=extra)
    for t in desc["types"]:
        if t["kind"] == "object":
            for f in t["fields"]:
                if f["resolver"]:
                    schema.register_resolver(t["name"], f["name"], resolver)
        elif t["kind"] in ("interface", "union") and t["resolve_key"]:
            schema.types[t["name"]].resolve_type = _type_resolver(t["resolve_key"])
    return schema


# ------------------------------------------------------------------ operations
class OpGen:
    def __init__(self, rng, desc, max_sel=40, max_depth=5):
        self.rng = rng
        self.desc = desc
        self.idx = type_index(desc)
        self.budget = max_sel
        self.max_depth = max_depth
        self.frags = []            # (name, type condition, body text)
        self.closed = []           # (name, type condition) usable in spreads
        self.argtext = {}          # (field name, alias) -> argument text
        self.vars = {}             # name -> (type text, default text or None, raw value or absent)
        self.features = set()

    # -- variables
    def bool_var(self):
        rng = self.rng
        existing = [v for v, d in self.vars.items() if d["base"] == "Boolean" and d["dir_ok"]]
        if existing and rng.random() < 0.5:
            return rng.choice(existing)
        name = "b%d" % len(self.vars)
        if rng.random() < 0.6:
            self.vars[name] = {"type": "Boolean!", "default": None, "base": "Boolean", "dir_ok": True,
                               "provide": True, "value": rng.choice([True, False])}
        else:
            dv = rng.choice([True, False])
            provide = rng.random() < 0.5
            value = rng.choice([True, False])
            if provide and rng.random() < 0.3:
                # explicit null for a nullable variable with a default, used for the non-null `if`:
                # collecting the fields fails (root: request rejected; nested: error of the enclosing field)
                value = None
                self.features.add("dir-null-variable")
            self.vars[name] = {"type": "Boolean", "default": "true" if dv else "false", "base": "Boolean",
                               "dir_ok": True, "provide": provide, "value": value}
        return name

    def arg_var(self, a):
        rng = self.rng
        base = named_of(a["type"])
        nonnull = not isinstance(a["type"], str)
        name = "v%d" % len(self.vars)
        value = self.raw_input(base)
        if nonnull and a["default"] is None:
            mode = rng.choice(["nn", "default"])
        else:
            mode = rng.choice(["nn", "default", "nullable", "nullable"])
        if mode == "nn":
            d = {"type": base + "!", "default": None, "provide": True}
        elif mode == "default":
            d = {"type": base, "default": self.literal(base, self.raw_input(base)), "provide": rng.random() < 0.5}
            if d["provide"] and rng.random() < 0.2:
                value = None                        # explicit null: a field error when the argument is non-null
                self.features.add("arg-null-variable")
        else:
            # nullable without default: may be left out (argument then absent / argument default)
            d = {"type": base, "default": None, "provide": rng.random() < 0.6}
        d.update({"base": base, "dir_ok": False, "value": value})
        self.vars[name] = d
        return name

    def raw_input(self, base):
        """raw (JSON) input value for a variable of the named type"""
        rng = self.rng
        if base == "Int":
            return rng.choice([0, 1, -7, 42, 2147483646, -2147483647])
        if base == "String":
            return rng.choice(["", "s", "héllo", "two words", "li\u2028ne", "nel\u0085", "ps\u2029x"])
        if base == "Boolean":
            return rng.choice([True, False])
        if base == "ID":
            return rng.choice(["id1", "9", 12])
        return rng.choice(self.idx[base]["values"])[0]       # enum: the name

    def literal(self, base, raw):
        if base in ("Int",):
            return str(raw)
        if base == "Boolean":
            return "true" if raw else "false"
        if base in ("String",):
            return '"%s"' % raw
        if base == "ID":
            return str(raw) if isinstance(raw, int) else '"%s"' % raw
        return raw                                            # enum name

    # -- pieces
    def directives(self, p=0.22):
        rng = self.rng
        if rng.random() >= p:
            return ""
        out = []
        for dn in rng.sample(["skip", "include"], rng.choice([1, 1, 2])):
            if rng.random() < 0.5:
                val = rng.choice(["true", "false"])
                self.features.add("dir-literal")
            else:
                val = "$" + self.bool_var()
                self.features.add("dir-variable")
            out.append("@%s(if: %s)" % (dn, val))
        return " " + " ".join(out)

    def args_for(self, f, alias):
        key = (f["name"], alias)
        if key in self.argtext:
            return self.argtext[key]
        rng = self.rng
        parts = []
        for a in f["args"]:
            base = named_of(a["type"])
            nonnull = not isinstance(a["type"], str)
            r = rng.random()
            if r < 0.2 and (not nonnull or a["default"] is not None):
                continue                                     # omitted
            if r < 0.55:
                parts.append("%s: $%s" % (a["name"], self.arg_var(a)))
                self.features.add("arg-variable")
            elif r < 0.62 and not nonnull:
                parts.append("%s: null" % a["name"])
            else:
                parts.append("%s: %s" % (a["name"], self.literal(base, self.raw_input(base))))
                self.features.add("arg-literal")
        text = ("(%s)" % ", ".join(parts)) if parts else ""
        self.argtext[key] = text
        return text

    def field(self, f, depth):
        rng = self.rng
        alias = None
        r = rng.random()
        if r < 0.2:
            alias = "x_" + f["name"]
            self.features.add("alias")
        elif r < 0.27:
            alias = "y_" + f["name"]
            self.features.add("alias")
        args = self.args_for(f, alias)
        target = named_of(f["type"])
        sub = ""
        if target in self.idx and self.idx[target]["kind"] in ("object", "interface", "union"):
            sub = " { %s }" % self.selection_set(target, depth + 1)
        return "%s%s%s%s%s" % ((alias + ": ") if alias else "", f["name"], args, self.directives(), sub)

    def type_conditions_for(self, parent):
        """type conditions that can apply to a value of [parent] (PossibleFragmentSpreads)"""
        mine = set(possible_objects(self.desc, parent))
        out = []
        for t in self.desc["types"]:
            if t["kind"] in ("object", "interface", "union"):
                if mine & set(possible_objects(self.desc, t["name"])):
                    out.append(t["name"])
        return out

    def selection_set(self, parent, depth):
        rng = self.rng
        t = self.idx[parent]
        fields = t.get("fields", [])
        n = rng.randint(1, 4)
        parts = []
        deep = depth >= self.max_depth
        for _ in range(n):
            if self.budget <= 0 and parts:
                break
            self.budget -= 1
            r = rng.random()
            leaf_fields = [f for f in fields if named_of(f["type"]) not in self.idx
                           or self.idx[named_of(f["type"])]["kind"] in ("enum", "scalar")]
            usable = leaf_fields if deep else fields
            if r < 0.10 or not usable and r < 0.5:
                parts.append("__typename" if rng.random() < 0.7 else "tn: __typename")
                self.features.add("typename")
            elif r < (0.34 if t["kind"] in ("interface", "union") else 0.22) and not deep:
                conds = self.type_conditions_for(parent)
                if rng.random() < 0.3 or not conds:
                    parts.append("...%s { %s }" % (self.directives(), self.selection_set(parent, depth + 1)))
                    self.features.add("inline-untyped")
                else:
                    tc = rng.choice(conds)
                    other_abstract = [c for c in conds if c != parent and self.idx[c]["kind"] != "object"]
                    crossing = t["kind"] != "object" and other_abstract and rng.random() < 0.6
                    if crossing:
                        # abstract condition under an abstract parent: applies for some runtime types only
                        tc = rng.choice(other_abstract)
                        self.features.add("inline-abstract-crossing")
                    body = self.selection_set(tc, depth + 1)
                    if rng.random() < (0.6 if crossing else 0.3):
                        body = "__typename " + body       # defined on every runtime type: shows whether the condition applied
                    parts.append("... on %s%s { %s }" % (tc, self.directives(), body))
                    self.features.add("inline-typed")
            elif r < 0.36 and not deep:
                conds = self.type_conditions_for(parent)
                reuse = [fn for fn, tc in self.closed if tc in conds]
                if reuse and rng.random() < 0.6:
                    fn = rng.choice(reuse)
                    self.features.add("fragment-reused")
                elif len(self.frags) < 5:
                    tc = rng.choice(conds)
                    fn = "F%d" % len(self.frags)
                    self.frags.append(None)
                    body = self.selection_set(tc, depth + 1)
                    self.frags[int(fn[1:])] = (fn, tc, body)
                    self.closed.append((fn, tc))
                    self.features.add("fragment")
                else:
                    fn = None
                if fn:
                    parts.append("...%s%s" % (fn, self.directives()))
                    if rng.random() < 0.25:
                        parts.append("...%s" % fn)            # spread twice: the visited set
                        self.features.add("spread-twice")
                elif usable:
                    parts.append(self.field(rng.choice(usable), depth))
            elif usable:
                f = rng.choice(usable)
                parts.append(self.field(f, depth))
                if rng.random() < 0.18:
                    # same response key again (merge), with a fresh sub-selection
                    parts.append(self.field(f, depth))
                    self.features.add("same-key")
        if not parts:
            parts.append("__typename")
        rng.shuffle(parts)
        return " ".join(parts)

    def document(self):
        rng = self.rng
        kind = "query"
        root = self.desc["query"]
        if self.desc["mutation"] and rng.random() < 0.3:
            kind, root = "mutation", self.desc["mutation"]
        body = self.selection_set(root, 0)
        vd = ""
        if self.vars:
            vd = "(" + ", ".join(
                "$%s: %s%s" % (n, d["type"], (" = " + d["default"]) if d["default"] is not None else "")
                for n, d in self.vars.items()) + ")"
        named = bool(vd) or rng.random() < 0.5
        opname = None
        defs = []
        if named:
            defs.append("%s Op%s { %s }" % (kind, vd, body))
        else:
            defs.append("%s{ %s }" % ("" if kind == "query" and rng.random() < 0.5 else kind + " ", body))
        if named and rng.random() < 0.25:
            defs.append("query Other { __typename }")
            opname = "Op"
            self.features.add("two-operations")
        elif named and rng.random() < 0.3:
            opname = "Op"
        for fn, tc, fbody in self.frags:
            defs.append("fragment %s on %s { %s }" % (fn, tc, fbody))
        rng.shuffle(defs)
        raw = {n: d["value"] for n, d in self.vars.items() if d["provide"]}
        return "\n".join(defs), raw, opname


def gen_operation(rng, desc, max_sel=40, max_depth=5):
    g = OpGen(rng, desc, max_sel=max_sel, max_depth=max_depth)
    text, raw, opname = g.document()
    return text, raw, opname, sorted(g.features)


# ------------------------------------------------------------------ worlds
class World:
    """Resolver behaviour: table path -> entry. In recording mode an entry is
    drawn (from rng, guided by the field's declared type) the first time a
    path is resolved; afterwards the table is replayed."""

    def __init__(self, desc, table=None, rng=None, allow_crash=False, p_error=0.1):
        self.desc = desc
        self.idx = type_index(desc)
        self.table = dict(table or {})
        self.rng = rng
        self.allow_crash = allow_crash
        self.p_error = p_error

    # entries are JSON-able: ["val", v] ["echo", pyname] ["err", msg, ext] ["exn"] ["default"]
    def entries(self):
        return [[list(p), e] for p, e in self.table.items()]

    @classmethod
    def from_entries(cls, desc, entries):
        return cls(desc, {tuple(p): e for p, e in entries})

    def tref_of(self, gql_type):
        if isinstance(gql_type, NonNullType):
            return ["nn", self.tref_of(gql_type.type)]
        if isinstance(gql_type, ListType):
            return ["list", self.tref_of(gql_type.type)]
        return gql_type.name

    def draw(self, info):
        rng = self.rng
        f = info.field_definition
        t = self.tref_of(f.type)
        r = rng.random()
        if r < self.p_error:
            return gen_error_entry(rng)
        if r < self.p_error + 0.05:
            return ["val", None]
        if r < self.p_error + 0.22:
            return ["default"]
        base = named_of(t)
        leaf = base in LEAF_BUILTIN or self.idx[base]["kind"] in ("enum", "scalar")
        if r < self.p_error + 0.30 and f.arguments and leaf:
            a = rng.choice(f.arguments)
            abase = named_of(self.tref_of(a.type))
            # the argument value must be in the modelled domain of the field's serialiser
            if base in ("String", "ID", "Boolean") or base == abase or (
                    base in self.idx and self.idx[base].get("ser") in ("identity", "table")):
                return ["echo", a.python_name]
        if self.allow_crash and r > 0.985:
            return ["exn"]
        return ["val", self.value(t, 0)]

    def leaf(self, base):
        rng = self.rng
        crash = self.allow_crash and rng.random() < 0.04
        if base == "Int":
            if crash:
                return rng.choice([2147483648, -2147483649, "", [1]])
            return rng.choice([0, 1, -1, 17, 2147483646, -2147483647, True, False, "12", "-3", "007"])
        if base == "Float":
            if crash:
                return rng.choice(["", [1.5]])
            return rng.choice([0, 3, -12, 1.5, -0.25, 1e300, True, 100000000000000])
        if base == "String":
            if crash:
                return rng.choice([[1], ["a"]])
            return rng.choice(["", "txt", "été  ", 5, -20, True, False, 2.5, "quote\"back\\slash"])
        if base == "ID":
            return rng.choice(["id", "", 0, 33, True, 1.25])
        if base == "Boolean":
            return rng.choice([True, False, 0, 2, "", "x", [], [0], {}, {"k": 1}])
        t = self.idx[base]
        if t["kind"] == "enum":
            if crash:
                return rng.choice(["no-such-internal-value", [1], {"a": 1}])
            iv = rng.choice(t["values"])[1]
            return iv
        if t["kind"] == "scalar":
            if t["ser"] == "identity":
                return rng.choice([1, "s", None, [1, [2, None]], {"z": 1, "a": {"b": [True]}}, 2.5])
            if t["ser"] == "table":
                ok = [k for k, a in t["table"] if a[0] == "ret"]
                bad = [k for k, a in t["table"] if a[0] == "raise"]
                if crash and bad:
                    return copy.deepcopy(rng.choice(bad))
                if rng.random() < 0.65:
                    return copy.deepcopy(rng.choice(ok))
                return rng.choice([3, "other", 1, "", [2], {"k": 2}, 1.5])
            if crash:
                return rng.choice(["12", True])
            return rng.choice([0, -4, 123456789012])
        raise AssertionError(base)

    def value(self, t, depth):
        rng = self.rng
        if not isinstance(t, str):
            if t[0] == "nn":
                if rng.random() < 0.07:
                    return None
                return self.value(t[1], depth)
            if rng.random() < 0.08:
                return None
            if self.allow_crash and rng.random() < 0.03:
                return rng.choice([5, "str-is-not-a-list", True])
            n = rng.choice([0, 1, 2, 2, 3])
            items = []
            for _ in range(n):
                items.append(None if rng.random() < 0.15 else self.value(t[1], depth))
            if named_of(t[1]) in ("String", "ID") and isinstance(t[1], str) and rng.random() < 0.05:
                return {"k%d" % i: i for i in range(n)}       # iterating a dict yields its keys
            return items
        if t in LEAF_BUILTIN or self.idx[t]["kind"] in ("enum", "scalar"):
            if rng.random() < 0.06:
                return None
            return self.leaf(t)
        return self.object(t, depth)

    def object(self, tname, depth):
        rng = self.rng
        if rng.random() < 0.05:
            return None
        t = self.idx[tname]
        d = {}
        if t["kind"] == "object":
            runtime = tname
            if rng.random() < 0.3:
                d["__typename__"] = tname
        else:
            key = t.get("resolve_key") or "__typename__"
            poss = possible_objects(self.desc, tname)
            runtime = rng.choice(poss)
            named = runtime
            if self.allow_crash and rng.random() < 0.12:
                others = [x["name"] for x in self.desc["types"] if x["name"] not in poss]
                named = rng.choice(others + ["NoSuchType", 5, None])
            if named is not None:
                d[key] = named
            if key != "__typename__" and rng.random() < 0.3:
                d["__typename__"] = rng.choice(poss + ["Query"])     # ignored when a resolve_type exists
        for f in self.idx[runtime]["fields"]:
            if rng.random() < 0.55:
                tgt = named_of(f["type"])
                composite = tgt in self.idx and self.idx[tgt]["kind"] in ("object", "interface", "union")
                if composite and depth >= 2:
                    continue
                d[f["pyname"]] = self.value(f["type"], depth + 1)
        if rng.random() < 0.5:
            keys = list(d)
            rng.shuffle(keys)
            d = {k: d[k] for k in keys}
        return d

    def root_value(self):
        rng = self.rng
        if rng.random() < 0.2:
            return None
        v = self.object(self.desc["query"], 0)
        if v is not None and self.desc["mutation"]:
            m = self.object(self.desc["mutation"], 0)
            if m:
                for k, x in m.items():
                    v.setdefault(k, x)
        return v

    def resolver(self):
        world = self

        def resolve(root, ctx, info, **args):
            return world.resolve(root, ctx, info, args)
        return resolve

    def resolve(self, root, ctx, info, args):
        key = tuple(info.path)
        if key not in self.table:
            if self.rng is None:
                e = ["default"]          # replay: a path without entry behaves as the default resolver
            else:
                e = self.table[key] = self.draw(info)
        else:
            e = self.table[key]
        if e[0] == "val":
            return e[1]
        if e[0] == "echo":
            return args.get(e[1])
        if e[0] == "echoall":
            return dict(args)          # what the resolver received: coerced arguments, in definition order
        if e[0] == "err":
            raise make_error(e)
        if e[0] == "exn":
            raise Boom("unexpected")
        # behave as the default resolver on mappings
        if isinstance(root, dict):
            return root.get(info.field_definition.python_name)
        return None


class Dispatch:
    """the resolver attached to a Schema: forwards to the current World, so one
    Schema object can serve a sequence of requests with different worlds"""

    def __init__(self):
        self.world = None

    def __call__(self, root, ctx, info, **args):
        return self.world.resolve(root, ctx, info, args)


# ------------------------------------------------------------------ Coq terms
def ctref(t):
    if isinstance(t, str):
        return "(RNamed %s)" % ser.cstr(t)
    return "(%s %s)" % ("RList" if t[0] == "list" else "RNonNull", ctref(t[1]))


def cfield(f):
    return "(MkField %s %s %s %s)" % (
        ser.cstr(f["name"]), ser.cstr(f["pyname"]), ctref(f["type"]),
        ser.clist(f["args"], lambda a: "(ADef %s %s %s %s)" % (
            ser.cstr(a["name"]), ser.cstr(a["pyname"]), ctref(a["type"]),
            "None" if a["default"] is None else "(Some %s)" % ser.cpv(a["default"]["value"]))))


_SCALARS = [("Int", "SInt"), ("Float", "SFloat"), ("String", "SString"), ("ID", "SID"), ("Boolean", "SBoolean")]


def schema_to_coq(desc):
    entries = ["(%s, TScalar %s)" % (ser.cstr(n), k) for n, k in _SCALARS]
    for t in desc["types"]:
        n = ser.cstr(t["name"])
        if t["kind"] == "object":
            entries.append("(%s, TObject %s %s)" % (n, ser.clist(t["fields"], cfield),
                                                    ser.clist(t["interfaces"], ser.cstr)))
        elif t["kind"] == "interface":
            entries.append("(%s, TInterface %s)" % (n, ser.clist(t["fields"], cfield)))
        elif t["kind"] == "union":
            entries.append("(%s, TUnion %s)" % (n, ser.clist(t["types"], ser.cstr)))
        elif t["kind"] == "enum":
            entries.append("(%s, TEnum %s)" % (n, ser.clist(
                t["values"], lambda nv: "(%s, %s)" % (ser.cstr(nv[0]), ser.cpv(nv[1])))))
        elif t["kind"] == "scalar":
            if t["ser"] == "table":
                rows = ser.clist(t["table"], lambda ka: "(%s, %s)" % (
                    ser.cpv(ka[0]), "None" if ka[1][0] == "raise" else "(Some %s)" % ser.cpv(ka[1][1])))
                entries.append("(%s, TScalar (SCustom (ser_table %s)))" % (n, rows))
            else:
                entries.append("(%s, TScalar (SCustom ser_%s))" % (n, t["ser"]))
    return "(Schema [%s] %s %s None)" % (
        "; ".join(entries), ser.copt(desc["query"], ser.cstr), ser.copt(desc["mutation"], ser.cstr))


def tyres_to_coq(desc):
    rows = [(t["name"], t["resolve_key"]) for t in desc["types"]
            if t["kind"] in ("interface", "union") and t.get("resolve_key")]
    return ser.clist(rows, lambda r: "(%s, %s)" % (ser.cstr(r[0]), ser.cstr(r[1])))


def cpath(p):
    return ser.clist(list(p), lambda x: "(PIdx %d)" % x if isinstance(x, int) else "(PKey %s)" % ser.cstr(x))


def centry(e):
    if e[0] == "val":
        return "(WVal %s)" % ser.cpv(e[1])
    if e[0] == "echo":
        return "(WEcho %s)" % ser.cstr(e[1])
    if e[0] == "echoall":
        return "WEchoAll"
    if e[0] == "err":
        return "(WErr %s %s)" % (ser.cstr(e[1]), ser.cpv(e[2]))
    if e[0] == "exn":
        return "WExn"
    return "WDefault"


def table_to_coq(entries):
    return ser.clist(entries, lambda pe: "(%s, %s)" % (cpath(pe[0]), centry(pe[1])))
