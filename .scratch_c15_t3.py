import random, time, json, sys, traceback
from harness.props import c15
from harness import common
rng = random.Random(int(sys.argv[1]) if len(sys.argv)>1 else 1)
tier = sys.argv[2] if len(sys.argv)>2 else "quick"
cases = c15.corpus() + c15.generate(rng, tier)
t0=time.time()
obss=[c15.run_impl(c) for c in cases]
print("impl", time.time()-t0)
terms=[c15.to_coq(c,o) for c,o in zip(cases,obss)]
t0=time.time()
bad, problems = common.run_cases("C15", c15.RUN_MODULE, c15.AGREE, terms, shard=c15.SHARD, case_type=c15.CASE_TYPE)
print("coq", time.time()-t0, "bad", bad, "problems", [p[:1500] for p in problems][:2])
for i in bad[:4]:
    print(i, cases[i]["mode"], common.coq_show(c15.RUN_MODULE, c15.show_expr(cases[i], obss[i]))[-300:])
    print([ (j,op["op"], op.get("name"), op.get("incl"), op.get("disabled")) for j,op in enumerate(cases[i]["ops"])])
keys={}
for c,o in zip(cases,obss):
    for cl,k in c15.direct_checks(c,o):
        keys[k]=keys.get(k,0)+1
        if k is None: print("DIRECT", cl)
print(keys)
print("nontrivial", sum(1 for c,o in zip(cases,obss) if c15.nontrivial(c,o)), "of", len(cases))
json.dump([cases, obss], open("/verif/.scratch_c15_last.json","w"), default=str)
