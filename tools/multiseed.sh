#!/bin/sh
# quick tier of every property under several seeds: shakes out seed-dependent harness failures and false alarms
cd "$(dirname "$0")/.."
for seed in ${SEEDS:-1 2 3}; do
  for p in C01 C02 C03 C04 C05 C06 C07 C08 C09 C10 C11 C12 C13 C14 C15 C16 C17 C18 C19 C20; do
    s=$(date +%s); VERIF_SEED=$seed ./check $p --tier quick > /tmp/ms_${p}_$seed.txt 2>&1; rc=$?
    echo "seed=$seed $p rc=$rc viol=$(grep -c '^VIOLATION' /tmp/ms_${p}_$seed.txt) known=$(grep -c '^KNOWN' /tmp/ms_${p}_$seed.txt) secs=$(( $(date +%s) - s ))"
    grep '^VIOLATION' /tmp/ms_${p}_$seed.txt | head -2
    [ $rc != 0 ] && cp /tmp/ms_${p}_$seed.txt ./ms_fail_${p}_$seed.txt
  done
done
