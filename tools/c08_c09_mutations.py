import subprocess, sys, json, os, re
WT="/tmp/wt-c08"
MUTS = [
 ("M1 gather completes one early", "execution/runtime/threadpool.py", "if done == target_count:", "if done >= target_count - 1:", ["C08"]),
 ("M2 chain drops failure propagation (no else_ match)", "execution/runtime/threadpool.py", "                    else:\n                        target.set_exception(err)\n                else:", "                    else:\n                        pass\n                else:", ["C08"]),
 ("M3 unwrap_future swallows the exception", "execution/runtime/threadpool.py", "            except Exception as err:\n                outer.set_exception(err)\n            else:\n                if _is_future_fast(r):", "            except Exception as err:\n                pass\n            else:\n                if _is_future_fast(r):", ["C08"]),
 ("M4 mutations use execute_fields (all fields started at once)", "execution/execute.py", "exe_fn = executor.execute_fields_serially", "exe_fn = executor.execute_fields", ["C09"]),
 ("M5 gather aggregates in reverse order", "execution/runtime/threadpool.py", "                        for v in result\n", "                        for v in reversed(result)\n", ["C08"]),
 ("M6 asyncio gather_values patches the wrong slots", "execution/runtime/asyncio.py", "                for i, awaited in zip(\n                    pending_idx, await asyncio.gather(*pending)\n                ):", "                for i, awaited in zip(\n                    reversed(pending_idx), await asyncio.gather(*pending)\n                ):", ["C08"]),
 ("M7 serial chain pops from the end", "execution/executor.py", "k, f, n = args.pop(0)", "k, f, n = args.pop()", ["C09"]),
 ("M8 resolve_field drops the outer unwrap_value", "execution/executor.py", "            return self.runtime.unwrap_value(\n                self.runtime.map_value(\n                    self.runtime.unwrap_value(\n                        resolver(", "            return (lambda x: x)(\n                self.runtime.map_value(\n                    self.runtime.unwrap_value(\n                        resolver(", ["C08"]),
 ("M9 BlockingExecutor lets ResolverError escape", "execution/blocking_executor.py", "        except (CoercionError, ResolverError) as err:", "        except CoercionError as err:", ["C08"]),
 ("M10 asyncio unwrap_value unwraps one level only", "execution/runtime/asyncio.py", "                while _isawaitable_fast(cur):", "                if _isawaitable_fast(cur):", ["C08"]),
 ("M11 gather on_finish ignores failures", "execution/runtime/threadpool.py", "        except Exception as err:\n            outer.set_exception(err)\n            return\n", "        except Exception as err:\n            pass\n", ["C08"]),
 ("M12 serial cb does not wait for the field (next started eagerly)", "execution/executor.py", "                return self.runtime.map_value(\n                    self.resolve_field(parent_type, root, f, n, path + [k]), cb\n                )", "                pending_value = self.resolve_field(parent_type, root, f, n, path + [k])\n                nxt = _next()\n                return self.runtime.map_value(\n                    pending_value, lambda v: (resolved_fields.__setitem__(k, v), nxt)[1]\n                )", ["C09"]),
]
MUTS.append(("S1 seeded C08-a: gather_futures fast path for settled siblings", None, "/verif/seeded/C08-a/patch.diff", None, ["C08"]))
MUTS.append(("S3 seeded C08-b: generic complete_non_nullable_value checks only a null *resolved* value", None, "/verif/seeded/C08-b/patch.diff", None, ["C08"]))
MUTS.append(("S4 seeded C09-c: collect_fields._merge moves a re-selected key to the end", None, "/verif/seeded/C09-c/patch.diff", None, ["C09"]))
MUTS.append(("S5 seeded C09-d: resolve_field skips unwrap_value for the default resolver", None, "/verif/seeded/C09-d/patch.diff", None, ["C09", "C08"]))
MUTS.append(("S6 seeded C09-e: _copy_error uses copy.copy (re-calls the constructor)", None, "/verif/seeded/C09-e/patch.diff", None, ["C09", "C08"]))
MUTS.append(("S7 seeded C08-e: AsyncIORuntime.wrap_callable goes through self.submit(func, ...)", None, "/verif/seeded/C08-e/patch.diff", None, ["C08"]))
MUTS.append(("R1 revert of 60b475c (list item completion failure waits for started items)", None, "-R:/verif/fixes/C09-01-list-item-failure-waits-for-started-items.patch", None, ["C09", "C08"]))
MUTS.append(("S8 seeded C08-f: argument_values cached by AST node only", None, "/verif/seeded/C08-f/patch.diff", None, ["C08"]))
MUTS.append(("S9 seeded C09-f: execute_fields_serially loop testing unwrap_value(value) is value", None, "/verif/seeded/C09-f/patch.diff", None, ["C09", "C08"]))
MUTS.append(("R2 revert of 0b6c9fe (serial execution without recursion)", None, "-R:/verif/fixes/C09-02-serial-fields-without-recursion.patch", None, ["C09"]))
MUTS.append(("R3 revert of 75abc69 (list iterable raising part-way)", None, "-R:/verif/fixes/C09-03-list-iterable-raising.patch", None, ["C09", "C08"]))
MUTS.append(("S10 seeded C09-g: nested test without NonNull unwrapping", None, "/verif/seeded/C09-g/patch.diff", None, ["C09"]))
MUTS.append(("S11 seeded C08-i: AsyncIORuntime.gather_values pre-scans its (one-shot) iterable", None, "/verif/seeded/C08-i/patch.diff", None, ["C08"]))
MUTS.append(("S12 seeded C09-i: _iterate_fields drops hidden meta fields through a set difference", None, "/verif/seeded/C09-i/patch.diff", None, ["C09", "C08"]))
MUTS.append(("S2 seeded C09-a: execute() dispatches on root_type identity", None, "/verif/seeded/C09-a/patch.diff", None, ["C09"]))
only = sys.argv[1:]
env = dict(os.environ, PYGQL_REPO=WT)
for name, f, old, new, props in MUTS:
    if only and name.split()[0] not in only: continue
    subprocess.run(["git","-C",WT,"checkout","-q","--","."],check=True)
    if f is None:
        subprocess.run(["git","-C",WT,"apply"] + (["-R", old[3:]] if old.startswith("-R:") else [old]),check=True)
    else:
        p=os.path.join(WT,"src/py_gql",f); s=open(p).read(); assert s.count(old)>=1,(name,"pattern not found"); open(p,"w").write(s.replace(old,new,1))
    for P in props:
        r=subprocess.run(["./check",P,"--tier","quick"],cwd="/verif",env=env,stdout=subprocess.PIPE,stderr=subprocess.DEVNULL,text=True)
        lines=[l for l in r.stdout.splitlines() if l.startswith("VIOLATION") or l.startswith("KNOWN")]
        clause=""
        m=re.search(r"replay=(\S+)", lines[0]) if lines else None
        if m:
            rep=json.load(open(m.group(1))); clause=rep.get("clause","")+" | "+json.dumps(rep.get("case",{}).get("prog", rep.get("case",{}).get("comb","")))[:160]
        print("%-62s %s exit=%d violations=%d :: %s" % (name, P, r.returncode, len(lines), clause), flush=True)
subprocess.run(["git","-C",WT,"checkout","-q","--","."],check=True)
