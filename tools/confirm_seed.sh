#!/bin/sh
# tools/confirm_seed.sh <worktree> <name>: confirm (suite green with change, demo fails with / passes without), archive under
# seeded/<name>, remove worktree. Does not use `git stash` (the stash is shared by all worktrees of a repository).
WT="$1"; NAME="$2"
cd "$WT" || exit 2
git diff --quiet -- src && { echo "no change applied in $WT"; exit 2; }
git diff -- src > /tmp/confirm_$NAME.diff
SUITE=$(PYTHONPATH=$WT/src /venv/bin/python -m pytest -q -p no:cacheprovider 2>&1 | tail -1 | sed 's/\x1b\[[0-9;]*m//g')
PYTHONPATH=$WT/src PYTHONHASHSEED=0 timeout 300 /venv/bin/python demo.py >/dev/null 2>&1; WITH=$?
git checkout -q -- src
PYTHONPATH=$WT/src PYTHONHASHSEED=0 timeout 300 /venv/bin/python demo.py >/dev/null 2>&1; WITHOUT=$?
git apply /tmp/confirm_$NAME.diff
echo "$NAME suite=[$SUITE] demo_with_change_rc=$WITH demo_without_rc=$WITHOUT"
case "$SUITE" in *"1895 passed"*) ;; *) echo "SUITE NOT GREEN"; exit 1;; esac
[ "$WITH" != 0 ] && [ "$WITHOUT" = 0 ] || { echo "DEMO DOES NOT DISCRIMINATE"; exit 1; }
mkdir -p /verif/seeded/$NAME
cp /tmp/confirm_$NAME.diff /verif/seeded/$NAME/patch.diff; cp demo.py /verif/seeded/$NAME/
python3 - "$WT" "$NAME" "$SUITE" "$WITH" "$WITHOUT" <<'PY'
import json, sys
wt, name, suite, w, wo = sys.argv[1:6]
m = json.load(open(wt + "/meta.json"))
m["coordinator_confirmation"] = {"suite_with_change": suite, "demo_rc_with_change": int(w), "demo_rc_without_change": int(wo),
                                 "base_commit": __import__("subprocess").check_output(["git", "-C", wt, "rev-parse", "HEAD"], text=True).strip()}
m.setdefault("coordinator", {"detected_by_check": "pending", "note": ""})
json.dump(m, open("/verif/seeded/%s/meta.json" % name, "w"), indent=1)
PY
cd / && git -C /repo worktree remove --force "$WT" && echo archived
