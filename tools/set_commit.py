#!/usr/bin/env python3
"""tools/set_commit.py <Cxx> <finding-id> <commit>: fill the commit of a fixed finding in known_findings.d/Cxx.json"""
import json, sys
pid, fid, commit = sys.argv[1:4]
p = "/verif/known_findings.d/%s.json" % pid
d = json.load(open(p))
n = 0
for f in d["findings"]:
    if f["id"] == fid:
        f["commit"] = commit
        f["what"] = f["what"].replace("<pending>", commit)
        n += 1
assert n == 1, (pid, fid, n)
json.dump(d, open(p, "w"), indent=1)
print("ok", pid, fid, commit)
