#!/usr/bin/env python3
"""Prints the data-driven parts of DESIGN.md (status table, defect tables, seeded-change table) as markdown."""
import glob, json, os, re, sys
V = "/verif"
props = [json.loads(l) for l in open(V + "/properties.jsonl")]
ready = set(open(V + "/tools/ready.txt").read().split())
src = json.load(open(V + "/tools/manifest_src.json"))["props"]
for f in sorted(glob.glob(V + "/tools/manifest_src.d/*.json")):
    src.update(json.load(open(f)))
known = []
p = V + "/known_findings.json"
known += json.load(open(p))["findings"]
for f in sorted(glob.glob(V + "/known_findings.d/*.json")):
    known += json.load(open(f))["findings"]

def theorems(pid):
    path = V + "/coq/Properties/%s.v" % pid
    if not os.path.exists(path):
        return []
    return re.findall(r"Print\s+Assumptions\s+([\w']+)\s*\.", open(path).read())

def evidence(pid):
    try:
        return json.load(open(V + "/evidence/%s.json" % pid))
    except Exception:
        return None

which = sys.argv[1]
if which == "status":
    print("| Prop | theorems (Print Assumptions: all closed) | of which `_partial` / `_refuted` | quick cases | fixes in /repo | open findings | seeded changes caught |")
    print("|---|---|---|---|---|---|---|")
    for pr in props:
        pid = pr["id"]
        th = theorems(pid)
        part = [t for t in th if t.endswith("_partial") or "_partial" in t]
        ref = [t for t in th if "refuted" in t]
        ev = evidence(pid)
        n = ev["coverage"].get("evaluations") if ev else "-"
        fx = len({k["commit"] for k in known if k["property"] == pid and k["status"] == "fixed"})
        op = len([k for k in known if k["property"] == pid and k["status"] == "open"])
        seeds = []
        for d in sorted(glob.glob(V + "/seeded/%s-*" % pid)):
            m = json.load(open(d + "/meta.json"))
            seeds.append("%s: %s" % (os.path.basename(d), m.get("coordinator", {}).get("detected_by_check", "?")))
        print("| %s%s | %d | %d / %d | %s | %d | %d | %s |" % (
            pid, "" if pid in ready else " (not claimed)", len(th), len(part), len(ref), n, fx, op, "; ".join(seeds) or "-"))
elif which == "fixed":
    print("| Prop | commit | what failed |")
    print("|---|---|---|")
    seen = set()
    for k in known:
        if k["status"] == "fixed":
            what = re.sub(r"^fixed: property=\w+ \w+ ", "", k["what"])
            key = (k["property"], k["commit"], k["id"])
            if key in seen:
                continue
            seen.add(key)
            print("| %s | `%s` | %s |" % (k["property"], k["commit"], what.replace("|", "\\|").replace("\n", " ")))
elif which == "open":
    print("| Prop | id | what fails (reported as KNOWN-FINDING) |")
    print("|---|---|---|")
    for k in known:
        if k["status"] == "open":
            print("| %s | `%s` | %s |" % (k["property"], k["id"], k["what"].replace("|", "\\|").replace("\n", " ")))
elif which == "seeds":
    print("| seeded change | what it changes | needs | detected by `./check` |")
    print("|---|---|---|---|")
    for d in sorted(glob.glob(V + "/seeded/*")):
        m = json.load(open(d + "/meta.json"))
        c = m.get("coordinator", {})
        def short(s, n=260):
            s = " ".join(str(s).split())
            return (s[:n] + "…") if len(s) > n else s
        print("| %s | %s | %s | **%s** — %s |" % (os.path.basename(d), short(m.get("summary", "")).replace("|", "\\|"),
              short(m.get("needs", "")).replace("|", "\\|"), c.get("detected_by_check", "?"), short(c.get("note", ""), 300).replace("|", "\\|")))
