#!/bin/sh
# MANIFEST.setup_cmd: full .vo build of the Coq development, offline.
set -e
cd "$(dirname "$0")/.."
/venv/bin/python - <<'PY'
import sys
sys.path.insert(0, ".")
from harness import common
ok, log = common.ensure_built()
print("coq build:", "ok" if ok else "FAILED\n" + log)
sys.exit(0 if ok else 1)
PY
