#!/bin/sh
# MANIFEST.setup_cmd: .vo build (full compilation, no -vos) of everything the claimed checks need, offline.
set -e
cd "$(dirname "$0")/.."
/venv/bin/python - <<'PY'
import importlib, json, os, sys
sys.path.insert(0, ".")
sys.path.insert(0, "/repo/src")
from harness import common
m = json.load(open("MANIFEST.json"))
targets = []
for c in m["checks"]:
    pid = c["property_id"]
    mod = importlib.import_module("harness.props." + pid.lower())
    targets.append("Properties/%s.vo" % pid)
    targets += [x.replace(".", "/") + ".vo" for x in mod.RUN_MODULE.split()]
ok, log = common.ensure_built(sorted(set(targets)))
print("coq build:", "ok" if ok else "FAILED\n" + log)
sys.exit(0 if ok else 1)
PY
