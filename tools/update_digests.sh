#!/bin/sh
# refresh the committed digests of the property statement files
cd "$(dirname "$0")/../coq/Properties" && sha256sum C*.v > STATEMENTS.sha256 && cat STATEMENTS.sha256
