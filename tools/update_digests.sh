#!/bin/sh
# refresh the committed digest of property statement files: tools/update_digests.sh C19 [C20 ...]
cd "$(dirname "$0")/../coq/Properties" || exit 1
for p in "$@"; do sha256sum "$p.v" | cut -d' ' -f1 > "$p.sha256"; echo "$p $(cat $p.sha256)"; done
