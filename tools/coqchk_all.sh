#!/bin/sh
# Independent re-check of every compiled property file (and everything it depends on) with coqchk; prints the axioms they rely on.
# Minutes per file and gigabytes of memory: run by hand / in the background, not by the checks.
cd "$(dirname "$0")/.." && ./tools/setup.sh || exit 1
cd coq
for p in C01 C02 C03 C04 C05 C06 C07 C08 C09 C10 C11 C12 C13 C14 C15 C16 C17 C18 C19 C20; do
  echo "=== $p"
  timeout 3000 coqchk -silent -o -Q . PyGql PyGql.Properties.$p 2>&1 | tail -25
done
