#!/bin/sh
# tools/apply_fix.sh <fixes/NAME.patch>: apply to /repo as one "fix:" commit after the unedited suite passes
P=$(realpath "$1"); M="${P%.patch}.msg"
[ -f "$M" ] || { echo "no msg for $P"; exit 2; }
git -C /repo diff --quiet || { echo "/repo dirty"; exit 2; }
git -C /repo apply --3way "$P" 2>/tmp/apply.err || git -C /repo apply "$P" || { echo "DOES NOT APPLY: $P"; cat /tmp/apply.err; git -C /repo checkout -- .; exit 1; }
git -C /repo diff --quiet -- tests || { echo "PATCH TOUCHES tests/: $P"; git -C /repo reset -q --hard; exit 1; }
R=$(cd /repo && /venv/bin/python -m pytest -q -p no:cacheprovider -x 2>&1 | tail -1 | sed 's/\x1b\[[0-9;]*m//g')
case "$R" in *"1895 passed"*) ;; *) echo "SUITE FAILS with $P: $R"; git -C /repo reset -q --hard; exit 1;; esac
git -C /repo add -A src && git -C /repo commit -q -F "$M" && echo "$(git -C /repo rev-parse --short HEAD) $(basename $P) [$R]" | tee -a /verif/fixes/APPLIED.log
