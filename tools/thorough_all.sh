#!/bin/sh
# all-properties pass at the thorough tier (sequential); prints one summary line per property
cd "$(dirname "$0")/.."
for p in C01 C02 C03 C04 C05 C06 C07 C08 C09 C10 C11 C12 C13 C14 C15 C16 C17 C18 C19 C20; do
  s=$(date +%s); ./check $p --tier ${1:-thorough} > /tmp/thorough_$p.txt 2>&1; rc=$?
  echo "$p rc=$rc viol=$(grep -c '^VIOLATION' /tmp/thorough_$p.txt) known=$(grep -c '^KNOWN' /tmp/thorough_$p.txt) secs=$(( $(date +%s) - s ))"
  grep '^VIOLATION' /tmp/thorough_$p.txt | head -3
done
