#!/bin/sh
# tools/run_seeds.sh [names...]: for each seeded change, apply it in a scratch worktree of /repo HEAD, run the
# property's quick check there (PYGQL_REPO), remove the worktree; print a summary line.
# (equivalent to `git -C /repo apply` + check + `git -C /repo checkout -- .`, without disturbing /repo while builders use it)
cd /verif
[ $# -gt 0 ] && NAMES="$@" || NAMES=$(ls seeded)
for n in $NAMES; do
  P=$(echo $n | cut -d- -f1)
  WT=/tmp/seedwt-$n
  git -C /repo worktree add -q --detach $WT HEAD || continue
  if ! git -C $WT apply --3way /verif/seeded/$n/patch.diff >/dev/null 2>&1; then
     # a later fix: commit rewrote the same lines: use the port of the change onto the fixed code, if one was made
     git -C $WT reset -q --hard ; PORT=$(ls /verif/seeded/$n/patch_ported*.diff 2>/dev/null | tail -1)
     if [ -z "$PORT" ] || ! git -C $WT apply "$PORT" >/dev/null 2>&1; then
        echo "$n: PATCH DOES NOT APPLY"; git -C /repo worktree remove --force $WT; continue
     fi
     echo "$n: using $(basename $PORT)"
  fi
  PYGQL_REPO=$WT ./check $P ${SEEDARGS:-} > /tmp/seedrun_$n.txt 2>&1; rc=$?
  V=$(grep -c '^VIOLATION' /tmp/seedrun_$n.txt); NI=$(grep -c 'no-failing-input-found' /tmp/seedrun_$n.txt)
  echo "$n: check_rc=$rc violations=$V (no-input=$NI) first=$(grep -m1 '^VIOLATION' /tmp/seedrun_$n.txt | sed 's/.*replay=//')"
  [ "$V" != 0 ] && cp $(grep -m1 '^VIOLATION' /tmp/seedrun_$n.txt | sed 's/.*replay=//; s/ .*//') /tmp/seedreplay_$n.json 2>/dev/null
  git -C /repo worktree remove --force $WT
done
