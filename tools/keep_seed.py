#!/usr/bin/env python3
"""tools/keep_seed.py <worktree> <name> <detected: yes|no|after-strengthening> <note>: archive a confirmed seeded change."""
import json, os, shutil, sys
wt, name, det, note = sys.argv[1:5]
d = os.path.join("/verif/seeded", name)
os.makedirs(d, exist_ok=True)
for f in ("patch.diff", "demo.py"):
    shutil.copy(os.path.join(wt, f), d)
m = json.load(open(os.path.join(wt, "meta.json")))
m["coordinator"] = {"detected_by_check": det, "note": note}
json.dump(m, open(os.path.join(d, "meta.json"), "w"), indent=1)
print("kept", d)
