#!/bin/sh
# tools/try_seed.sh <patch.diff> <Cxx> [extra check args]: apply a seeded change to /repo, run the check, undo.
P="$1"; C="$2"; shift 2
git -C /repo diff --quiet || { echo "/repo not clean"; exit 2; }
git -C /repo apply "$P" || { echo "patch does not apply"; exit 2; }
cd /verif && ./check "$C" "$@" | head -8
rc=$?
git -C /repo checkout -- . 
echo "check_rc_via_head_pipeline_ignore; see VIOLATION lines above"
git -C /repo status --short
