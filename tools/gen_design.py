#!/usr/bin/env python3
"""Assembles /verif/DESIGN.md from tools/design_src/*.md and the generated tables."""
import glob, json, os, subprocess
V = "/verif"
S = V + "/tools/design_src/"
def rd(n): return open(S + n).read()
def tab(which): return subprocess.check_output(["python3", V + "/tools/gen_design_tables.py", which], text=True)
src = json.load(open(V + "/tools/manifest_src.json"))["props"]
for f in sorted(glob.glob(V + "/tools/manifest_src.d/*.json")):
    src.update(json.load(open(f)))
props = [json.loads(l) for l in open(V + "/properties.jsonl")]
out = [rd("00_preface.md")]
out.append("## 0. Status at a glance\n\nAll twenty properties are claimed at level *proof*; `./check Cxx` exits 0 on the tree as left "
           "(with `KNOWN-FINDING` lines for the open findings). Every theorem counted below is `Qed`-closed and prints "
           "`Closed under the global context` (no axioms anywhere in the development).\n\n" + tab("status") +
           "\n---------------------------------------------------------------------------\n\n")
out.append(rd("01_why.md"))
out.append(rd("02_layout_as_built.md"))
out.append(rd("03_modelling.md"))
out.append(rd("04_harness_plan.md"))
out.append(rd("05_trusted.md"))
out.append(rd("06_defects_head.md") + tab("fixed") + rd("06_defects_mid.md") + tab("open") + rd("06_defects_tail.md"))
sec7 = [rd("07_head.md")]
for p in props:
    e = src.get(p["id"], {})
    sec7.append("### %s — %s\n\n*Technique.* %s\n\n*Claim.* %s\n\n*Assumed / trusted.* %s\n\n*Annex.* `docs/%s.md`\n\n" % (
        p["id"], p["title"], e.get("technique", "-"), e.get("text", "-"), e.get("note", "-"), p["id"]))
out.append("".join(sec7) + "---------------------------------------------------------------------------\n\n")
out.append(rd("08_seeds_head.md") + tab("seeds") + rd("08_seeds_tail.md"))
out.append(rd("09_limits.md"))
out.append("## Appendix A. Pre-build survey of defects (row numbers referenced by the annexes)\n\n" +
           "\n".join(rd("A_prebuild_survey.md").split("\n")[2:]))
out.append("\n## Appendix B. Original per-property plans (written before the build; full-strength targets)\n\n" +
           "\n".join(rd("B_original_plans.md").split("\n")[2:]))
out.append("\n## Appendix C. Feasibility spikes run before the design\n\n" + "\n".join(rd("C_spikes.md").split("\n")[2:]))
out.append("\n## Appendix D. Definition sketches written before the build\n\n" + "\n".join(rd("D_sketches.md").split("\n")[2:]))
open(V + "/DESIGN.md", "w").write("\n".join(out))
print("DESIGN.md written:", sum(len(x) for x in out), "chars")
