#!/usr/bin/env python3
"""Regenerates MANIFEST.json from tools/manifest_src.json (per-property texts)."""
import json, os
HERE = os.path.dirname(os.path.abspath(__file__))
src = json.load(open(os.path.join(HERE, "manifest_src.json")))
dd = os.path.join(HERE, "manifest_src.d")
if os.path.isdir(dd):
    for f in sorted(os.listdir(dd)):
        if f.endswith(".json"):
            src["props"].update(json.load(open(os.path.join(dd, f))))
props = [json.loads(l)["id"] for l in open(os.path.join(HERE, "..", "properties.jsonl"))]
ready = set(open(os.path.join(HERE, "ready.txt")).read().split())
checks, na = [], []
for pid in props:
    e = src["props"].get(pid)
    if e and e.get("claimed") and pid in ready:
        checks.append({
            "property_id": pid,
            "quick_cmd": "./check %s --tier quick" % pid,
            "thorough_cmd": "./check %s --tier thorough" % pid,
            "evidence_file": "/verif/evidence/%s.json" % pid,
            "replay_cmd_template": "./check %s --replay {path}" % pid,
            "engine": "rocq-model+correspondence",
            "level_claimed": {"category": "proof", "text": e["text"], "design_ref": e.get("design_ref", "DESIGN.md section 7 (%s)" % pid)},
            "level_note": e["note"],
            "technique": e["technique"],
        })
    else:
        na.append({"property_id": pid, "reason": (e or {}).get("reason", "not built yet: no Rocq model/check exists for this property in this commit; planned in DESIGN.md section 7")})
m = {
    "version": 1,
    "setup_cmd": "cd /verif && ./tools/setup.sh",
    "hooks": {"guard": "PY_GQL_VERIF", "enable": "no hooks are compiled into /repo: every observable is reached through public API (validators=, Instrumentation, middlewares, runtime objects); the guard variable is unused", "baseline_off_cmd": "cd /repo && /venv/bin/python -m pytest -q -p no:cacheprovider", "source_commits": [], "add_only": True},
    "engines": [{"name": "rocq-model+correspondence", "path": "/verif/check", "serves_properties": [c["property_id"] for c in checks],
                 "kind_free_text": "machine-checked theorems (Coq 8.16.1) about hand-written Gallina models in /verif/coq; models tied to /repo on every run by evaluating them with vm_compute on the same generated inputs as the implementation (harness/)"}],
    "checks": checks,
    "not_applicable": na,
    "notes": src.get("notes", ""),
}
json.dump(m, open(os.path.join(HERE, "..", "MANIFEST.json"), "w"), indent=1)
print("checks:", [c["property_id"] for c in checks])
