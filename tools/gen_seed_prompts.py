#!/usr/bin/env python3
"""tools/gen_seed_prompts.py <letter>: write tools/seed_prompts/Cxx-<letter>.txt for every property from the
previous round's prompt, listing the summaries of every change already archived under seeded/ for that property
(what a seed agent may know: the property text and what was already tried; nothing about the checks)."""
import glob, json, os, re, sys
L = sys.argv[1]
prev = chr(ord(L) - 1)
here = os.path.dirname(os.path.abspath(__file__))
for i in range(1, 21):
    P = "C%02d" % i
    t = open("%s/seed_prompts/%s-%s.txt" % (here, P, prev)).read()
    t = t.replace("seed-%s-%s" % (P.lower(), prev), "seed-%s-%s" % (P.lower(), L))
    head, rest = t.split("(do NOT repeat these or close variants):\n", 1)
    tail = rest[rest.index("The obvious mechanisms have been tried."):]
    items = []
    for m in sorted(glob.glob("%s/../seeded/%s-*/meta.json" % (here, P))):
        s = json.load(open(m)).get("summary", "")
        items.append("- " + re.sub(r"\s+", " ", s)[:260])
    t = head + "(do NOT repeat these or close variants):\n" + "\n".join(items) + "\n" + tail
    open("%s/seed_prompts/%s-%s.txt" % (here, P, L), "w").write(t)
    print(P, len(items))
